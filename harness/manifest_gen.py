#!/usr/bin/env python3
"""Regenerates /verif/MANIFEST.json from the table below (keeps it valid at all times)."""
import json
import os

VERIF = os.path.dirname(os.path.dirname(os.path.abspath(__file__)))
ALL = ["C%02d" % i for i in range(1, 21)]

CHECKS = {
    "C09": dict(
        technique="TLA+ spec (OrderedMap reference + LinkedSet implementation layer) model-checked by TLC; complete LTS replayed into Deb822; recorded histories validated by TLC (TraceOrderedMap)",
        text="TLC explores the closed state space of the implementation-level model (hash table + doubly linked list + value dict) and checks that it refines the reference ordered mapping in every reachable state, i.e. for histories of any length over 3 names x 2 spellings x 2 values. The binding is two-way: every transition of the reference LTS plus long random walks are replayed into the real Deb822 class from four kinds of start object with all observables compared after each call, and histories recorded from the real class over 8 names x 4 spellings are validated by TLC against the same actions.",
        note="Small-scope: model constants 3 names/2 spellings/2 values; concretization of names and values is sampled. Trusted: TLC, the projections list(d)/d[k]/dump(), the concretizer. Corrupted control traces must be rejected in every run.",
        design="5 (C09)"),
}

NOT_YET = "check not built yet in this round (specification planned in DESIGN.md section 5); not claimed"


def main():
    checks = []
    for pid in ALL:
        if pid not in CHECKS:
            continue
        c = CHECKS[pid]
        checks.append({
            "property_id": pid,
            "quick_cmd": "./check %s --tier quick" % pid,
            "thorough_cmd": "./check %s --tier thorough" % pid,
            "evidence_file": "/verif/evidence/%s.json" % pid,
            "replay_cmd_template": "./check %s --replay {path}" % pid,
            "engine": "tlc+replay",
            "level_claimed": {"category": c.get("category", "model_checking"), "text": c["text"],
                              "design_ref": "DESIGN.md section " + c["design"]},
            "level_note": c["note"],
            "technique": c["technique"],
        })
    m = {
        "version": 1,
        "setup_cmd": "./setup.sh",
        "hooks": {
            "guard": "PYTHON_DEBIAN_VERIF",
            "enable": "no source hooks are needed: the library is sequential and every abstract state is observable through its public API; the harness imports /repo/lib directly (VERIF_REPO overrides the path). The guard name is reserved and unused.",
            "baseline_off_cmd": "cd /repo && /venv/bin/python -m pytest -ra -q -p no:cacheprovider --timeout=900 --continue-on-collection-errors",
            "source_commits": [],
            "add_only": True,
        },
        "engines": [
            {"name": "tlc+replay", "path": "/verif/harness/check.py",
             "serves_properties": [c["property_id"] for c in checks],
             "kind_free_text": "TLC 1.8 model checking of TLA+ specifications under /verif/spec; spec->code replay of TLC-emitted behaviours and code->spec trace validation by TLC, driven by /verif/harness (Python, /venv/bin/python importing /repo/lib)"},
        ],
        "checks": checks,
        "not_applicable": [{"property_id": p, "reason": NOT_YET} for p in ALL if p not in CHECKS],
        "notes": "All checks: exit 0 = held (KNOWN-FINDING lines possible), exit 1 = VIOLATION line, exit 2 = machinery failure. Genuine defects repaired in /repo by 'fix:' commits are listed as fixed in /verif/known_findings.json; the only open finding is C20-insert-chars.",
    }
    with open(os.path.join(VERIF, "MANIFEST.json"), "w") as f:
        json.dump(m, f, indent=1)
        f.write("\n")


if __name__ == "__main__":
    main()
