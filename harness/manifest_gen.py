#!/usr/bin/env python3
"""Regenerates /verif/MANIFEST.json from the table below (keeps it valid at all times)."""
import json
import os

VERIF = os.path.dirname(os.path.dirname(os.path.abspath(__file__)))
ALL = ["C%02d" % i for i in range(1, 21)]

import importlib
import sys
sys.dont_write_bytecode = True
sys.path.insert(0, os.path.dirname(os.path.abspath(__file__)))
CHECKS = {}
for _p in ALL:
    if os.path.exists(os.path.join(os.path.dirname(os.path.abspath(__file__)), "props", _p.lower() + ".py")):
        _m = importlib.import_module("props." + _p.lower())
        if getattr(_m, "MANIFEST", None):
            CHECKS[_p] = _m.MANIFEST

NOT_YET = "check not built yet in this round (specification planned in DESIGN.md section 5); not claimed"


def main():
    checks = []
    for pid in ALL:
        if pid not in CHECKS:
            continue
        c = CHECKS[pid]
        checks.append({
            "property_id": pid,
            "quick_cmd": "./check %s --tier quick" % pid,
            "thorough_cmd": "./check %s --tier thorough" % pid,
            "evidence_file": "/verif/evidence/%s.json" % pid,
            "replay_cmd_template": "./check %s --replay {path}" % pid,
            "engine": "tlc+replay",
            "level_claimed": {"category": c.get("category", "model_checking"), "text": c["text"],
                              "design_ref": "DESIGN.md section " + c["design"]},
            "level_note": c["note"],
            "technique": c["technique"],
        })
    m = {
        "version": 1,
        "setup_cmd": "./setup.sh",
        "hooks": {
            "guard": "PYTHON_DEBIAN_VERIF",
            "enable": "no source hooks are needed: the library is sequential and every abstract state is observable through its public API; the harness imports /repo/lib directly (VERIF_REPO overrides the path). The guard name is reserved and unused.",
            "baseline_off_cmd": "cd /repo && /venv/bin/python -m pytest -ra -q -p no:cacheprovider --timeout=900 --continue-on-collection-errors",
            "source_commits": [],
            "add_only": True,
        },
        "engines": [
            {"name": "tlc+replay", "path": "/verif/harness/check.py",
             "serves_properties": [c["property_id"] for c in checks],
             "kind_free_text": "TLC 1.8 model checking of TLA+ specifications under /verif/spec; spec->code replay of TLC-emitted behaviours and code->spec trace validation by TLC, driven by /verif/harness (Python, /venv/bin/python importing /repo/lib)"},
        ],
        "checks": checks,
        "not_applicable": [{"property_id": p, "reason": NOT_YET} for p in ALL if p not in CHECKS],
        "notes": "All checks: exit 0 = held (KNOWN-FINDING lines possible), exit 1 = VIOLATION line, exit 2 = machinery failure. Genuine defects repaired in /repo by 'fix:' commits are listed as fixed in /verif/known_findings.json; the only open finding is C20-insert-chars. All 20 listed properties are claimed and decided by the TLA+ specification (not_applicable is empty). Beyond them the specification covers 18 further subsystems of the library (extras X01-X18: ./check XNN, evidence/XNN.json, DESIGN.md 10.8; their findings are reported as 'KNOWN-FINDING: extra=XNN ...' and are not registered as property checks). spec/INDEX.md indexes the 146 modules. seeded/ holds the seeded changes of seven rounds written by fresh sub-agents (harness/seeded.py) and seeded/benign/ 60 property-preserving changes for the false-alarm test (harness/benign.py); harness/selftest.py runs the source mutants of harness/mutants/.",
    }
    with open(os.path.join(VERIF, "MANIFEST.json"), "w") as f:
        json.dump(m, f, indent=1)
        f.write("\n")


if __name__ == "__main__":
    main()
