#!/usr/bin/env python3
"""Prints a markdown table of the seeded changes of the given rounds (letters), from seeded/*/meta.json and NOTES.md:
   seed_table.py GH | IJ | benign"""
import glob, json, os, re, sys
V = os.path.dirname(os.path.dirname(os.path.abspath(__file__)))
what = sys.argv[1]


def first_sentence(notes):
    t = re.sub(r"\s+", " ", notes)
    t = re.sub(r"^#* ?(Seed|seed) \w+ *[-—:(]*", "", t)
    m = re.search(r"(Change|What|Mechanism|Where)[^:]{0,40}:\s*(.*)", t)
    t = m.group(2) if m else t
    return t[:230].replace("|", "/")


if what == "benign":
    print("| id | kind / what the change does | checks run | result |")
    print("|----|-----------------------------|------------|--------|")
    for d in sorted(glob.glob(os.path.join(V, "seeded", "benign", "*"))):
        m = json.load(open(os.path.join(d, "meta.json")))
        r = m.get("ran", {}).get("quick_checks", {})
        bad = {k: v for k, v in r.items() if v != "quiet"}
        res = "quiet" if r and not bad else ("; ".join("%s: %s" % (k, v[:60]) for k, v in bad.items()) if r else "not run")
        if m.get("lead_note"):
            res += " — " + m["lead_note"][:160]
        print("| %s | %s | %s | %s |" % (os.path.basename(d), first_sentence(open(os.path.join(d, "NOTES.md")).read()), " ".join(r) or "-", res.replace("|", "/")))
else:
    print("| id | style, change / needs | first contact | now |")
    print("|----|-----------------------|---------------|-----|")
    for d in sorted(glob.glob(os.path.join(V, "seeded", "C*-seed[%s]" % what))):
        m = json.load(open(os.path.join(d, "meta.json")))
        r = m.get("ran", {})
        now = r.get("quick_check", "?").split(" (./check")[0]
        print("| %s | %s | %s | %s |" % (os.path.basename(d), first_sentence(open(os.path.join(d, "NOTES.md")).read()), r.get("first_contact", "not recorded").lower(), now.lower()))
