"""Shared by C04 and C15 (spec/Changelog.tla, spec/TraceChangelog.tla).

* concretization: one text generator per line class of the specification (grammar-driven for the
  deb-changelog(5) classes, fixed families for the tolerated legacy forms); every generator also
  returns the CONTENT it wrote (header attributes, author/date), which is what C04 compares with;
* the independent line classifier `classify` (trusted base): written from deb-changelog(5) and the
  documented legacy forms with its own ASCII-only patterns, it never calls the code under test;
* drivers for the real debian.changelog.Changelog (every exception is an observation);
* trace recording by prefix closure, interning of strings, corrupted control traces.

Nothing in here decides what the parser should do with a line: expected block structure, warning
predictions and the domain guard of the fixpoint law come from TLC (CASE / EDGE lines, trace
validation); the C15 verdicts are the self-consistency laws of the statement.
"""
import copy
import re
import warnings

import core

# DESIGN D1: characters str.splitlines() treats as line boundaries never occur inside a line
D1 = "\n\r\v\f\x1c\x1d\x1e\x85\u2028\u2029"

TOP = ("TopOK", "TopBadKV", "TopDupKey", "TopBadUrg")
END = ("EndOK", "EndOneSpace")
ALL_CLASSES = TOP + ("Blank", "BlankWide", "Change") + END + (
    "EndNoDetails", "Emacs", "Vim", "Cvs", "HashComment", "CComment",
    "Old1", "Old2", "Old3", "Old4", "Old5", "Old6", "Old7", "Old8", "Junk")

# ------------------------------------------------------------------ concretization

PKG_FIRST = "abcdefghijklmnopqrstuvwxyz0123456789"
PKG_REST = PKG_FIRST + "+.-"
VER_CH = "ABCXYZabcdxyz0123456789.+~"
DISTS = ["unstable", "stable", "experimental", "UNRELEASED", "stable-security", "bookworm-backports",
         "oldstable-proposed-updates", "sid", "buster.1", "jessie-backports-sloppy", "testing", "xenial", "12.5-updates"]
URG = ["low", "medium", "high", "emergency", "critical", "HIGH", "Low", "Medium"]
COMMENTS = ["(HIGH for users of diversions)", "(security)", "(a=b)", "because: reasons; more", "(é ü)", "x", "(#12345 fixed)"]
KEYS = ["binary-only", "XS-Foo", "XC-Bar", "xb-baz", "Closes", "a", "x-v2", "Key"]
VALS = ["yes", "no", "a b c", "x=y;z", "1.0-1", "é", "(v)", "#1", "v:w", "e\u0301", "\ufb01", "\uff21", "a\u00a0b", "\u212b", "\u00c5", "x\u0100",
        "y\u013f", "\ufeffv", "\U0001f600"]
WORDS = ["fix", "the", "frobnicator", "Closes: #123456", "LP: #99", "naïve", "中文", "#", ":", "key: value", "a\tb",
         "-- Joe <j@x>  Mon, 01 Jan 2001 00:00:00 +0000", "(pkg) unstable; urgency=low", "[ Someone Else ]",
         "$Id$", "vim:", "/* c */", "ÀÉÎ", "ß", "𝔘", " ", "'quoted'", "\"dq\"", "\\", "%s", "{}", "--", "*", "+"]
# character stress: text that is not NFC/NFKC-stable next to its precomposed twin, case-mapping hazards,
# U+FEFF, joiners, soft hyphen, bidi marks, non-BMP, white-space look-alikes INSIDE tokens (at the ends of a
# header value they would be stripped as white space, which deb-changelog does not define), lone combining mark
CHAR_WORDS = ["e\u0301", "\u00e9", "A\u030a", "\u00c5", "\u212b", "\u2126", "\u03a9", "\uf9d0", "\ufb01", "fi", "\uff21",
              "\u1112\u1161\u11ab", "\ud55c", "\u00df", "\u0130", "\u0131", "\u017f", "\u03c3\u03c2", "\U00010400",
              "\ufeffbom", "mid\ufeffdle", "a\u200db", "a\u200cb", "so\u00adft", "\u200eltr\u200f", "\U0001f600", "\U0010ffff",
              "a\u00a0b", "a\u2003b", "a\u3000b", "a\u200bb", "\u0301lone"]
# format-string hazards (round 6): the parser QUOTES pieces of its input in its diagnostics (the whole line, a key=value
# item, the urgency value), and every formatted output is assembled from attribute values -- text that means something
# to a formatting mini-language ('%'-formatting, str.format, string.Template, regular-expression replacement templates)
# must be plain data wherever free text is allowed.  Drawn in every free-text piece of every line class (conc_haz) and
# in the values of the editing calls.  No ',' ';' '=' '<' '>' '(' ... that would change the CLASS of a line.
FMT_HAZ = ["%", "%s", "%d", "%(x)s", "%%", "100%", "50% off", "%r and %s", "%5.2f", "%(", "%(x", "% ", "%n", "%c", "%*d", "%s%s%s%s", "x%",
           "{}", "{0}", "{x}", "{0!r:^10}", "{", "}", "{{}}", "}{", "{0.__class__}", "{1}", "\\", "\\n", "\\x", "\\1", "\\0", "\\N{DASH}",
           "a\\", "$x", "${HOME}", "$$", "`id`", "%\u00e9", "{\u4e2d}"]


def fmt_haz(rng, strip=False):
    h = rng.choice(FMT_HAZ)
    return h.strip() if strip else h


NAMES = ["Ange\u0301lique A\u030astro\u0308m", "Ang\u00e9lique \u00c5str\u00f6m", "\u212bngstr\u00f6m \u2126", "\u0130stanbul \u0131\u017f",
         "Joe Hacker", "J. R. Hacker", "\"Quoted, Name\"", "Name [team]", "Zoë Müller", "x", "A <B> C", "名前", "O'Neil", "Sole",
         "Joe (work)", "Dr.-Ing. X"]
MAILS = ["joe@example.org", "j.h+tag@sub.example.co.uk", "", "a@b", "first.last@例え.jp", "root@localhost"]
DOW = ["Mon", "Tue", "Wed", "Thu", "Fri", "Sat", "Sun"]
MON = ["Jan", "Feb", "Mar", "Apr", "May", "Jun", "Jul", "Aug", "Sep", "Oct", "Nov", "Dec"]


# size / threshold stress (notes/SIZE_STRESS.md): lengths, counts and numbers hit boundary neighbourhoods.
# The abstract case (line classes, block structure from TLC) does not change; only the payload grows.
LEN_B = [1, 2, 7, 8, 9, 15, 16, 17, 31, 32, 33, 63, 64, 65, 71, 72, 73, 79, 80, 81, 127, 128, 129, 255, 256, 257,
         1023, 1024, 1025, 4095, 4096, 4097, 8191, 8192, 8193]
CNT_B = [1, 2, 3, 9, 10, 11, 16, 17, 31, 32, 33, 99, 100, 101, 255, 256, 257]
NUM_B = [0, 9, 10, 99, 100, 2 ** 15, 2 ** 16, 2 ** 31 - 1, 2 ** 31, 2 ** 32 - 1, 2 ** 32, 2 ** 63 - 1, 2 ** 63, 10 ** 18]


def pick_len(rng, lo=1, hi=8193):
    """heavy-tailed: mostly the small boundaries, regularly the big ones, sometimes 64 Ki"""
    r = rng.random()
    pool = [n for n in LEN_B if lo <= n <= hi]
    if r < 0.03 and hi >= 65537:
        return rng.choice([65535, 65536, 65537])
    if r < 0.55:
        pool = [n for n in pool if n <= 130] or pool
    elif r < 0.85:
        pool = [n for n in pool if n <= 1025] or pool
    return rng.choice(pool)


def pick_count(rng, hi=257):
    r = rng.random()
    pool = [n for n in CNT_B if n <= hi]
    if r < 0.6:
        pool = [n for n in pool if n <= 33] or pool
    return rng.choice(pool)


def gen_package(rng, stress=False):
    n = pick_len(rng, 2, 1025) if stress else rng.randint(2, 9)
    return rng.choice(PKG_FIRST) + "".join(rng.choice(PKG_REST) for _ in range(n - 1))


def gen_version(rng, stress=False):
    """any valid version per DESIGN D2 (outside its unspecified zone)"""
    epoch = rng.random() < (0.6 if stress else 0.25)
    up = rng.choice("0123456789" if rng.random() < 0.9 else VER_CH)
    extra = VER_CH + ("-" if rng.random() < 0.3 else "") + (":" if epoch and rng.random() < 0.3 else "")
    up += "".join(rng.choice(extra) for _ in range((pick_len(rng, 1, 1025) - 1) if stress else rng.randint(0, 6)))
    if epoch:
        e = rng.choice(NUM_B) if stress else rng.choice([0, 1, 2, 10, 2021])
        v = ("0" * rng.choice([0, 0, 1, 3]) if stress else "") + "%d:" % e + up
    else:
        v = up
    if "-" in up or rng.random() < 0.6:
        v += "-" + "".join(rng.choice("abz0123456789+.~") for _ in range(pick_len(rng, 1, 257) if stress else rng.randint(1, 5)))
    return v


def gen_dists(rng, stress=False):
    if stress:
        return " ".join(rng.choice(DISTS) + rng.choice(["", "", "-x", ".%d" % rng.choice(NUM_B)]) for _ in range(pick_count(rng, 101)))
    return " ".join(rng.sample(DISTS, rng.choice([1, 1, 1, 2, 3])))


def _boundary_times():
    import datetime
    D = datetime.datetime
    return [D(1970, 1, 1), D(1999, 12, 31, 23, 59, 59), D(2000, 1, 1), D(2000, 2, 29, 12), D(2001, 9, 9, 1, 46, 40),
            D(2038, 1, 19, 3, 14, 7), D(2038, 1, 19, 3, 14, 8), D(2100, 2, 28, 23, 59, 59), D(9999, 12, 31, 23, 59, 59),
            D(1995, 1, 9, 9, 9, 9), D(2024, 2, 29), D(2010, 10, 10, 10, 10, 10)]


def gen_date(rng, stress=False):
    """a real calendar date (the weekday, when written, is the right one) in the documented form
    [day-of-week, ]d[d] month yyyy h[h]:mm:ss +zzzz with a real-world zone; stress: boundary dates"""
    import datetime
    if stress and rng.random() < 0.7:
        t = rng.choice(_boundary_times())
    else:
        t = datetime.datetime(1995, 1, 1) + datetime.timedelta(seconds=rng.randrange(0, 43 * 365 * 86400))
    day = rng.choice(["%d" % t.day, "%02d" % t.day])
    hour = rng.choice(["%d" % t.hour, "%02d" % t.hour])
    s = "%s %s %04d %s:%02d:%02d %s%04d" % (day, MON[t.month - 1], t.year, hour, t.minute, t.second, rng.choice("+-"),
                                           rng.choice([0, 100, 200, 330, 530, 545, 800, 930, 1000, 1200, 1245, 1400]))
    if rng.random() < 0.75:
        s = DOW[t.weekday()] + "," + rng.choice([" ", " ", "  "] if len(day) == 1 else [" "]) + s
    return s


def gen_text(rng, n):
    """n characters of change / name payload (no D1 character, no leading / trailing blank)"""
    if n <= 0:
        return ""
    alphabet = "abcdefghij klmnop qrstuvwxyz#:é中-.,;()<>=*"
    t = "".join(rng.choice(alphabet) for _ in range(n))
    return "x" + t[1:-1] + "y" if n > 1 else "x"


def gen_author(rng, stress=False):
    if stress:
        return "%s <%s>" % (gen_text(rng, pick_len(rng, 1, 4097)).replace("<", "(").replace(">", ")"),
                            rng.choice(MAILS) if rng.random() < 0.5 else gen_text(rng, pick_len(rng, 1, 1025)).replace("<", "").replace(">", "").replace(" ", ".") + "@x")
    if rng.random() < 0.2:
        return "%s <%s>" % (rng.choice([rng.choice(NAMES) + " " + fmt_haz(rng, True), fmt_haz(rng, True) + " " + rng.choice(NAMES), fmt_haz(rng, True)]),
                            rng.choice([rng.choice(MAILS), "j" + fmt_haz(rng, True).replace(" ", "") + "@x", fmt_haz(rng, True)]))
    return "%s <%s>" % (rng.choice(NAMES), rng.choice(MAILS))


def gen_change_text(rng, stress=False):
    if stress:
        return "  " + rng.choice(["* ", "", "  "]) + gen_text(rng, pick_len(rng, 1, 65537))
    n = rng.randint(1, 5)
    body = " ".join(rng.choice(CHAR_WORDS if rng.random() < 0.3 else WORDS) for _ in range(n))
    if rng.random() < 0.2:
        body = rng.choice([body + " " + fmt_haz(rng), fmt_haz(rng) + " " + body, fmt_haz(rng), body.replace(" ", " " + fmt_haz(rng) + " ", 1)])
    lead = rng.choice(["* ", "* ", "  ", "- ", "", "+ ", "\t", "    ", "\ufeff* "])
    s = "  " + lead + body + rng.choice(["", "", "", " ", ".", "\t"])
    if rng.random() < 0.25:          # line-final characters whose UTF-8 form ends in every byte 0x80 .. 0xBF
        s += chr(0x100 + rng.randrange(64))
    if not s.strip():
        s += "x"
    return s


def header(pkg, ver, dists, urg, comment, pairs):
    s = "%s (%s) %s; urgency=%s" % (pkg, ver, dists, urg)
    if comment:
        s += " " + comment
    for k, v in pairs:
        s += ", %s=%s" % (k, v)
    return s


def gen_top_content(rng, canonical=False, stress=False):
    if canonical:
        return dict(pkg="pkg", ver="1.0-1", dists="unstable", urg="low", comment="", pairs=[])
    pairs = []
    keys = set()
    if stress:
        n = rng.choice([0, 1, 2]) if rng.random() < 0.5 else pick_count(rng, 101)
        for j in range(n):
            pairs.append(("%s%d" % (rng.choice(["k", "XS-K", "x-y-", "Key"]), j), gen_text(rng, pick_len(rng, 1, 1025)).replace(",", ";")))
    else:
        for _ in range(rng.choice([0, 0, 0, 1, 1, 2])):
            k = rng.choice(KEYS)
            if k.lower() in keys:
                continue
            keys.add(k.lower())
            pairs.append((k, rng.choice(VALS)))
    comment = rng.choice(COMMENTS) if rng.random() < 0.3 else ""
    if stress and rng.random() < 0.3:
        comment = "(" + gen_text(rng, pick_len(rng, 1, 1025)).replace(",", ";") + ")"
    return dict(pkg=gen_package(rng, stress), ver=gen_version(rng, stress), dists=gen_dists(rng, stress), urg=rng.choice(URG),
                comment=comment, pairs=pairs)


def top_text(c):
    return header(c["pkg"], c["ver"], c["dists"], c["urg"], c["comment"], c["pairs"])


def conc_haz(rng, cls, stress=False):
    """a line of class cls whose free-text pieces -- in particular the piece a diagnostic about the line would quote
    (spec: Quoted) -- contain format-string hazards; -> (text, content) like conc_line, or None for the classes
    without free text (blank lines, the bare trailer, the anchored old-format markers 6 - 8)"""
    h, h2 = fmt_haz(rng, True), fmt_haz(rng, True)
    if cls in TOP:
        c = gen_top_content(rng, False, stress and cls == "TopOK")
        base = "%s (%s) %s;" % (c["pkg"], c["ver"], c["dists"])
        if cls == "TopOK":
            c["comment"] = rng.choice([h, "(" + h + ")", ""])
            c["pairs"] = [(k, v) for k, v in c["pairs"] if k.lower() != "xs-fmt"] + [("XS-Fmt", h2)]
            return top_text(c), c
        if cls == "TopBadKV":           # an item without '=', with an empty value, with an empty key
            c.update(pairs=[], comment="")
            if rng.random() < 0.2:      # a valid item holding a hazard next to the invalid one
                c["pairs"] = [("key", h)]
                return base + " urgency=%s, key=%s, %s" % (c["urg"], h, h2), c
            return base + " urgency=%s, %s" % (c["urg"], rng.choice([h, "k" + h, h + "=", "=" + h])), c
        if cls == "TopDupKey":          # (the report quotes the folded key, which cannot hold a hazard; the values can)
            c.update(pairs=[("Foo", h2)], comment="")
            return base + " urgency=%s, Foo=%s, Foo=%s" % (c["urg"], h, h2), c
        t = base + " urgency=%s" % h    # no hazard is an urgency value: none is [-0-9a-z]+ followed by white space or nothing
        for k, v in c["pairs"]:
            t += ", %s=%s" % (k, v)
        c.update(urg="unknown", comment="")
        return t, c
    if cls == "Change":
        return "  " + rng.choice(["* ", "", "- ", "  "]) + rng.choice([h, "fix " + h, h + " " + h2, "load was " + h + " before"]) + rng.choice(["", "", " "]), None
    if cls in END:
        au = "%s <%s>" % (rng.choice([h, "Joe " + h, h + " Hacker"]), rng.choice(["j@x", h2.replace(" ", ""), "j" + h2.replace(" ", "") + "@x"]))
        da = gen_date(rng, stress)
        return " -- %s%s%s" % (au, "  " if cls == "EndOK" else " ", da), (au, da)
    if cls == "Emacs":
        return rng.choice(["Local variables: ", ";; Local variables: ", "local Variables:"]) + h, None
    if cls == "Vim":
        return rng.choice(["vim: ", "vim:", "VIM: set "]) + h, None
    if cls == "Cvs":
        return rng.choice(["$Id: %s $", "$Header: /cvs/%s $ x", "$Revision:%s$ tail"]).replace("%s", h), None
    if cls == "HashComment":
        return "# " + h, None
    if cls == "CComment":
        return "/* " + h + " */" + rng.choice(["", " " + h2]), None
    if cls == "Old1":
        return "Mon Jan 1 12:34:56 2001 Joe " + h + " <joe" + h2.replace(" ", "") + "@x>", None
    if cls == "Old2":
        return "Tue Feb 29 1996  Joe " + h + " (joe@x)" + rng.choice(["", " " + h2]), None
    if cls == "Old3":
        return rng.choice(["pkg (1.0-1) ", "pkg (1.0-1); ", "a+b.c (1:2-3)"]) + h, None
    if cls == "Old4":
        return rng.choice(["pkg-1.0 Debian 1 ", "hello 2.1 Debian ", "a.b+c-1 debian x"]) + h, None
    if cls == "Old5":
        return "Changes from version " + h + " to " + h2 + ":" + rng.choice(["", " " + h]), None
    if cls == "Junk":
        return rng.choice(["", "* ", " * ", "! ", "-- ", " --", "CPU load was ", "see printf(\"", "=== "]) + h + rng.choice(["", "", " before", " " + h2]), None
    return None


def conc_line(rng, cls, canonical=False, uid=None, empty_blank=False, stress=False, haz=None):
    """-> (text, content).  content: dict for header lines (what the block must expose; for the
    defective header kinds what a tolerant reader keeps), (author, date) for detailed trailers.
    haz: True = the free-text pieces of the line hold format-string hazards (conc_haz), False = never, None = now and then."""
    if haz is None:
        haz = not canonical and rng.random() < 0.15
    if haz and not canonical:
        r = conc_haz(rng, cls, stress)
        if r is not None:
            return r
    if cls == "TopOK":
        c = gen_top_content(rng, canonical, stress)
        return top_text(c), c
    if cls in ("TopBadKV", "TopDupKey", "TopBadUrg"):
        c = gen_top_content(rng, canonical)
        base = "%s (%s) %s;" % (c["pkg"], c["ver"], c["dists"])
        if cls == "TopBadKV":
            c["pairs"] = []
            how = 0 if canonical else rng.randrange(4)
            if how == 0:        # nothing after the semicolon
                c.update(urg="unknown", comment="")
                return base, c
            c["comment"] = ""
            tail = [" garbage", " key=", " =x"][how - 1]
            return base + " urgency=%s,%s" % (c["urg"], tail), c
        if cls == "TopDupKey":
            c["comment"] = ""
            how = 0 if canonical else rng.randrange(3)
            if how == 0:        # urgency twice: the last one wins
                u2 = rng.choice(URG)
                t = base + " urgency=%s, urgency=%s" % (c["urg"], u2)
                c.update(urg=u2, pairs=[])
                return t, c
            if how == 1:        # same key, different case: both are kept
                c["pairs"] = [("Foo", "1"), ("foo", "2")]
            else:               # same spelling: the last value wins
                c["pairs"] = [("Foo", "2")]
                return base + " urgency=%s, Foo=1, Foo=2" % c["urg"], c
            return base + " urgency=%s, Foo=1, foo=2" % c["urg"], c
        bad = "!!" if canonical else rng.choice(["!!", "(x)", "low!", "_", "é"])
        t = base + " urgency=%s" % bad
        for k, v in c["pairs"]:
            t += ", %s=%s" % (k, v)
        c.update(urg="unknown", comment="")
        return t, c
    if cls == "Blank":
        return ("" if canonical or empty_blank else rng.choice(["", "", "", " ", "\t"])), None
    if cls == "BlankWide":
        return ("  " if canonical else rng.choice(["  ", "   ", " \t", "\t\t ", "        "])), None
    if cls == "Change":
        if canonical:
            return "  * change" + ("" if uid is None else " %d" % uid), None
        t = gen_change_text(rng, stress)
        if not empty_blank and rng.random() < 0.15:
            t = rng.choice(["\t\t", " \t", "\t ", "\t\t\t"]) + t[2:]
        return t, None
    if cls in END:
        au, da = ("A B <a@b.c>", "Mon, 01 Jan 2001 10:00:00 +0000") if canonical else (gen_author(rng, stress), gen_date(rng, stress))
        return " -- %s%s%s" % (au, "  " if cls == "EndOK" else " ", da), (au, da)
    if cls == "EndNoDetails":
        return (" --" if canonical else rng.choice([" --", " -- ", " --  ", " --\t"])), None
    if cls == "Emacs":
        return ("Local variables:" if canonical else rng.choice(
            ["Local variables:", ";; Local variables:", "local Variables: x", ";;Local Variables:", "LOCAL VARIABLES:"])), None
    if cls == "Vim":
        return ("vim: set ts=4:" if canonical else rng.choice(["vim: set ts=4:", "vim:tw=78", "VIM: x", "vim:"])), None
    if cls == "Cvs":
        return ("$Id: changelog,v 1.2 2001/01/01 x Exp $" if canonical else rng.choice(
            ["$Id: changelog,v 1.2 2001/01/01 x Exp $", "$Header: /cvs/x $", "$Revision: 1.1 $ tail", "$Id:$"])), None
    if cls == "HashComment":
        return ("# comment" if canonical else rng.choice(["# comment", "# ", "#  indented", "# é: x", "# vim: no"])), None
    if cls == "CComment":
        return ("/* comment */" if canonical else rng.choice(["/* comment */", "/**/", "/* a */", "/* é * / */"])), None
    if cls == "Old1":
        return ("Mon Jan 1 12:34:56 2001 Joe Hacker <joe@example.org>" if canonical else rng.choice(
            ["Mon Jan 1 12:34:56 2001 Joe Hacker <joe@example.org>", "Tue Feb 29 1:02:03 PST 1996  Joe (joe@x)",
             "Sun  Dec 31 23:59:59 1999 J <j@y>"])), None
    if cls == "Old2":
        return ("Mon Jan 1, 2001 Joe Hacker <joe@example.org>" if canonical else rng.choice(
            ["Mon Jan 1, 2001 Joe Hacker <joe@example.org>", "Tue Feb 29 1996  Joe (joe@x)", "Sun Dec 31,1999 J <j@y>"])), None
    if cls == "Old3":
        return ("pkg (1.0-1)" if canonical else rng.choice(
            ["pkg (1.0-1)", "pkg (1.0-1);", "hello (2.1); urgency=low", "a+b.c (1:2-3) and more"])), None
    if cls == "Old4":
        return ("pkg-1.0 Debian 1" if canonical else rng.choice(["pkg-1.0 Debian 1", "hello 2.1 Debian 2", "a.b+c-1 debian x"])), None
    if cls == "Old5":
        return ("Changes from version 1.0 to 1.1:" if canonical else rng.choice(
            ["Changes from version 1.0 to 1.1:", "changes from version a to b: more"])), None
    if cls == "Old6":
        return ("Changes for pkg-1.0:" if canonical else rng.choice(["Changes for pkg-1.0:", "changes for a.b-1+x", "Changes for x-y:  "])), None
    if cls == "Old7":
        return ("Old Changelog:" if canonical else rng.choice(["Old Changelog:", "old changelog:  "])), None
    if cls == "Old8":
        return ("1.0-1:" if canonical else rng.choice(["1.0-1:", "pkg", "2:1.0~rc1", "word:  ", "v1.2+x"])), None
    if cls == "Junk" and stress and not canonical:
        return rng.choice(["* ", "! ", "= ", " * "]) + gen_text(rng, pick_len(rng, 1, 65537)), None
    if cls == "Junk":
        return ("* unindented" if canonical else rng.choice(
            ["* unindented", " * one space only", "-- Joe <j@x>  Mon, 01 Jan 2001 10:00:00 +0000", "=====", "!!!",
             " -- Joe <j@x>   Mon, 01 Jan 2001 10:00:00 +0000", " -- Joe  Mon, 01 Jan 2001 10:00:00 +0000",
             " -- Joe <j@x>  yesterday", "(pkg) unstable; urgency=low", "- item", " --x",
             "pkg (1.0 beta) unstable; urgency=low", " pkg (1.0) unstable; urgency=low", "? what is this", "#no space",
             "\ufeffpkg (1.0-1) unstable; urgency=low", "\ufeff", "\u200b", "\ufeff -- A B <a@b>  Mon, 01 Jan 2001 10:00:00 +0000",
             "\u0301 lone mark", "* e\u0301 vs \u00e9", "\U0001f600 \U0010ffff"])), None
    raise AssertionError(cls)


def conc_text(rng, classes, canonical=False, empty_blank=False, stress=False, haz=None):
    """empty_blank: blank lines are empty lines (the C04 domain); otherwise also ' ' and a tab;
    stress: payload sizes from the boundary lists of notes/SIZE_STRESS.md"""
    lines, contents = [], []
    for i, c in enumerate(classes):
        t, k = conc_line(rng, c, canonical, uid=i + 1, empty_blank=empty_blank, stress=stress, haz=haz)
        assert not any(ch in t for ch in D1), (c, t)
        lines.append(t)
        contents.append(k)
    return lines, contents


def join(lines):
    return "".join(l + "\n" for l in lines)


# ------------------------------------------------------------------ independent classifier (trusted base)
# deb-changelog(5):  package (version) distributions; metadata
#                      [optional blank line(s), stripped]
#                      * change details
#                     -- maintainer name <email address>[two spaces]  date
# date: day-of-week, dd month yyyy hh:mm:ss +zzzz.  Tolerated forms known to the legacy parsers:
# editor mode lines, CVS keywords, '# ' and '/* */' comments, eight "old format" markers.

_PKG = r"[A-Za-z0-9][-+.A-Za-z0-9]*"
_H = re.compile(r"^(%s) \(([^() \t]+)\)((?:[ \t]+[-+.A-Za-z0-9]+)+);(.*)$" % _PKG)
_DATE = r"(?:[A-Za-z0-9_]+,[ \t]*)?[0-9]{1,2}[ \t]+[A-Za-z0-9_]+[ \t]+[0-9]{4}[ \t]+[0-9]{1,2}:[0-9]{2}:[0-9]{2}[ \t]+[-+][0-9]{4}"
_T = re.compile(r"^ -- (.*) <([^<>]*)>(  ?)(%s[ \t]*)$" % _DATE)
_W = r"[A-Za-z0-9_]"
_OLD = [
    ("Old1", re.compile(r"^%s+\s+%s+\s+[0-9]{1,2} [0-9]{1,2}:[0-9]{1,2}:[0-9]{1,2}\s+(?:%s|\s)*[0-9]{4}\s+.*\s+[<(].*[)>]" % (_W, _W, _W))),
    ("Old2", re.compile(r"^%s+\s+%s+\s+[0-9]{1,2},?\s*[0-9]{4}\s+.*\s+[<(].*[)>]" % (_W, _W))),
    ("Old3", re.compile(r"^%s \([^() \t]+\);?" % _PKG)),
    ("Old4", re.compile(r"^[A-Za-z0-9_.+-]+[- ]\S+ [Dd][Ee][Bb][Ii][Aa][Nn] \S+")),
    ("Old5", re.compile(r"^changes from version .* to .*:", re.I)),
    ("Old6", re.compile(r"^changes for [A-Za-z0-9_.+-]+-[A-Za-z0-9_.+-]+:?\s*$", re.I)),
    ("Old7", re.compile(r"^old changelog:\s*$", re.I)),
    ("Old8", re.compile(r"^(?:[0-9]+:)?[A-Za-z0-9_][A-Za-z0-9_.+~-]*:?\s*$")),
]
_KEY = re.compile(r"^[-0-9A-Za-z]+$")
_UVAL = re.compile(r"^([-0-9A-Za-z]+)((?:[ \t].*)?)$")


def classify(line):
    """-> (class, content) for one line of text (no line terminator)."""
    if line.strip(" \t") == "":
        return ("Blank" if len(line) < 2 else "BlankWide"), None
    if line[0] in " \t" and line[1:2] in (" ", "\t"):
        return "Change", None
    if line.startswith(" --"):
        m = _T.match(line)
        if m:
            return ("EndOK" if m.group(3) == "  " else "EndOneSpace"), ("%s <%s>" % (m.group(1), m.group(2)), m.group(4))
        if line[3:].strip(" \t") == "":
            return "EndNoDetails", None
        return "Junk", None
    m = _H.match(line)
    if m:
        c = dict(pkg=m.group(1), ver=m.group(2), dists=m.group(3).lstrip(" \t"), urg="unknown", comment="", pairs=[])
        invalid = dup = badurg = False
        seen = set()
        pairs = {}
        for item in m.group(4).split(","):
            item = item.strip(" \t")
            k, eq, v = item.partition("=")
            v = v.strip(" \t")
            if not eq or not _KEY.match(k) or v == "":
                invalid = True
                continue
            if k.lower() in seen:
                dup = True
            seen.add(k.lower())
            if k.lower() == "urgency":
                u = _UVAL.match(v)
                if u:
                    c["urg"], c["comment"] = u.group(1), u.group(2).strip(" \t")
                else:
                    badurg = True
            else:
                pairs[k] = v
        c["pairs"] = list(pairs.items())
        return ("TopBadUrg" if badurg else "TopDupKey" if dup else "TopBadKV" if invalid else "TopOK"), c
    if line.startswith("# "):
        return "HashComment", None
    if line.startswith("/*") and "*/" in line[2:]:
        return "CComment", None
    if re.match(r"^\$[A-Za-z0-9_]+:.*\$", line):
        return "Cvs", None
    if re.match(r"^(;;\s*)?local variables:", line, re.I):
        return "Emacs", None
    if line[:4].lower() == "vim:":
        return "Vim", None
    for name, rx in _OLD:
        if rx.match(line):
            return name, None
    return "Junk", None


# ------------------------------------------------------------------ driving the real code

class Out(object):
    """outcome of one constructor call"""
    __slots__ = ("cl", "exc", "nwarn", "msgs")


# The constructor documents its input as "str, list of str, or file-like ... or an iterator of lines such
# as a filehandle (each line is either a str or unicode)", the type comment adds bytes and iterables of
# bytes lines, the parser "supports both lists of lines without the trailing newline and those with";
# parse_changelog() of an existing object takes the same.  These are the forms in which a text arrives:
TEXT_FORMS = ("str", "bytes", "reuse_str", "reused_text")       # the "empty changelog file" rule applies
# file-object KINDS (notes/SIZE_STRESS.md part 4; the parser only iterates, so anything that yields lines):
#   file        real file, text mode, buffered          file_bin    real file, binary, buffered
#   file_unbuf  real file, binary, buffering=0 (FileIO) short_reads io.BufferedReader over a raw stream that
#   gzip        gzip.GzipFile over a REAL file holding                returns 1 .. 7 bytes per read
#               the compressed bytes (fileno() names    bz2 / lzma  BZ2File / LZMAFile over compressed bytes
#               the compressed file)                    spooled     tempfile.SpooledTemporaryFile (rolled over
#   textwrap    io.TextIOWrapper over BytesIO                         to a real file when the text is long)
#   iter_bytes  a plain generator of bytes lines
FILE_KINDS = ("file_bin", "file_unbuf", "short_reads", "gzip", "bz2", "lzma", "spooled", "textwrap", "iter_bytes")
LINE_FORMS = ("stringio", "bytesio", "file", "list_nl", "list", "list_bytes", "iter", "tuple", "reuse_list", "reused_obj") + FILE_KINDS
BASE_TEXT = ("str", "bytes")
BASE_LINES = ("stringio", "bytesio", "file", "list_nl", "list", "list_bytes", "iter", "tuple") + FILE_KINDS
FORMS = TEXT_FORMS + LINE_FORMS
# for random draws: the in-memory forms mostly, real temporary files and the slow compressors now and then
SLOW_FORMS = ("file", "file_bin", "file_unbuf", "gzip", "bz2", "lzma")
FORMS_W = [f for f in FORMS if f not in SLOW_FORMS] * 3 + list(SLOW_FORMS)
OTHER_TEXT = "other (0.1) unstable; urgency=low\n\n  * other\n\n -- O T <o@t>  Mon, 01 Jan 2001 10:00:00 +0000\n"


def form_kind(form):
    return "text" if form in TEXT_FORMS else "lines"


class ShortRaw(object):
    """factory of a raw stream that hands out 1 .. 7 bytes per read (for very long inputs now and then a
    few thousand, to keep the number of calls bounded)"""

    @staticmethod
    def open(data):
        import io

        class _Raw(io.RawIOBase):
            def __init__(self):
                io.RawIOBase.__init__(self)
                self._p = 0
                self._n = 0

            def readable(self):
                return True

            def readinto(self, b):
                self._n += 1
                k = 1 + (self._p * 7919 + self._n) % 7
                if len(data) > 65536 and self._n % 4 == 0:
                    k = 4093
                k = min(k, len(b), len(data) - self._p)
                b[:k] = data[self._p:self._p + k]
                self._p += k
                return k
        return io.BufferedReader(_Raw(), buffer_size=16)


def close_source(src):
    """close what make_source returned (and the real file underneath a decompressor)"""
    for f in (src, getattr(src, "_verif_under", None)):
        if f is not None and hasattr(f, "close"):
            try:
                f.close()
            except Exception:       # closing is not under test
                pass


def make_source(text, form):
    import io
    import tempfile
    if form in FILE_KINDS:
        data = text.encode("utf-8")
        if form == "file_bin" or form == "file_unbuf":
            f = tempfile.TemporaryFile("w+b") if form == "file_bin" else tempfile.TemporaryFile("w+b", buffering=0)
            f.write(data)
            f.seek(0)
            return f
        if form == "short_reads":
            return ShortRaw.open(data)
        if form == "gzip":
            import gzip
            under = tempfile.TemporaryFile("w+b")
            under.write(gzip.compress(data, 1))
            under.seek(0)
            g = gzip.GzipFile(fileobj=under, mode="rb")
            g._verif_under = under
            return g
        if form == "bz2":
            import bz2
            return bz2.BZ2File(io.BytesIO(bz2.compress(data, 1)))
        if form == "lzma":
            import lzma
            return lzma.LZMAFile(io.BytesIO(lzma.compress(data, preset=0)))
        if form == "spooled":
            f = tempfile.SpooledTemporaryFile(max_size=4096, mode="w+b")
            f.write(data)
            f.seek(0)
            return f
        if form == "textwrap":
            return io.TextIOWrapper(io.BytesIO(data), encoding="utf-8", newline="\n")
        if form == "iter_bytes":
            return (l + b"\n" for l in (data.split(b"\n")[:-1] if data.endswith(b"\n") else data.split(b"\n")))
    if form in ("str", "reuse_str"):
        return text
    if form == "bytes":
        return text.encode("utf-8")
    if form == "stringio":
        return io.StringIO(text)
    if form == "bytesio":
        return io.BytesIO(text.encode("utf-8"))
    if form == "file":
        f = tempfile.TemporaryFile("w+", encoding="utf-8", newline="\n")
        f.write(text)
        f.seek(0)
        return f
    if form == "list_nl":
        return text.splitlines(True)
    if form in ("list", "reuse_list"):
        return text.split("\n")[:-1] if text.endswith("\n") else text.split("\n")
    if form == "list_bytes":
        return [l.encode("utf-8") for l in text.splitlines(True)]
    if form == "iter":
        return (l for l in text.splitlines(True))
    if form == "tuple":
        return tuple(text.split("\n")[:-1] if text.endswith("\n") else text.split("\n"))
    raise AssertionError(form)


def prior_parses(rng, text):
    """what an ALREADY USED object went through before the parse under test: 1-3 earlier inputs of any
    kind -- a text without final newline, empty / white-space only, truncated inside a block, CRLF line
    ends, malformed, more / other blocks, other leading blank lines, latin-1 bytes with an encoding
    argument -- in any input form, with any allow_empty_author / strict / max_blocks setting.  They are
    never judged (warnings and ChangelogParseError ignored): a parse depends on nothing but its own input.
    -> list of (text or bytes, form, kwargs)"""
    cut = max(1, (len(text) * rng.choice([3, 5, 6])) // 10)
    pool = [text[:-1] if text.endswith("\n") else text + "x", OTHER_TEXT[:-1], "", "  \n\n", text[:cut], text.replace("\n", "\r\n"),
            "junk line\n" + text, " -- \n" + text, text + OTHER_TEXT, "\n\n\n" + OTHER_TEXT, OTHER_TEXT + "vim: x\nslurped\n",
            OTHER_TEXT.replace("O T", "\u00d3 T\u00e9")]
    out = []
    if rng.random() < 0.5:                  # the very same text, leniently, before: a second parse must see it afresh
        out.append((text, rng.choice(BASE_TEXT + BASE_LINES), dict(allow_empty_author=rng.random() < 0.5, strict=False)))
    for _ in range(rng.choice([1, 1, 2, 3]) - len(out) or 1):
        j = rng.randrange(len(pool))
        t = pool[j]
        kw = dict(allow_empty_author=rng.random() < 0.5, strict=rng.random() < 0.3)
        if rng.random() < 0.15:
            kw["max_blocks"] = 1
        form = rng.choice(BASE_TEXT * 3 + BASE_LINES)
        if j == len(pool) - 1 and rng.random() < 0.7:      # latin-1 input announced by the encoding argument of the call
            kw["encoding"] = "latin-1"
            form = rng.choice(("bytes", "bytesio", "list_bytes"))
        out.append((t, form, kw))
    if rng.random() < 0.4:                  # a FAULT of the caller-supplied input (changelog_faults): the iterator raises, the input
        import changelog_faults as cf       # ends early (inside a line, inside a multi-byte character) -- anywhere in the history
        out.insert(rng.randrange(len(out) + 1), (text, "fault", {"_fault": cf.fault_plan(rng)}))
    return out


def new_changelog(text, aea, strict, form="str", cl=None):
    """the text handed to the real code in one of the documented forms (raises what the code raises).
    reuse_str / reuse_list: parse_changelog() on a new object; reused_text / reused_obj: on an object that
    has been used for 1-3 arbitrary earlier parses (prior_parses), the text then arrives in a str/bytes
    form resp. in a file-object / iterable form.  cl: an object of the caller's history whose parse_changelog()
    gets the text (form: one of BASE_TEXT / BASE_LINES)."""
    import random
    from debian.changelog import Changelog
    if cl is not None:
        src = make_source(text, form)
        try:
            cl.parse_changelog(src, allow_empty_author=aea, strict=strict)
            return cl
        finally:
            close_source(src)
    if form in ("reused_text", "reused_obj"):
        rng = random.Random("%d-%d-%s-%s" % (len(text), sum(map(ord, text[:200])), aea, strict))
        cl = None
        with capture():                        # the earlier parses are not judged; their warnings stay in here
            for t, f, kw in prior_parses(rng, text):
                if "_fault" in kw:             # a faulting input, parsed by the object under test (never judged)
                    import changelog_faults as cf
                    if cl is None:
                        cl = Changelog()
                    cf.do_fault(kw["_fault"], t, cl)
                    continue
                enc = kw.get("encoding", "utf-8")
                src = make_source(t, f) if enc == "utf-8" else _latin1_source(t, f)
                try:
                    if cl is None and "encoding" not in kw and rng.random() < 0.5:
                        cl = Changelog(src, **kw)
                    else:
                        cl = cl or Changelog()
                        cl.parse_changelog(src, **kw)
                except Exception:              # ChangelogParseError of a strict earlier parse, decoding errors ...
                    cl = cl or Changelog()
                finally:
                    close_source(src)
                if rng.random() < 0.5:
                    try:
                        str(cl)
                    except Exception:
                        pass
        final = rng.choice(BASE_TEXT if form == "reused_text" else BASE_LINES)
        src = make_source(text, final)
        try:
            cl.parse_changelog(src, allow_empty_author=aea, strict=strict)
            return cl
        finally:
            close_source(src)
    src = make_source(text, form)
    try:
        if form.startswith("reuse"):
            cl = Changelog()
            cl.parse_changelog(src, allow_empty_author=aea, strict=strict)
            return cl
        return Changelog(src, allow_empty_author=aea, strict=strict)
    finally:
        close_source(src)                  # StringIO / BytesIO / the temporary file / a generator / a decompressor


def _latin1_source(text, form):
    import io
    b = text.encode("latin-1", "replace")
    if form == "bytesio":
        return io.BytesIO(b)
    if form == "list_bytes":
        return b.splitlines(True)
    return b


class capture(object):
    """record the warnings of the PARSER only.  warnings.catch_warnings() swaps process-wide state and
    records whatever any thread, the garbage collector or an import emits meanwhile (ResourceWarning,
    DeprecationWarning, ...), so: only UserWarning is switched to "always" (parse_changelog uses
    warnings.warn(message), i.e. UserWarning), ResourceWarning is ignored, nothing is ever turned into
    an error, and `parser` keeps only the records whose category is UserWarning or a subclass of it.  The checks capture warnings only while no TLC job is running
    (recording happens before the thread pool starts, replay after it was joined)."""

    def __enter__(self):
        import_repo_modules()
        self._cm = warnings.catch_warnings(record=True)
        self._rec = self._cm.__enter__()
        warnings.filterwarnings("always", category=UserWarning)
        warnings.filterwarnings("ignore", category=ResourceWarning)
        return self

    def __exit__(self, *a):
        return self._cm.__exit__(*a)

    @property
    def parser(self):
        # any UserWarning (or subclass) recorded during the call counts, whatever file it is attributed to: a
        # warn(..., stacklevel=n) in the library attributes the record to a caller's file (this harness, the
        # standard library), and a check that looked at the origin missed every warning of such a tree (a benign
        # change with stacklevel=3 raised a false alarm).  Nothing else in this process emits UserWarning here.
        return [x for x in self._rec if issubclass(x.category, UserWarning)]


def import_repo_modules():
    """import the modules under test OUTSIDE any capture (import-time warnings are not the parser's)"""
    import debian.changelog         # noqa: F401
    import debian.debian_support    # noqa: F401


def strict_clean(text, aea, form="str", cl=None):
    """strict parse that must neither raise nor warn -> (changelog, None) | (None, message)"""
    with capture() as c:
        try:
            cl = new_changelog(text, aea, True, form, cl=cl)
        except Exception as e:
            return None, "strict parsing failed (input form %s): %s: %s" % (form, type(e).__name__, e)
        w = c.parser
    if w:
        return None, "strict parsing (input form %s) emitted a warning: %s" % (form, w[0].message)
    return cl, None


def construct(text, aea=False, strict=False, form="str"):
    o = Out()
    o.cl, o.exc, o.msgs = None, None, []
    with capture() as c:
        try:
            o.cl = new_changelog(text, aea, strict, form)
        except Exception as e:          # observation
            o.exc = type(e).__name__
        w = c.parser
    o.msgs = [str(x.message) for x in w]
    o.nwarn = len(w)
    return o


def fmt(cl):
    """-> (text, None) | (None, 'unformattable') | (None, 'EXC:<type>') -- ChangelogCreateError is the
    documented 'information missing' outcome of str()"""
    from debian.changelog import ChangelogCreateError
    try:
        return str(cl), None
    except ChangelogCreateError:
        return None, "unformattable"
    except Exception as e:
        return None, "EXC:" + type(e).__name__


def ver_str(b):
    try:
        v = b.version
        return None if v is None else str(v)
    except Exception as e:
        return "EXC:" + type(e).__name__


def block_tuple(b):
    """(package, version, distributions, urgency, changes, author, date)"""
    return (b.package, ver_str(b), b.distributions, b.urgency, list(b.changes()), b.author, b.date)


def blocks_of(cl):
    return [block_tuple(b) for b in cl]


def fixpoint(cl, s, aea=None):
    """the normal-form law on a formatted changelog: re-parsing s leniently gives the same blocks and
    formats to s again.  Re-parsed with both allow_empty_author settings (aea given: with that
    setting, and with the other one too when the text has a line starting with ' --' and no '<').
    -> None or a message"""
    want = blocks_of(cl)
    if aea is None:
        settings = (False, True)
    elif any(l.startswith(" --") and "<" not in l for l in s.split("\n")):
        settings = (aea, not aea)
    else:
        settings = (aea,)
    for a in settings:
        o = construct(s, aea=a)
        if o.exc:
            return "re-parsing str() output raised %s (allow_empty_author=%s)" % (o.exc, a)
        got = blocks_of(o.cl)
        if got != want:
            i = next((i for i in range(min(len(got), len(want))) if got[i] != want[i]), min(len(got), len(want)))
            return "re-parsed blocks differ (allow_empty_author=%s): %d vs %d blocks, first difference at block %d: %r vs %r" % (
                a, len(got), len(want), i, got[i] if i < len(got) else None, want[i] if i < len(want) else None)
        s2, err = fmt(o.cl)
        if s2 != s:
            return "formatting the re-parsed changelog gives %s instead of the identical text" % (err or repr(s2[:200]))
    return None


def repeat_laws(text, aea, rng, form="str"):
    """the same text parsed repeatedly, strict and lenient alternating, both allow_empty_author values,
    in a random order: every lenient parse with the same setting must emit the same number of warnings
    and build the same blocks, every strict parse must have the same outcome, and strict raises exactly
    when lenient warns (per setting).  -> message or None"""
    plan = [(a, st) for a in (aea, not aea) for st in (False, True)] * 2
    rng.shuffle(plan)
    seen = {}
    kind = form_kind(form)
    for a, st in plan[:rng.choice([4, 6, 8])]:
        o = construct(text, aea=a, strict=st, form=rng.choice(TEXT_FORMS if kind == "text" else LINE_FORMS))
        if st:
            obs = o.exc
            if o.exc not in (None, "ChangelogParseError"):
                return "strict constructor raised %s" % o.exc
        else:
            if o.exc:
                return "lenient constructor raised %s" % o.exc
            obs = (o.nwarn, blocks_of(o.cl))
        if (a, st) in seen and seen[(a, st)] != obs:
            return "parsing the same text again (allow_empty_author=%s, strict=%s) gives a different result: %r then %r" % (
                a, st, seen[(a, st)] if st else seen[(a, st)][0], obs if st else obs[0])
        seen[(a, st)] = obs
    for a in (aea, not aea):
        if (a, True) in seen and (a, False) in seen and (seen[(a, True)] is not None) != (seen[(a, False)][0] > 0):
            return "strict %s but lenient emitted %d warning(s) (allow_empty_author=%s, repeated parses)" % (
                "raised" if seen[(a, True)] else "returned", seen[(a, False)][0], a)
    return None


# the ORDERS in which one text is parsed strict (True) / lenient (False) in one process.  c15.py replaces the
# default (all orders of 2 and 3 calls) by the call orders TLC enumerated in the "proc" configuration.
PLANS = [(a, b) for a in (False, True) for b in (False, True)] + \
        [(a, b, c) for a in (False, True) for b in (False, True) for c in (False, True)]


def run_calls(text, calls, form="str"):
    """one text parsed again and again in this process: calls = [(strict, allow_empty_author)] in order.
    -> (message or None, observations [dict(s, a, ok, w, sr, msgs, cl)]).  The law is the statement, read
    across the calls: the lenient constructor returns, the strict one returns or raises ChangelogParseError,
    and ANY strict call raises exactly when ANY lenient call with the same allow_empty_author warns.
    Faults of caller-supplied inputs (notes/SIZE_STRESS.md part 5, changelog_faults): for one text in four a FAULT
    STEP stands between two of the calls (or before the first): a faulting twin of an input -- this text or
    another one; the iterator raises at the first / a middle / the last line, the input ends early at a line end,
    inside a line, inside a multi-byte character -- is parsed by a new object; that call is never judged
    (the statement speaks of input texts), the calls after it are judged like all others.  The step is a function
    of the text and the number of calls (a replay of a recorded case repeats it)."""
    import random
    frng = random.Random("fault-%d-%d-%d" % (len(text), sum(map(ord, text[:200])), len(calls)))
    fault_at = frng.randrange(len(calls)) if calls and frng.random() < 0.25 else None
    obs = []
    msg = None
    for ci, (st, a) in enumerate(calls):
        if ci == fault_at:
            import changelog_faults as cf
            cf.do_fault(cf.fault_plan(frng), text)
        o = construct(text, aea=a, strict=st, form=form)
        e = dict(s=bool(st), a=bool(a), ok=True, w=0, sr=False, msgs=[], cl=None)
        if st:
            e["sr"] = o.exc == "ChangelogParseError"
            if o.exc not in (None, "ChangelogParseError"):
                e["ok"] = False
                msg = msg or "strict constructor raised %s (only ChangelogParseError is allowed)" % o.exc
        else:
            e.update(w=o.nwarn, msgs=o.msgs[:3], cl=o.cl)
            if o.exc:
                e["ok"] = False
                msg = msg or "lenient constructor raised %s" % o.exc
        obs.append(e)
    if msg:
        return msg, obs
    order = "/".join(("strict" if e["s"] else "lenient") + ("+aea" if e["a"] else "") for e in obs)
    for ks, x in enumerate(obs):
        for kl, y in enumerate(obs):
            if x["s"] and not y["s"] and x["a"] == y["a"] and x["sr"] != (y["w"] > 0):
                return "strict %s (call %d) but lenient emitted %d warning(s) %r (call %d); the text was parsed %s in this order in one process" % (
                    "raised ChangelogParseError" if x["sr"] else "returned", ks + 1, y["w"], y["msgs"], kl + 1, order), obs
    return None, obs


def c15_laws(text, aea, rng=None, form="str", plan=None):
    """the verdict observables of C15 for one text: -> (message or None, info dict).  The text is parsed
    several times in this process, strict / lenient in the order `plan` (default: one of PLANS; a plan
    without a lenient resp. strict call gets one appended) -- run_calls; then the normal-form law on what
    the first lenient call built.  Differing warning COUNTS of the lenient calls are info["repeat_drift"]
    (diagnostic: the statement speaks of "emits a warning")."""
    if plan is None:
        plan = rng.choice(PLANS) if rng is not None else (False, True)
    plan = [bool(x) for x in plan]
    if all(plan):
        plan.append(False)
    if not any(plan):
        plan.append(True)
    info = dict(nwarn=None, fmt=None, nb=None, plan=plan)
    msg, obs = run_calls(text, [(st, aea) for st in plan], form)
    lenient = [e for e in obs if not e["s"] and e["ok"]]
    if lenient:
        info["nwarn"] = lenient[0]["w"]
    info["strict"] = next(("ChangelogParseError" if e["sr"] else None for e in obs if e["s"]), None)
    if msg:
        return msg, info
    if len({e["w"] for e in lenient}) > 1:
        info["repeat_drift"] = "lenient parses of the same text emitted %s warnings (order %s)" % (
            [e["w"] for e in lenient], "/".join("S" if x else "L" for x in plan))
    cl = lenient[0]["cl"]
    info["nb"] = len(cl)
    info["cl"] = cl
    s, err = fmt(cl)
    info["fmt"] = s is not None
    if s is None:
        if err != "unformattable":
            return "str() raised %s" % err[4:], info
        return None, info
    info["str"] = s
    msg = fixpoint(cl, s, aea)
    if msg is None and rng is not None and rng.random() < 0.08:
        msg = repeat_laws(text, aea, rng, form)
    return msg, info


def shape_of(cl):
    """[len(initial), [[len(changes), len(trailing)] per block]] -- diagnostic (uses a private attribute)"""
    return [len(cl.initial_blank_lines), [[len(b.changes()), len(getattr(b, "_trailing"))] for b in cl]]


# ------------------------------------------------------------------ C04 verdict for one concretized case

def mutate_handouts(cl, k=0):
    """edit IN PLACE the objects the API hands out as values of their own: the Version objects of
    block.version / cl.version / cl.get_version() / cl.versions, the cl.versions list itself"""
    def bump(v, j):
        if v is None:
            return
        if (j + k) % 3 == 0 and v.debian_revision:
            v.debian_revision = str(v.debian_revision) + "1"
        elif (j + k) % 3 == 1:
            v.upstream_version = str(v.upstream_version) + ".1"
        else:
            v.epoch = "9"
    try:
        for j, b in enumerate(cl):
            bump(b.version, j)
        if len(cl):
            bump(cl.version, 1)
            bump(cl.get_version(), 2)
        vs = cl.versions
        for j, v in enumerate(vs):
            bump(v, j + 1)
        del vs[:]
        for j, v in enumerate(cl.get_versions()):
            bump(v, j + 2)
    except Exception as e:
        return "editing a handed-out Version object raised %s: %s" % (type(e).__name__, e)
    return None


def used_object(text, pf):
    """an object that parsed, leniently, a text WITH (pf) / WITHOUT a final newline before (Changelog!rs.pf)"""
    from debian.changelog import Changelog
    cl = Changelog()
    t = OTHER_TEXT + text
    with capture():
        try:
            cl.parse_changelog(t if pf else t[:-1], strict=False)
        except Exception:               # never judged
            pass
    return cl


REUSE_BASE = {"reuse_str": "str", "reused_text": "bytes", "reuse_list": "list", "reused_obj": "bytesio"}


def c04_check(lines, contents, struct, alive=None, form="str", mutate=None, fault=None, reuse=None, versions=None):
    """lines/contents: the concretized well-formed text; struct: the block structure TLC computed
    (which line is which block's header / change line / trailer); form: how the text is handed over;
    mutate (an int): afterwards the handed-out Version objects are edited in place and the same text is
    parsed again (another form) and must expose what is written.
    fault (a plan of changelog_faults): right before, a FAULTING input is parsed in this process -- never judged --
    by another object or (fault["same"]) by the object under test; reuse = {"pf": bool}: the object under test was
    used before (Changelog.tla, Mode "reuse": rs.carry, rs.pf).
    versions: TLC's answers of ChangelogVersions.tla for the versions the headers were written with.  -> None or a message"""
    from debian.debian_support import Version
    text = join(lines)
    cl0 = None
    if reuse is not None:
        cl0 = used_object(text, reuse["pf"])
    if fault is not None:
        import changelog_faults as cf
        from debian.changelog import Changelog
        if fault.get("same") and cl0 is None:
            cl0 = Changelog()
        cf.do_fault(fault, text, cl0 if fault.get("same") else None)
    if cl0 is not None:
        form = REUSE_BASE.get(form, form)
    cl, msg = strict_clean(text, False, form, cl=cl0)
    if msg and (fault is not None or reuse is not None):
        import changelog_faults as cf
        msg = "%s%s: %s" % ("on an object used before" if cl0 is not None else "on a new object",
                            (", after a parse whose input failed (%s)" % cf.describe(fault)) if fault else "", msg)
    if msg:
        return msg
    s, err = fmt(cl)
    if s != text:
        if s is None:
            return "str() failed: %s" % err
        i = next((i for i in range(min(len(s), len(text))) if s[i] != text[i]), min(len(s), len(text)))
        return "str() differs from the text at offset %d (input form %s): %r vs %r" % (i, form, s[max(0, i - 20):i + 30], text[max(0, i - 20):i + 30])
    if alive is not None:
        alive.add(cl, "%d lines" % len(lines))
    blocks = list(cl)
    if len(blocks) != len(struct["bl"]):
        return "%d blocks parsed, %d written" % (len(blocks), len(struct["bl"]))
    for n, (b, sb) in enumerate(zip(blocks, struct["bl"])):
        h = contents[sb["h"][0] - 1]
        au, da = contents[sb["au"] - 1]
        try:
            got = dict(package=b.package, version=str(b.version), distributions=b.distributions, urgency=b.urgency,
                       urgency_comment=b.urgency_comment.strip(), other_pairs=list(b.other_pairs.items()),
                       changes=list(b.changes()), author=b.author, date=b.date)
            veq = b.version == Version(h["ver"])
        except Exception as e:
            return "block %d: reading the attributes raised %s: %s" % (n, type(e).__name__, e)
        want = dict(package=h["pkg"], version=h["ver"], distributions=h["dists"], urgency=h["urg"],
                    urgency_comment=h["comment"], other_pairs=list(h["pairs"]),
                    changes=[lines[i - 1] for i in sb["ch"]], author=au, date=da)
        for k in want:
            if got[k] != want[k]:
                return "block %d: %s is %r, written %r" % (n, k, got[k], want[k])
        if not veq:
            return "block %d: version object differs from Version(%r)" % (n, h["ver"])
    if versions is not None:        # which written version the blocks expose (ChangelogVersions.tla)
        m = version_observables(cl, versions)
        if m:
            return m
    if mutate is not None:
        m = mutate_handouts(cl, mutate)
        if m:
            return m
        m = c04_check(lines, contents, struct, form=FORMS[mutate % len(FORMS)])
        if m:
            return "after Version objects handed out by an earlier parse of the same text were edited in place: " + m
    return None


# ------------------------------------------------------------------ C04: which written version the blocks expose
# (spec/ChangelogVersions.tla: eq[i][k] = block i exposes the k-th version of the family, lk[k] = the block found
# under it, 0 = none -- TLC's answers; Python only asks the real object the same questions)

VERSIONS_CFG = """CONSTANTS
  HashOnString = FALSE
  TildeOrderZero = FALSE
  MaxBlocks = %d
  Bug = "%s"
  Emit = %s
SPECIFICATION Spec
INVARIANT InDom
INVARIANT Identify
INVARIANT PlainDistinct
INVARIANT WrittenFound
INVARIANT EmitCase
INVARIANT EmitFam
CHECK_DEADLOCK FALSE
"""
VERSIONS_NEG = ("prefixRuns", {"Identify", "PlainDistinct", "WrittenFound"})


def versions_cfg(blocks=3, bug="none", emit=True):
    return VERSIONS_CFG % (blocks, bug, "TRUE" if emit else "FALSE")


def version_cases(r):
    """CASE / FAM lines of ChangelogVersions -> [dict(ws=[version strings], keys=[version strings], eq, lk)]"""
    fams = {f["fam"]: ["".join(chr(c) for c in k) for k in f["keys"]] for f in r.printed.get("FAM", []) if isinstance(f, dict)}
    out = []
    for c in r.printed.get("CASE", []):
        keys = fams[c["fam"]]
        out.append(dict(fam=c["fam"], ws=[keys[k - 1] for k in c["ws"]], keys=keys, eq=c["eq"], lk=c["lk"]))
    out.sort(key=lambda c: (len(c["ws"]), c["fam"], c["ws"]))
    return out


def blocks_classes(rng, n):
    """a sentence of the generator automaton of Changelog.tla with exactly n blocks"""
    out = ["Blank"] * rng.choice([0, 0, 1, 2])
    for _ in range(n):
        out.append("TopOK")
        out += [rng.choice(["Change", "Change", "Blank"]) for _ in range(rng.randint(0, 3))]
        out += ["EndOK"] + ["Blank"] * rng.choice([0, 1, 1, 2])
    return out


def write_versions(lines, contents, versions):
    """the k-th header of the concretized text is written with versions[k] (everything else stays)"""
    lines, contents = list(lines), list(contents)
    k = 0
    for i, c in enumerate(contents):
        if isinstance(c, dict) and "ver" in c:
            contents[i] = dict(c, ver=versions[k])
            lines[i] = top_text(contents[i])
            k += 1
    assert k == len(versions), (k, versions)
    return lines, contents


def version_observables(cl, vexp):
    """ask the parsed changelog what TLC answered in vexp (eq, lk over vexp["keys"]) -> None or a message"""
    from debian.debian_support import Version
    blocks = list(cl)
    ws, keys = vexp["ws"], vexp["keys"]
    if len(blocks) != len(ws):
        return "%d blocks parsed, %d written" % (len(blocks), len(ws))
    try:
        for i, b in enumerate(blocks):
            if str(b.version) != ws[i]:
                return "block %d: version is %r, written %r" % (i, str(b.version), ws[i])
            for k, key in enumerate(keys):
                want = vexp["eq"][i][k]
                got = (b.version == Version(key), Version(key) == b.version, not (b.version != Version(key)))
                if got != (want, want, want):
                    return "block %d, written with the version %r, %s the version %r (==, reversed ==, not != answer %r; the versions written: %r)" % (
                        i, ws[i], "does not expose" if want else "exposes", key, got, ws)
        listed = [str(v) for v in cl.versions]
        if listed != ws:
            return "versions lists %r, written %r" % (listed, ws)
    except Exception as e:
        return "comparing the version of a block raised %s: %s" % (type(e).__name__, e)
    for k, key in enumerate(keys):
        want = vexp["lk"][k]
        for how, arg in (("str", key), ("Version", Version(key))):
            exc = "returned None"
            try:
                found = cl[arg]
            except Exception as e:      # "no such version": which exception is not part of the statement
                found = None
                exc = "%s: %s" % (type(e).__name__, e)
            at = next((j + 1 for j, b in enumerate(blocks) if b is found), 0) if found is not None else 0
            if found is not None and at == 0:
                return "changelog[%s %r] returned an object that is none of its blocks" % (how, key)
            if at != want:
                return "changelog[%s %r] %s, %s (the versions written: %r)" % (
                    how, key, ("is block %d (written with %r)" % (at - 1, ws[at - 1])) if at else "finds no block (%s)" % exc,
                    ("the first block written with it is block %d" % (want - 1)) if want else "no block was written with it", ws)
        try:
            has = Version(key) in cl.versions
        except Exception as e:
            return "Version(%r) in versions raised %s: %s" % (key, type(e).__name__, e)
        if has != (want > 0):
            return "Version(%r) in versions is %r (the versions written: %r)" % (key, has, ws)
    return None


def c04_versions_check(lines, contents, struct, vexp, form="str"):
    """a concretized well-formed text whose headers carry the versions vexp["ws"]: the ordinary C04 verdict
    (struct from TLC; None: strict + silent + round trip only) and the version observables -> None or a message"""
    lines, contents = write_versions(lines, contents, vexp["ws"])
    if struct is not None:
        return c04_check(lines, contents, struct, form=form, versions=vexp)
    text = join(lines)
    cl, msg = strict_clean(text, False, form)
    if msg:
        return msg
    s, err = fmt(cl)
    if s != text:
        return "str() differs from the text (input form %s): %r" % (form, s if s is not None else err)
    return version_observables(cl, vexp)


# ------------------------------------------------------------------ editing calls on the real object

# Unset..: the attribute is assigned None -- the library's own "not set" value (default of every new_block
# argument; str() answers ChangelogCreateError).  In the domain with the weak law only: whatever the call makes
# of it (unset, kept as some value, rejected with an exception) the changelog is unformattable or a normal form.
UNSET_OPS = {"UnsetPackage": "package", "UnsetVersion": "version", "UnsetDistributions": "distributions",
             "UnsetUrgency": "urgency", "UnsetAuthor": "author", "UnsetDate": "date"}
EDIT_OPS = ("NewBlockFull", "NewBlockEmpty", "AddBlank", "AddChange", "SetPackage", "SetVersion",
            "SetDistributions", "SetUrgency", "SetAuthor", "SetDate", "SetVersionWS") + tuple(UNSET_OPS)
WS_AROUND = ["%s\n", "%s ", "%s\t", "%s\r\n", "%s\n\n", " %s", "\n%s", "%s\u00a0", "%s\x0b", "\ufeff%s"]


def conc_edit(rng, op, canonical=False, uid=0):
    """concrete arguments for one editing call (DESIGN D3: well-formed values)"""
    if op == "NewBlockFull":
        c = gen_top_content(rng, canonical)
        if canonical:
            c.update(pkg="newpkg", ver="2.0-1")
        au, da = ("N B <n@b.c>", "Tue, 02 Jan 2001 10:00:00 +0000") if canonical else (gen_author(rng), gen_date(rng))
        return dict(package=c["pkg"], version=c["ver"], distributions=c["dists"], urgency=c["urg"],
                    urgency_comment=(" " + c["comment"]) if c["comment"] else None,
                    other_pairs=dict(c["pairs"]) or None, author=au, date=da)
    if op == "NewBlockEmpty":
        return {}
    if op == "AddBlank":
        return "" if canonical else rng.choice(["", "", " "])
    if op == "AddChange":
        return ("  * added %d" % uid) if canonical else gen_change_text(rng)
    if op == "SetPackage":
        return "setpkg" if canonical else gen_package(rng)
    if op == "SetVersion":
        return "3.0-1" if canonical else gen_version(rng)
    if op == "SetVersionWS":
        return (WS_AROUND[0] if canonical else rng.choice(WS_AROUND)) % ("3.0-1" if canonical else gen_version(rng))
    if op == "SetDistributions":
        return "stable" if canonical else gen_dists(rng)
    if op == "SetUrgency":
        return "high" if canonical else rng.choice(URG)
    if op == "SetAuthor":
        return "S A <s@a.b>" if canonical else gen_author(rng)
    if op == "SetDate":
        return "Wed, 03 Jan 2001 10:00:00 +0000" if canonical else gen_date(rng)
    if op in UNSET_OPS:
        return None
    raise AssertionError(op)


def added_once(before, after, line):
    """add_change: the line is present once more than before, every other change line is where it was
    relative to the others (WHERE the new line went is not judged) -> None or a message"""
    if len(after) != len(before) + 1:
        return "add_change changed the number of change lines from %d to %d" % (len(before), len(after))
    for p in range(len(after)):
        if after[p] == line and after[:p] + after[p + 1:] == before:
            return None
    return "add_change(%r): the line is not present exactly once with the other change lines intact (%r -> %r)" % (line, before[-4:], after[-5:])


def apply_edit(cl, op, arg, how=0):
    """-> None or 'EXC:<type>' / 'BAD:<message>' (an exception of an editing call with D3 arguments is an
    observation)"""
    from debian.debian_support import Version
    if op in ("AddBlank", "AddChange") and len(cl):
        before = list(cl[0].changes())
        try:
            cl.add_change(arg)
        except Exception as e:
            return "EXC:" + type(e).__name__
        m = added_once(before, list(cl[0].changes()), arg)
        return ("BAD:" + m) if m else None
    try:
        if op in ("NewBlockFull", "NewBlockEmpty"):
            cl.new_block(**arg)
        elif op in ("AddBlank", "AddChange"):
            cl.add_change(arg)
        elif op == "SetPackage":
            if how % 2:
                cl.set_package(arg)
            else:
                cl.package = arg
        elif op == "SetVersion":
            if how % 3 == 0:
                cl.version = arg
            elif how % 3 == 1:
                cl.set_version(Version(arg))
            else:
                cl.set_version(arg)
        elif op == "SetVersionWS":          # only through the validating Changelog-level setter
            try:
                if how % 3 == 0:
                    cl.version = arg
                elif how % 3 == 1:
                    cl.set_version(Version(arg))
                else:
                    cl.set_version(arg)
            except ValueError:
                return None                    # rejected: the documented outcome for such a value
        elif op in UNSET_OPS:                # None through the Changelog property, the set_ method, the block
            attr = UNSET_OPS[op]
            try:
                if how % 3 == 0:
                    setattr(cl, attr, None)
                elif how % 3 == 1:
                    getattr(cl, "set_" + attr)(None)
                else:
                    setattr(cl[0], attr, None)
            except Exception:                  # rejected: the statement does not say that None is accepted
                return None
        elif op == "SetDistributions":
            if how % 2:
                cl.set_distributions(arg)
            else:
                cl.distributions = arg
        elif op == "SetUrgency":
            if how % 2:
                cl.set_urgency(arg)
            else:
                cl.urgency = arg
        elif op == "SetAuthor":
            if how % 2:
                cl.set_author(arg)
            else:
                cl.author = arg
        elif op == "SetDate":
            if how % 2:
                cl.set_date(arg)
            else:
                cl.date = arg
        else:
            raise AssertionError(op)
    except AssertionError:
        raise
    except Exception as e:
        return "EXC:" + type(e).__name__
    return None


# ------------------------------------------------------------------ formatting as part of the history

ATTRS = {1: "package", 2: "version", 3: "distributions", 4: "urgency", 5: "author", 6: "date"}
HIST_OPS = ("Fmt", "BSet", "BPair", "ChAppend", "ChInsert", "ChDelete", "AddTrailing", "NewBlockFull", "AddChange")


def conc_hist_arg(rng, op, canonical=False, uid=0, stress=False):
    """concrete argument of one call of a formatting history; op = [name, i, x]"""
    name, i, x = op
    if name == "Fmt":
        return rng.randrange(3)                 # which formatting entry point
    if name == "BSet":
        if canonical:
            return {1: "setpkg", 2: "3.0-%d" % uid, 3: "stable", 4: "high", 5: "S A%d <s@a.b>" % uid, 6: "Wed, 03 Jan 2001 10:00:00 +0000"}[x]
        return {1: lambda: gen_package(rng, stress), 2: lambda: gen_version(rng, stress), 3: lambda: gen_dists(rng, stress),
                4: lambda: rng.choice(URG), 5: lambda: gen_author(rng, stress), 6: lambda: gen_date(rng, stress)}[x]()
    if name == "BPair":
        return ["Hk%d" % uid, "v%d" % uid if canonical else (gen_text(rng, pick_len(rng, 1, 1025)).replace(",", ";") if stress else rng.choice(VALS))]
    if name in ("ChAppend", "ChInsert", "AddChange"):
        return ("  * added %d" % uid) if canonical else gen_change_text(rng, stress)
    if name == "AddTrailing":
        return ""
    if name == "NewBlockFull":
        c = gen_top_content(rng, canonical, stress)
        if canonical:
            c.update(pkg="newpkg", ver="2.0-%d" % uid)
        au, da = ("N B <n@b.c>", "Tue, 02 Jan 2001 10:00:00 +0000") if canonical else (gen_author(rng, stress), gen_date(rng, stress))
        return dict(package=c["pkg"], version=c["ver"], distributions=c["dists"], urgency=c["urg"], author=au, date=da)
    if name in ("ChDelete", "MutVer"):
        return None
    raise AssertionError(op)


def do_format(cl, i, how):
    """one of the formatting entry points on the changelog (i = 0) or on block i -> (text, None) | (None, why)"""
    import io
    from debian.changelog import ChangelogCreateError
    try:
        tgt = cl if i == 0 else cl[i - 1]
        if how % 3 == 1:
            return bytes(tgt).decode("utf-8"), None
        if how % 3 == 2 and i == 0:
            f = io.StringIO()
            cl.write_to_open_file(f)
            return f.getvalue(), None
        return str(tgt), None
    except ChangelogCreateError:
        return None, "unformattable"
    except Exception as e:
        return None, "EXC:" + type(e).__name__


def apply_hist(cl, op, arg, how=0):
    """-> (error or None, formatted text or None).  Edits go through the BLOCK object (any block), the
    in-place ones through the containers the block exposes."""
    from debian.debian_support import Version
    name, i, x = op
    try:
        if name == "Fmt":
            t, err = do_format(cl, i, arg)
            if t is None and err != "unformattable":
                return err, None
            return None, t
        if name == "NewBlockFull":
            cl.new_block(**arg)
        elif name == "AddChange":
            r = apply_edit(cl, "AddChange", arg)
            if r:
                return r, None
        else:
            b = cl[i - 1]
            if name == "BSet":
                attr = ATTRS[x]
                if i == 1 and how % 3 == 1:          # the first block also through the Changelog
                    setattr(cl, attr, arg)
                elif attr == "version" and how % 3 == 2:
                    b.version = Version(arg)
                else:
                    setattr(b, attr, arg)
            elif name == "BPair":
                b.other_pairs[arg[0]] = arg[1]
            elif name == "ChAppend":
                b.changes().append(arg)
            elif name == "ChInsert":
                b.changes().insert(x - 1, arg)
            elif name == "ChDelete":
                del b.changes()[x - 1]
            elif name == "AddTrailing":
                b.add_trailing_line(arg)
            elif name == "MutVer":
                acc = how % 5
                v = (cl.version if i == 1 and acc == 1 else cl.get_version() if i == 1 and acc == 2 else
                     cl.versions[i - 1] if acc == 3 else cl.get_versions()[i - 1] if acc == 4 else b.version)
                if v is not None:
                    if v.debian_revision and how % 2:
                        v.debian_revision = str(v.debian_revision) + "1"
                    else:
                        v.upstream_version = str(v.upstream_version) + ".1"
            else:
                raise AssertionError(op)
    except AssertionError:
        raise
    except Exception as e:
        return "EXC:" + type(e).__name__, None
    return None, None


class Tok(object):
    """what the tokens of a TLC formatting history stand for: a position in the parsed text (what the
    generator wrote there) or 400 + 10 k + j / 200 + k (argument of call k)"""

    def __init__(self, lines, contents, ops, args):
        self.lines, self.contents, self.ops, self.args = lines, contents, ops, args

    def val(self, tok, field):
        if tok >= 400:
            k, j = divmod(tok - 400, 10)
            a = self.args[k]
            if self.ops[k][0] == "NewBlockFull":
                return a[{0: "package", 1: "version", 2: "distributions", 3: "urgency", 5: "author", 6: "date"}[j]]
            return a
        if tok == -1:
            return {"urg": "unknown"}.get(field)
        if tok == 0:
            return None
        c = self.contents[tok - 1]
        if field in ("au", "da"):
            return c[0 if field == "au" else 1]
        return c[field]

    def rest(self, h):
        if h[4] == -1:
            comment, pairs = "", []
        else:
            comment, pairs = self.contents[h[4] - 1]["comment"], [tuple(p) for p in self.contents[h[4] - 1]["pairs"]]
        for tok in h[5:]:
            pairs.append(tuple(self.val(tok, None)))
        return comment, pairs

    def line(self, i):
        return "" if i == 300 else self.args[i - 200] if i >= 200 else self.lines[i - 1]


def expected_text(out, tok):
    """concretization of the reference Format that TLC computed for the CURRENT document: `out` is its
    line-token sequence [c, id, h].  Headers and trailers are written with the generator's own grammar
    functions."""
    res = []
    for ln in out:
        c, h = ln["c"], ln["h"]
        if c in TOP:
            comment, pairs = tok.rest(h)
            res.append(header(tok.val(h[0], "pkg"), tok.val(h[1], "ver"), tok.val(h[2], "dists"), tok.val(h[3], "urg"), comment, pairs))
        elif c in END and ln["id"] == 0:
            res.append(" -- %s%s%s" % (tok.val(h[0], "au"), "  " if c == "EndOK" else " ", tok.val(h[1], "da")))
        else:
            res.append(tok.line(ln["id"]))
    return res


def expected_fields(doc, tok):
    """what the blocks of the CURRENT document (TLC's structure) must expose"""
    out = []
    for b in doc["bl"]:
        h = b["h"]
        comment, pairs = tok.rest(h)
        out.append((tok.val(h[0], "pkg"), tok.val(h[1], "ver"), tok.val(h[2], "dists"), tok.val(h[3], "urg"), comment, pairs,
                    [tok.line(i) for i in b["ch"]], tok.val(b["au"], "au"), tok.val(b["da"], "da")))
    return out


def fields_of(cl):
    return [(b.package, ver_str(b), b.distributions, b.urgency, (b.urgency_comment or "").strip(), list(b.other_pairs.items()),
             list(b.changes()), b.author, b.date) for b in cl]


def run_hist(rec, c04=True):
    """replay one formatting history.  rec: lines, contents, aea, ops, args, hows, out (TLC's reference
    output for the LAST call, a Fmt), what, tail (verbatim older entries appended to the text; no call
    touches them).  Verdicts: no unexpected exception; the last output equals the concretized reference
    Format of the current document; it is a normal form; (c04) parsing it strictly gives no warning and
    exposes the same fields as the edited object.  -> None or a message"""
    from debian.changelog import Changelog
    tail = rec.get("tail") or []
    text = join(rec["lines"] + tail)
    cl, msg = strict_clean(text, rec["aea"], rec.get("form", "str"))
    if msg:
        return msg
    last = None
    for k, (op, arg, how) in enumerate(zip(rec["ops"], rec["args"], rec["hows"])):
        if c04 and how % 5 == 4:        # first the changelog is written to a file object that FAILS (never judged; the document stays)
            import changelog_faults as cf
            cf.do_write_fault(cl, how)
        err, t = apply_hist(cl, op, arg, how)
        if err:
            return ("call %d %s raised %s" % (k + 1, op, err[4:])) if err.startswith("EXC:") else err[4:]
        last = t
    if not rec["ops"] or rec["ops"][-1][0] != "Fmt":        # (a call that leaves the document as it is came after the Fmt)
        last, err = do_format(cl, rec["what"], 0)
        if last is None and err != "unformattable":
            return "str() raised %s" % err[4:]
    if last is None:
        return "formatting failed (ChangelogCreateError) although every block is complete"
    tok = Tok(rec["lines"], rec["contents"], rec["ops"], rec["args"])
    what = rec["what"]
    # WHERE add_change inserts its line is not part of the statements: TLC hands out one reference per
    # insertion position; the real object must agree with one of them (today's position first; another one
    # is specification drift, recorded by the caller)
    variants = rec.get("variants") or [dict(out=rec["out"], doc=rec.get("doc"), std=True)]
    variants = sorted(variants, key=lambda v: not v["std"])
    names = ("package", "version", "distributions", "urgency", "urgency_comment", "other_pairs", "changes", "author", "date")

    def against(v):
        want_text = join(expected_text(v["out"], tok) + (tail if what == 0 else []))
        if last != want_text:
            i = next((i for i in range(min(len(last), len(want_text))) if last[i] != want_text[i]), min(len(last), len(want_text)))
            return "after %s the formatted %s is not the text of the current document: differs at offset %d: %r vs expected %r" % (
                [o[0] + (str(o[1]) if o[1] else "") for o in rec["ops"]], "changelog" if what == 0 else "block %d" % what,
                i, last[max(0, i - 30):i + 40], want_text[max(0, i - 30):i + 40])
        if c04 and v.get("doc"):
            # what the edited object exposes is what was written / assigned (TLC's current document); the
            # version of a block whose own handed-out Version object was edited in place is not judged
            got = fields_of(cl)[:len(v["doc"]["bl"])]
            exp = expected_fields(v["doc"], tok)
            for n, (g, e) in enumerate(zip(got, exp)):
                for j, nm in enumerate(names):
                    if nm == "version" and (n + 1) in rec.get("mut", []):
                        continue
                    if g[j] != e[j]:
                        return "after %s block %d exposes %s = %r, the current document says %r" % (
                            [o[0] + (str(o[1]) if o[1] else "") for o in rec["ops"]], n, nm, g[j], e[j])
        return None
    msgs = [against(v) for v in variants]
    if all(msgs):
        return msgs[0]
    chosen = variants[msgs.index(None)]
    if not chosen["std"]:
        rec["_drift"] = "add_change put its line at another position than today's rule (history %s)" % ([o[0] for o in rec["ops"]],)
    if what == 0:
        msg = fixpoint(cl, last, rec["aea"])
        if msg:
            return msg
        if c04:
            ref, msg = strict_clean(last, False)
            if msg:
                return "the formatted text: " + msg
            if fields_of(ref) != fields_of(cl):
                return "the blocks of the edited changelog and of a fresh parse of its text expose different data"
    if c04 and chosen.get("doc"):
        # a NEW parse of the original text exposes what is written there, whatever was done to objects
        # handed out before
        base = rec["base"]
        if tail:
            base = {"ini": base["ini"], "bl": base["bl"] + rec["tail_bl"]}
        m = c04_check(rec["lines"] + tail, rec["contents"] + rec.get("tail_contents", []), base,
                      form=FORMS[(len(rec["lines"]) + len(rec["ops"])) % len(FORMS)])
        if m:
            return "fresh parse of the original text after the history %s: %s" % ([o[0] for o in rec["ops"]], m)
    return None


def stress_case(rng, classes, struct, mode, big=False):
    """size-stressed concretization of a well-formed abstract text (the class sequence and TLC's block
    structure stay what they are): mode 'payload' long names / versions / lines / many distributions and
    pairs; 'lines' every change or blank line becomes a run of k lines; 'blocks' the block sequence is
    repeated r times.  Length-independent by construction: a run of change lines takes the CChange
    self-loop, a run of blank lines HBlank / CBlank, and block follows block as in the grammar (closed
    LTS).  -> (lines, contents, struct')"""
    reps = 1
    if mode == "blocks":
        reps = rng.choice([99, 100, 101, 255, 256, 257] + ([1000] if big else []))
    lines, contents = [], []
    out = {"ini": [], "bl": []}

    def emit(cls, run):
        ids = []
        for _ in range(run):
            t, k = conc_line(rng, cls, empty_blank=True, stress=(mode == "payload"))
            lines.append(t)
            contents.append(k)
            ids.append(len(lines))
        return ids

    def run_of(cls):
        if mode == "lines" and cls in ("Change", "Blank"):
            return rng.choice([1000, 1001] if big and rng.random() < 0.2 else CNT_B[3:])
        return 1
    for i in struct["ini"]:
        out["ini"] += emit(classes[i - 1], run_of(classes[i - 1]))
    for _ in range(reps):
        for b in struct["bl"]:
            h = emit("TopOK", 1)[0]
            ch = []
            for i in b["ch"]:
                ch += emit(classes[i - 1], run_of(classes[i - 1]))
            e = emit("EndOK", 1)[0]
            tr = []
            for i in b["tr"]:
                tr += emit(classes[i - 1], run_of(classes[i - 1]))
            out["bl"].append({"h": [h] * 5, "ch": ch, "au": e, "da": e, "tr": tr})
    return lines, contents, out


HIST_NEG = [("BlockRenderCache", {"FormatIsCurrent"}), ("OlderBlocksMemo", {"FormatIsCurrent"}), ("InternedVersions", {"ExposedAsWritten"})]


def reuse_cfg(bug="none", emit=False):
    """Mode "reuse": the parse under test on an already used object (any leftover flag x form of this input), in a
    process whose previous parse ended in any fault of the caller-supplied input (rs.carry)"""
    return """CONSTANTS
  Mode = "reuse"
  Classes = {}
  AEAs = {FALSE}
  MaxLines = 100
  MaxBlocks = 2
  MaxBody = %d
  MaxLead = 1
  MaxSep = 1
  Budget = 0
  MaxEdits = 0
  Bug = "%s"
  Emit = %s
SPECIFICATION Spec
INVARIANT BookkeepingOK
INVARIANT NoWarning
INVARIANT RoundTrip
INVARIANT BlocksAsWritten
INVARIANT ParseIsHistoryFree
%s
CHECK_DEADLOCK FALSE
""" % (1 if emit else 2, bug, "TRUE" if emit else "FALSE", "INVARIANT EmitReuse" if emit else "")


def reuse_controls(ctx, hold=True):
    """design level: ParseIsHistoryFree holds (hold = False: the caller runs reuse_cases, the same invariants on the
    emitting configuration); the sticky per-object flag and the per-process decoder tail violate it"""
    out = {}
    if hold:
        r = ctx.tlc_must_hold("Changelog", reuse_cfg(), workers=1, want_tags=set(), java_opts=jopts(ctx))
        out["reuse_states"] = r.distinct
    for bug in ("StickyParseFlag", "DecoderTail"):
        n = ctx.tlc("Changelog", reuse_cfg(bug), count=False, workers=1, want_tags=set(), java_opts=jopts(ctx))
        if n.violated != "ParseIsHistoryFree":
            raise core.MachineryError("spec-level negative control Bug=%s: expected ParseIsHistoryFree violated, TLC reports %r" % (bug, n.violated))
        out[bug] = n.violated
    return out


def reuse_cases(ctx):
    """the CASE lines of Mode "reuse" (one body line per block): complete well-formed text x rs.pf (what the object
    under test kept of its earlier parse) x rs.f2 (str / bytes, str lines, BYTE lines) x rs.carry (how the previous
    parse of the process ended: normally, or by one of the faults of the caller-supplied input) -> (cases, states)"""
    r = ctx.tlc_must_hold("Changelog", reuse_cfg(emit=True), workers=1, want_tags={"CASE"}, java_opts=jopts(ctx))
    cases = [c for c in r.printed.get("CASE", []) if isinstance(c, dict)]
    if not cases or len(cases) != len(r.printed.get("CASE", [])):
        raise core.MachineryError("reuse configuration printed %d CASE lines, %d parsed" % (len(r.printed.get("CASE", [])), len(cases)))
    for c in cases:
        if not c["wf"] or c["nw"] != 0 or c["sr"] or not c["intact"]:
            raise core.MachineryError("reuse CASE outside the C04 domain: %r" % c)
    return cases, r.distinct


def norm_contents(contents):
    """contents as they come back from a replay file (JSON): tuples again"""
    out = []
    for c in contents:
        if isinstance(c, dict):
            c = dict(c, pairs=[tuple(p) for p in c["pairs"]])
        elif isinstance(c, list):
            c = tuple(c)
        out.append(c)
    return out


def hist_cfg(edits=3, sep=1, lines=5, bug="none", emit=True):
    return """CONSTANTS
  Mode = "hist"
  Classes = {}
  AEAs = {FALSE}
  MaxLines = %d
  MaxBlocks = 2
  MaxBody = 1
  MaxLead = 0
  MaxSep = %d
  Budget = 0
  MaxEdits = %d
  Bug = "%s"
  Emit = %s
SPECIFICATION Spec
INVARIANT BookkeepingOK
INVARIANT HistFormattable
INVARIANT FormatIsCurrent
INVARIANT ExposedAsWritten
%s
CHECK_DEADLOCK FALSE
""" % (lines, sep, edits, bug, "TRUE" if emit else "FALSE", "INVARIANT NormalFormHist\nINVARIANT EmitHist" if emit else "")


def replay_hist_cases(ctx, rng, cases, c04, nconc, nstress, alive=None):
    """replay the formatting histories TLC enumerated (each ends in a formatting call and carries the
    reference output for it).  nconc concretizations per case (the first canonical); nstress cases are
    additionally replayed size-stressed: long arguments, and `tail` -- 100 / 1000 older entries appended
    to the parsed text that no call touches (the reference output is then TLC's followed by them).
    -> number replayed"""
    n = 0
    groups = {}
    order = []
    for c in cases:                     # one group per history; its members differ in the add_change positions only
        k = json_key([c["t"], [[o[0], o[1], 0 if o[0] == "AddChange" else o[2]] for o in c["ops"]], c["what"]])
        if k not in groups:
            groups[k] = []
            order.append(k)
        groups[k].append(c)
    cases = []
    for k in order:
        g = groups[k]
        c = dict(next((x for x in g if x["std"]), g[0]))
        c["variants"] = [dict(out=x["out"], doc=x["doc"], std=x["std"]) for x in g]
        cases.append(c)
    stress_every = max(1, len(cases) // max(1, nstress))
    for ci, c in enumerate(cases):
        variants = [("canonical", False)] + [("random", False)] * (nconc - 1)
        if nstress and ci % stress_every == stress_every // 2 and c["ops"]:
            variants.append(("stress", True))
        for vi, (kind, stress) in enumerate(variants):
            lines, contents = conc_text(rng, c["t"], canonical=(kind == "canonical"), empty_blank=True, stress=stress)
            args = [conc_hist_arg(rng, op, canonical=(kind == "canonical"), uid=k, stress=stress) for k, op in enumerate(c["ops"])]
            tail, tail_contents, tail_bl = [], [], []
            if stress:
                nt = rng.choice([99, 100, 101, 255, 256, 257, 1000])
                for _ in range(nt):
                    tl, tc = conc_text(rng, ["TopOK", "Blank", "Change", "Blank", "EndOK", "Blank"], empty_blank=True)
                    o = len(lines) + len(tail)
                    tail_bl.append({"h": [o + 1] * 5, "ch": [o + 2, o + 3, o + 4], "au": o + 5, "da": o + 5, "tr": [o + 6]})
                    tail += tl
                    tail_contents += tc
            rec = dict(kind="hist", lines=lines, contents=contents, aea=c["aea"], ops=c["ops"], args=args,
                       hows=[rng.randrange(30) for _ in c["ops"]], out=c["out"], what=c["what"], tail=tail,
                       tail_contents=tail_contents, tail_bl=tail_bl, doc=c["doc"], base=c["base"], mut=c["mut"],
                       variants=c["variants"], form=FORMS[(ci + vi) % len(FORMS)])
            msg = run_hist(rec, c04=c04)
            if rec.pop("_drift", None):
                ctx.drift("formatting history %s on %s: add_change inserted at another position than today's rule" % (
                    [o[0] for o in c["ops"]], "".join(x[0] for x in c["t"])))
            ctx.case_seen(("hist", tuple(c["t"]), json_key(c["ops"])), len(c["ops"]) > 1)
            n += 1
            if msg:
                ctx.violation(rec, msg)
                break
        if len(ctx.violations) >= 5:
            break
        if alive is not None and ci % 97 == 0:
            m = alive.recheck()
            if m:
                ctx.violation({"kind": "alive", "note": m}, m)
                break
    return n


def json_key(x):
    import json
    return json.dumps(x, separators=(",", ":"))


class Alive(object):
    """earlier Changelog objects kept alive and re-verified after other objects were parsed / edited /
    formatted: what an object shows must not depend on what happened to other objects"""

    def __init__(self, limit=40):
        self.items = []
        self.limit = limit

    def add(self, cl, note):
        if len(self.items) < self.limit:
            self.items.append((cl, fmt(cl), fields_of(cl), note))

    def recheck(self):
        for cl, f0, fl0, note in self.items:
            if fmt(cl) != f0 or fields_of(cl) != fl0:
                return "a Changelog object parsed earlier (%s) shows different text / fields after other objects were used" % (note,)
        return None


# ------------------------------------------------------------------ interning, projections for traces

class Intern(object):
    def __init__(self):
        self.t = {}

    def __call__(self, s):
        if s is None:
            return 0
        if s not in self.t:
            self.t[s] = len(self.t) + 1
        return self.t[s]

    def urg(self, s):
        return -1 if s == "unknown" else self(s)

    def rest(self, comment, pairs):
        comment = (comment or "").strip()
        pairs = [list(p) for p in pairs]
        return -1 if (not comment and not pairs) else self(repr((comment, pairs)))

    def hdr(self, c):
        return [self(c["pkg"]), self(c["ver"]), self(c["dists"]), self.urg(c["urg"]), self.rest(c["comment"], c["pairs"])]


def proj_block_hdr(it, b):
    return [it(b.package), it(ver_str(b)), it(b.distributions), it.urg(b.urgency),
            it.rest(b.urgency_comment, list(b.other_pairs.items()))]


def proj_doc(it, cl):
    return dict(has=True, ini=[it(x) for x in cl.initial_blank_lines],
                bl=[dict(h=proj_block_hdr(it, b), ch=[it(x) for x in b.changes()], au=it(b.author), da=it(b.date),
                         tr=[it(x) for x in getattr(b, "_trailing")]) for b in cl])


def proj_blocks(it, cl):
    return [dict(h=proj_block_hdr(it, b)[:4], ch=[it(x) for x in b.changes()], au=it(b.author), da=it(b.date)) for b in cl]


def line_event(it, line):
    cls, content = classify(line)
    e = dict(c=cls, v=it(line), h=[])
    if cls in TOP:
        e["h"] = it.hdr(content)
    elif cls in END:
        e["h"] = [it(content[0]), it(content[1])]
    return e


NO_DOC = dict(has=False)


def record_parse_trace(lines, aea, wf, doc_every=0, form="str", faults=None):
    """prefix closure: the real parser's observable result for every prefix of the text, handed over in
    the given input form.  faults = {"<i>": plan of changelog_faults}: right before the parses of the prefix of i
    lines a FAULTING input is parsed by another object in this process (never judged, not an event: the
    specification keeps nothing of it -- Changelog!KeptTail)"""
    it = Intern()
    evs = []
    for i in range(1, len(lines) + 1):
        text = join(lines[:i])
        e = line_event(it, lines[i - 1])
        if faults and str(i) in faults:
            import changelog_faults as cf
            cf.do_fault(faults[str(i)], join(lines))
        len_ = construct(text, aea=aea, strict=False, form=form)
        st = construct(text, aea=aea, strict=True, form=form)
        e["ok"] = len_.exc is None and st.exc in (None, "ChangelogParseError")
        e["sr"] = st.exc == "ChangelogParseError"
        e["w"] = len_.nwarn
        e.update(nb=0, ini=0, ch=[], tr=[], fmt=False, nf=True, rt=False, doc=NO_DOC)
        if len_.cl is not None:
            cl = len_.cl
            try:
                e.update(nb=len(cl), ini=len(cl.initial_blank_lines), ch=[len(b.changes()) for b in cl],
                         tr=[len(getattr(b, "_trailing")) for b in cl])
                if i == len(lines) or (doc_every and i % doc_every == 0):
                    e["doc"] = proj_doc(it, cl)
            except AttributeError:      # private layout changed: diagnostic fields unavailable
                e.update(ch=[-1], tr=[-1])
            s, err = fmt(cl)
            e["fmt"] = s is not None
            if s is None:
                e["ok"] = e["ok"] and err == "unformattable"     # any other exception of str() is a violation
            else:
                e["rt"] = s == text
                e["nf"] = fixpoint(cl, s) is None
        evs.append(e)
    return dict(kind="parse", aea=aea, wf=wf, form=form_kind(form), lines=evs, text=list(lines), iform=form, faults=faults or {})


def record_proc_trace(lines, aea, calls, form="str"):
    """call history of one process on one text: calls = [(strict, allow_empty_author)] -- what every call
    showed, for TLC (TraceChangelog!TProc)"""
    it = Intern()
    evs = [line_event(it, l) for l in lines]
    _msg, obs = run_calls(join(lines), calls, form)
    return dict(kind="proc", aea=aea, wf=False, form=form_kind(form), lines=evs,
                ops=[dict(s=e["s"], a=e["a"], ok=e["ok"], w=e["w"], sr=e["sr"]) for e in obs],
                text=list(lines), calls=[[bool(st), bool(a)] for st, a in calls], iform=form)


DEFECTS = {"TopOK": ("TopBadKV", "TopDupKey", "TopBadUrg"), "EndOK": ("EndOneSpace", "EndNoDetails", "Junk"), "Change": ("Junk", "Vim", "Old8")}


def gen_single_defect(rng, maxlines=14):
    """a well-formed changelog in which ONE line was replaced by a defective line of the same role (heading
    with a damaged key=value list, one-space / bare trailer, junk instead of a change line) -- often the
    only thing a parser can complain about -- and sometimes the defective line put in twice (identical text)
    -> (lines, index of the defective line)"""
    cls, lines, _c = gen_wellformed(rng, maxlines)
    cand = [i for i, c in enumerate(cls) if c in DEFECTS]
    i = rng.choice(cand)
    t, _k = conc_line(rng, rng.choice(DEFECTS[cls[i]]), haz=rng.random() < 0.3)
    lines = list(lines)
    lines[i] = t
    if rng.random() < 0.3:
        lines.insert(rng.choice([i, i + 1, rng.randint(0, len(lines))]), t)
    return lines, i


def random_calls(rng, lines):
    """a random order of 2 .. 6 strict / lenient parses (the other allow_empty_author setting mixed in when
    the text has a bare ' --' line)"""
    bare = any(l.startswith(" --") and "<" not in l for l in lines)
    a0 = rng.random() < 0.5
    return [(rng.random() < 0.5, (not a0) if bare and rng.random() < 0.3 else a0) for _ in range(rng.choice([2, 3, 3, 4, 6]))]


def conc_same(rng, classes, same, canonical=False, stress=False, haz=None):
    """conc_text for a text in which TLC says that line i is the very same line as line same[i] (1-based)"""
    lines, _c = conc_text(rng, classes, canonical=canonical, stress=stress, haz=haz)
    for i, j in enumerate(same):
        if j - 1 != i:
            lines[i] = lines[j - 1]
    return lines


# ---- block-boundary alignment (notes/SIZE_STRESS.md part 4)
ALIGN_K = (9, 10, 11, 12, 13, 14, 15, 16, 17)


def align_lines(lines, j, target, wide=False):
    """one padding change line is inserted before line j (0-based) so that the text up to and including the
    newline of line j is exactly `target` UTF-8 bytes (its '\\n' is byte target - 1) -> new lines | None"""
    off = len(join(lines[:j + 1]).encode("utf-8"))
    pad = target - off
    if pad < 8:
        return None
    heads = [i for i in range(j) if classify(lines[i])[0] in TOP]
    p = heads[0] + 1 if heads else 0
    body = "x" * (pad - 5)
    if wide:                                # the padding ends in a two-byte character
        body = "x" * (pad - 7) + "\u0416"
    out = list(lines)
    out.insert(p, "  * " + body)
    assert len(join(out[:j + 2]).encode("utf-8")) == target
    return out


def aligned_positions(lines):
    """where a line end is steered onto a block boundary: the end of a change line inside a block (inside a
    value), the end of a later heading, of a blank line between two blocks, of a trailer, the very end"""
    cls = [classify(l)[0] for l in lines]
    out = {}
    seen_top = 0
    for i, c in enumerate(cls):
        if c in TOP:
            seen_top += 1
            if seen_top >= 2:
                out.setdefault("heading", i)
        elif c == "Change" and seen_top:
            out.setdefault("change", i)
        elif c in END:
            out.setdefault("trailer", i)
        elif c == "Blank" and i and cls[i - 1] in END:
            out.setdefault("separator", i)
    out["end"] = len(lines) - 1
    return out


def _start(lines, aea, form="str"):
    from debian.changelog import Changelog
    if not lines:
        return Changelog()
    o = construct(join(lines), aea=aea, form=form)
    return None if o.exc else o.cl


def gen_call(rng, cl, wf, stress=False):
    """one random call of an editing / formatting history on the current object: a Changelog-level
    editing call, a call on ANY block through the block object, an in-place container edit, or
    str(block).  -> dict(op, i, x, arg, how, fobs, fhow)"""
    n = len(cl)
    names = ["NewBlockFull"] + ([] if wf else ["NewBlockEmpty"])
    if n:
        names += ["AddBlank", "AddChange", "SetPackage", "SetVersion", "SetDistributions", "SetUrgency", "SetAuthor", "SetDate", "SetVersionWS"]
        if not wf:
            names += ["UnsetVersion", rng.choice(sorted(UNSET_OPS))]
        names += ["BSet", "BSet", "BSet", "BRest", "BRest", "ChAppend", "ChInsert", "ChDelete", "AddTrailing", "AddTrailing", "Fmt",
                  "MutVer", "MutVer", "Reparse"]
        if wf:                  # (C04 domain) a faulting input is parsed by ANOTHER object of the process: changelog_faults;
            names += ["FaultParse", "FmtFail"]      # the changelog is written to a file object that fails
    else:
        names = [x for x in names if x != "SetVersionWS" and x not in UNSET_OPS]
    op = rng.choice(names)
    i = x = 0
    if op == "Reparse":
        return dict(op=op, i=0, x=0, arg=rng.choice(FORMS), how=0, fobs=False, fhow=0)
    if op == "FmtFail":
        return dict(op=op, i=0, x=0, arg=rng.randrange(12), how=0, fobs=rng.random() < 0.7, fhow=rng.randrange(3))
    if op == "FaultParse":
        import changelog_faults as cf
        plan = cf.fault_plan(rng)
        return dict(op=op, i=0, x=1 + cf.FAULT_KINDS.index(plan["kind"]), arg=plan, how=0, fobs=rng.random() < 0.5, fhow=rng.randrange(3))
    if op in EDIT_OPS:
        arg = conc_edit(rng, op)
        if wf and op == "AddBlank":
            arg = ""
    else:
        i = rng.randint(1, n) if rng.random() < 0.7 else n          # any block, often the oldest
        nch = len(cl[i - 1].changes())
        if op == "BSet":
            x = rng.randint(1, 6)
        elif op == "ChInsert":
            x = rng.randint(1, nch + 1)
        elif op == "ChDelete":
            if nch == 0:
                op, x = "ChAppend", 0
            else:
                x = rng.randint(1, nch)
        arg = conc_hist_arg(rng, ["BPair" if op == "BRest" else op, i, x], uid=rng.randrange(10 ** 6), stress=stress)
        if op == "BRest":
            arg[0] = "Hk%d" % rng.randrange(4)       # sometimes an existing key: the value is replaced in place
        if op in ("ChAppend", "ChInsert") and rng.random() < 0.2:
            arg = ""
    return dict(op=op, i=i, x=x, arg=arg, how=rng.randrange(6), fobs=(op == "Fmt" or rng.random() < 0.6), fhow=rng.randrange(3))


def call_event(it, cl, c, text=None, aea=False):
    """perform one call on the real object and describe it for TLC"""
    op, i, x, arg = c["op"], c["i"], c["x"], c["arg"]
    out_text = None
    rp = []
    if op == "Reparse":
        o = construct(text, aea=aea, form=arg)
        err = ("EXC:" + o.exc) if o.exc else None
        if o.cl is not None:
            rp = proj_blocks(it, o.cl)
    elif op == "FaultParse":            # never judged; the object of the history is not involved
        import changelog_faults as cf
        cf.do_fault(arg, text)
        err = None
    elif op == "FmtFail":               # never judged; formatting does not change the object
        import changelog_faults as cf
        cf.do_write_fault(cl, arg)
        err = None
    elif op in EDIT_OPS:
        err = apply_edit(cl, op, arg, c["how"])
    else:
        err, out_text = apply_hist(cl, ["BPair" if op == "BRest" else op, i, x], arg, c["how"])
    if op == "NewBlockFull":
        v = [it(arg["package"]), it(arg["version"]), it(arg["distributions"]), it.urg(arg["urgency"]),
             it.rest(arg.get("urgency_comment"), list((arg.get("other_pairs") or {}).items())), it(arg["author"]), it(arg["date"]), it("")]
    elif op == "NewBlockEmpty":
        v = [it("")]
    elif op == "BRest":
        b = cl[i - 1]
        v = [it.rest(b.urgency_comment, list(b.other_pairs.items()))]       # other_pairs as the object shows them now
    elif op in ("Fmt", "ChDelete", "MutVer", "Reparse", "FaultParse", "FmtFail"):
        v = [0]
    elif op == "SetVersionWS":
        shown = ver_str(cl[0])
        v = [0 if shown is None or shown != arg else it(shown)]      # 0: rejected (the block shows what it showed before)
    elif op in UNSET_OPS:                              # what the first block shows afterwards (0: not set)
        shown = ver_str(cl[0]) if op == "UnsetVersion" else getattr(cl[0], UNSET_OPS[op])
        v = [it.urg(shown) if op == "UnsetUrgency" and shown is not None else it(shown)]
    elif op in ("ChAppend", "ChInsert"):
        v = [it(arg), 1 if arg == "" else 0]       # by construction '' or a change line
    elif op == "BSet":
        v = [it.urg(arg) if x == 4 else it(arg)]
    else:
        v = [it.urg(arg) if op == "SetUrgency" else it(arg)]
    e = dict(op=op, i=i, x=x, v=v, ok=err is None, fobs=bool(c["fobs"]), fmt=False, nf=True, out=[], bl=[], rp=rp)
    if err is None:
        if c["fobs"]:
            tgt = i if op == "Fmt" else 0
            if op == "Fmt":
                s, ferr = out_text, (None if out_text is not None else "unformattable")
            else:
                s, ferr = do_format(cl, 0, c["fhow"])
            e["fmt"] = s is not None
            if s is None:
                e["ok"] = ferr == "unformattable"                     # any other exception of str() is a violation
            else:
                e["out"] = [line_event(it, l) for l in s.split("\n")[:-1]]
                if not s.endswith("\n") and s:
                    e["out"].append(dict(c="Junk", v=-5, h=[]))      # cannot happen: every formatted line is terminated
                if tgt == 0:
                    e["nf"] = fixpoint(cl, s) is None
        e["bl"] = proj_blocks(it, cl)
    return e


STR_FORMS_AFTER_FAULT = ("str", "bytes", "stringio", "list")


def record_edit_trace(rng, lines, aea, nops, wf=False, stress=False, form="str"):
    """parse `lines`, then nops random calls (gen_call); formatting is part of the history: after a
    call the changelog is formatted (str / bytes / write_to_open_file) only when the call says so"""
    it = Intern()
    evs = [line_event(it, l) for l in lines]
    cl = _start(lines, aea, form)
    if cl is None:
        return None
    t = dict(kind="edit", aea=aea, wf=wf, lines=evs, bl0=proj_blocks(it, cl), ops=[], text=list(lines), calls=[], iform=form)
    for k in range(nops):
        c = gen_call(rng, cl, wf, stress)
        if c["op"] in ("Reparse", "FaultParse") and not lines:
            continue
        if t["calls"] and t["calls"][-1]["op"] == "FaultParse" and rng.random() < 0.7:
            # right after the fault a NEW object parses the text of the history, mostly handed over as byte lines
            import changelog_faults as cf
            c = dict(op="Reparse", i=0, x=0, arg=rng.choice(cf.BYTE_LINE_FORMS + STR_FORMS_AFTER_FAULT), how=0, fobs=False, fhow=0)
        t["calls"].append(c)
        t["ops"].append(call_event(it, cl, c, join(lines), aea))
    return t


def rerecord(trace):
    """re-execute a recorded trace on the current tree (for --replay)"""
    if trace["kind"] == "parse":
        return record_parse_trace(trace["text"], trace["aea"], trace["wf"], form=trace.get("iform", "str"), faults=trace.get("faults"))
    if trace["kind"] == "proc":
        return record_proc_trace(trace["text"], trace["aea"], [tuple(c) for c in trace["calls"]], form=trace.get("iform", "str"))
    it = Intern()
    lines = trace["text"]
    evs = [line_event(it, l) for l in lines]
    cl = _start(lines, trace["aea"], trace.get("iform", "str"))
    if cl is None:
        return None
    t = dict(kind="edit", aea=trace["aea"], wf=trace.get("wf", False), lines=evs, bl0=proj_blocks(it, cl), ops=[], text=lines, calls=trace["calls"])
    for c in trace["calls"]:
        t["ops"].append(call_event(it, cl, c, join(lines), trace["aea"]))
    return t


def strip_trace(t):
    """what TLC gets (concrete text and call arguments stay in the harness)"""
    return {k: v for k, v in t.items() if k not in ("text", "calls", "iform", "plan", "faults")}


# ------------------------------------------------------------------ text generators for the recorders

def gen_wellformed_classes(rng, maxlines):
    """a random sentence of the deb-changelog(5) grammar of the specification's generator
    (GenLeadBlank* (GenHeader (GenChange | GenBlankInBlock)* GenTrailer GenBlankBetween*)+)"""
    out = ["Blank"] * rng.choice([0, 0, 0, 1, 2])
    nblocks = 0
    while True:
        block = ["TopOK"]
        if rng.random() < 0.85:
            block.append("Blank")
        for _ in range(rng.randint(0, max(0, min(6, maxlines - 6)))):
            block.append("Change" if rng.random() < 0.8 else "Blank")
        if rng.random() < 0.85 and block[-1] != "Blank":
            block.append("Blank")
        block.append("EndOK")
        block += ["Blank"] * rng.choice([0, 1, 1, 1, 2, 3])
        if nblocks and len(out) + len(block) > maxlines:
            break
        out += block
        nblocks += 1
        if rng.random() < 0.1:
            break
    return out


def gen_wellformed(rng, maxlines):
    cls = gen_wellformed_classes(rng, maxlines)
    lines, contents = conc_text(rng, cls, empty_blank=True)
    return cls, lines, contents


def mutate(rng, lines, nmut, maxlines):
    """insert / delete / duplicate whole lines (headers, trailers, junk, mode lines, old-format markers)"""
    lines = list(lines)
    for _ in range(nmut):
        how = rng.choice(["ins", "ins", "ins", "del", "dup"])
        if how == "ins" or not lines:
            cls = rng.choice(ALL_CLASSES)
            t, _c = conc_line(rng, cls)
            lines.insert(rng.randint(0, len(lines)), t)
        elif how == "del":
            del lines[rng.randrange(len(lines))]
        else:
            i = rng.randrange(len(lines))
            lines.insert(rng.randint(0, len(lines)), lines[i])
    return lines[:maxlines]


def corrupt_trace(t, how):
    """negative controls: traces the specification must reject"""
    t = copy.deepcopy(t)
    if t["kind"] == "proc":
        evs = t["ops"]
        if how == "proc_strict":        # verdict level: a strict call that does not raise although a lenient call warned
            for e in evs:
                if e["s"] and e["sr"]:
                    e["sr"] = False
                    return t
        if how == "proc_silent":        # verdict level: a later lenient call is silent, the strict call after it returns
            seen = False
            for e in evs:
                if not e["s"] and e["w"] > 0:
                    if seen:
                        e["w"] = 0
                    seen = True
            if seen and evs[-1]["s"]:
                evs[-1]["sr"] = False
                return t
        if how == "proc_count":         # diagnostic level: another number of warnings
            for e in evs:
                if not e["s"] and e["w"] > 0:
                    e["w"] += 1
                    return t
        return None
    if t["kind"] == "parse":
        evs = t["lines"]
        if not evs:
            return None
        if how == "strict":             # verdict level: strict and lenient disagree
            e = evs[len(evs) // 2]
            e["sr"] = not e["sr"]
            return t
        if how == "blocks":
            e = evs[-1]
            e["nb"] += 1
            e["ch"] = e["ch"] + [0]
            e["tr"] = e["tr"] + [0]
            return t
        if how == "warn" and t["wf"]:   # verdict level (C04): a warning on a complete well-formed text
            e = evs[-1]
            if e["w"] == 0:
                e["w"] = 1
                e["sr"] = True
                return t
        if how == "content" and evs[-1]["doc"].get("has") and evs[-1]["doc"]["bl"]:
            b = evs[-1]["doc"]["bl"][0]
            b["h"][0] = b["h"][0] + 1000
            return t
        if how == "moved" and evs[-1]["doc"].get("has"):
            for b in evs[-1]["doc"]["bl"]:
                if b["ch"]:
                    b["tr"] = [b["ch"].pop()] + b["tr"]
                    return t
        return None
    ops = t["ops"]
    if not ops:
        return None
    if how == "nf":                      # verdict level: fixpoint law broken on a formattable, specified document
        for e in ops:
            if e["fobs"] and e["fmt"] and e["nf"] and e["op"] != "Fmt":
                e["nf"] = False
                return t
    if how == "stale":                   # verdict level (wf): the output of an earlier state (an added line is missing)
        for e in ops:
            if e["fobs"] and e["fmt"] and len(e["out"]) > 3:
                del e["out"][3]
                return t
    if how == "order":
        for e in ops:
            for b in e["bl"]:
                if len(b["ch"]) >= 2 and b["ch"][0] != b["ch"][1]:
                    b["ch"][0], b["ch"][1] = b["ch"][1], b["ch"][0]
                    return t
    return None


# ------------------------------------------------------------------ trace validation with the verdict / drift split

def jopts(ctx):
    """JVM options for every TLC run of these two properties: the parser fold and the formatter are
    recursive operators, TLC evaluates them with deeply nested Java frames -- give the worker threads
    a large stack (the default overflows once the optimising JIT is switched off, as core does for
    the quick tier)"""
    return (["-XX:TieredStopAtLevel=1"] if ctx.tier == "quick" else []) + ["-Xss64m"]


def golden_traces():
    """two hand-written traces (they do not depend on the code under test): what a correct parser shows
    for  header / '' / change / '' / trailer / ''  prefix by prefix, and three editing calls on it.
    They must be accepted in every validation run; their corruptions are the control traces."""
    def ev(c, v, h, sr, w, ch, tr, doc=NO_DOC):
        return dict(c=c, v=v, h=h, ok=True, sr=sr, w=w, nb=1, ini=0, ch=ch, tr=tr, fmt=True, nf=True, rt=True, doc=doc)
    hdr = [2, 3, 4, 5, -1]
    final = dict(has=True, ini=[], bl=[dict(h=list(hdr), ch=[6, 7, 6], au=9, da=10, tr=[6])])
    lines = [ev("TopOK", 1, list(hdr), True, 1, [0], [0]),
             ev("Blank", 6, [], True, 1, [1], [0]),
             ev("Change", 7, [], True, 1, [2], [0]),
             ev("Blank", 6, [], True, 1, [3], [0]),
             ev("EndOK", 8, [9, 10], False, 0, [3], [0]),
             ev("Blank", 6, [], False, 0, [3], [1], final)]
    parse = dict(kind="parse", aea=False, wf=True, form="text", lines=lines)
    old = dict(h=[2, 3, 4, 5], ch=[6, 7, 11, 6], au=9, da=10)
    new = dict(h=[12, 13, 14, 15], ch=[], au=16, da=17)

    def L(v):
        return dict(c="Blank" if v == 6 else "Change", v=v, h=[])
    hd, tl = dict(c="TopOK", v=1, h=list(hdr)), dict(c="EndOK", v=8, h=[9, 10])
    out1 = [hd, L(6), L(7), L(11), L(6), tl, L(6)]                      # text after add_change
    outb = [hd, L(19), L(6), L(7), L(11), L(6), tl, L(6)]               # str(block 2) after an in-place insert

    def op(name, v, bl, i=0, x=0, fobs=False, out=()):
        return dict(op=name, i=i, x=x, v=v, ok=True, fobs=fobs, fmt=fobs, nf=True, out=list(out), bl=bl, rp=[])
    old2 = dict(old, ch=[19, 6, 7, 11, 6])
    edit = dict(kind="edit", aea=False, wf=True, lines=[dict(c=e["c"], v=e["v"], h=list(e["h"])) for e in lines],
                bl0=[dict(h=[2, 3, 4, 5], ch=[6, 7, 6], au=9, da=10)],
                ops=[op("AddChange", [11], [old], fobs=True, out=out1),
                     op("NewBlockFull", [12, 13, 14, 15, -1, 16, 17, 6], [new, old]),
                     op("SetVersion", [18], [dict(new, h=[12, 18, 14, 15]), old]),
                     op("ChInsert", [19], [dict(new, h=[12, 18, 14, 15]), old2], i=2, x=1),
                     op("Fmt", [0], [dict(new, h=[12, 18, 14, 15]), old2], i=2, fobs=True, out=outb)])
    # a process parses  defective heading / change / trailer  lenient, strict, strict, lenient, strict
    plines = [dict(c="TopBadKV", v=1, h=[2, 3, 4, -1, -1]), dict(c="Change", v=7, h=[]), dict(c="EndOK", v=8, h=[9, 10])]

    def call(st, w=0, sr=False):
        return dict(s=st, a=False, ok=True, w=w, sr=sr)
    proc = dict(kind="proc", aea=False, wf=False, form="text", lines=plines,
                ops=[call(False, w=1), call(True, sr=True), call(True, sr=True), call(False, w=1), call(True, sr=True)])
    return [parse, edit, proc]


def golden_controls():
    """-> (controls for full mode, controls that must also be rejected in verdict mode)"""
    parse, edit, proc = golden_traces()
    controls, vcontrols = [], []
    for how in ("proc_strict", "proc_silent", "proc_count"):
        c = corrupt_trace(proc, how)
        assert c is not None, how
        controls.append(c)
        if how != "proc_count":
            vcontrols.append(c)
    for how in ("strict", "blocks", "warn", "content", "moved"):
        c = corrupt_trace(parse, how)
        assert c is not None, how
        controls.append(c)
        if how in ("strict", "warn", "content"):
            vcontrols.append(c)
    for how in ("nf", "stale", "order"):
        c = corrupt_trace(edit, how)
        assert c is not None, how
        controls.append(c)
        if how in ("nf", "stale"):
            vcontrols.append(c)
    return controls, vcontrols


def validate(ctx, traces):
    """full-mode validation; traces rejected there are re-validated in verdict mode.  Every run also
    validates the two golden traces (must be accepted) and their corruptions (must be rejected).
    -> (violating ids, drifting ids, info{id: first unexplained event})  (ids are 1-based)"""
    golden = golden_traces()
    controls, vcontrols = golden_controls()
    payload = [strip_trace(t) for t in traces]
    acc, _, r = core.validate_traces(ctx, "TraceChangelog", "TraceChangelog.cfg", payload + golden,
                                     extra_env={"TRACE_DIAG": "0", "TRACE_MODE": "full"}, controls=controls,
                                     java_opts=jopts(ctx))
    if r.printed.get("REJECT"):
        raise core.MachineryError("classifier and generator disagree on a well-formed text: %r" % r.printed["REJECT"][:3])
    for j in range(len(golden)):
        if len(traces) + 1 + j not in acc:
            raise core.MachineryError("golden %s trace not accepted: specification and trace format are out of sync" % golden[j]["kind"])
    rejected = [i for i in range(1, len(traces) + 1) if i not in acc]
    if not rejected:
        return [], [], {}       # (verdict mode decides nothing in this run)
    sub = [payload[i - 1] for i in rejected]
    acc2, prog, _ = core.validate_traces(ctx, "TraceChangelog", "TraceChangelog.cfg", sub + golden,
                                         extra_env={"TRACE_DIAG": "1", "TRACE_MODE": "verdict"}, controls=vcontrols,
                                         java_opts=jopts(ctx))
    for j in range(len(golden)):
        if len(sub) + 1 + j not in acc2:
            raise core.MachineryError("golden %s trace not accepted in verdict mode" % golden[j]["kind"])
    viol, drift, info = [], [], {}
    for j, i in enumerate(rejected):
        if (j + 1) in acc2:
            drift.append(i)
        else:
            viol.append(i)
            info[i] = prog.get(j + 1, 0)
    if drift:
        _, prog3, _ = core.validate_traces(ctx, "TraceChangelog", "TraceChangelog.cfg", [payload[i - 1] for i in drift[:20]],
                                           extra_env={"TRACE_DIAG": "1", "TRACE_MODE": "full"}, java_opts=jopts(ctx))
        for j, i in enumerate(drift[:20]):
            info[i] = prog3.get(j + 1, 0)
    return viol, drift, info
