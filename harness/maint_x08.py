"""X08 helpers (parent side): seeded concretization of the abstract cases / histories of
spec/Maintainer.tla, spec/ChangelogDate.tla, spec/ReleaseOrder.tla into worker scripts
(harness/worker_x08.py) and projection of what the worker observed back into terms.
No expected result is computed here: tokens -> texts (concretization), texts -> tokens (projection).
"""
import ast
import json
import os
import re
import subprocess
import sys

import core

HERE = os.path.dirname(os.path.abspath(__file__))
VARS = {"DF": "DEBFULLNAME", "NM": "NAME", "DE": "DEBEMAIL", "EM": "EMAIL"}
VKEYS = ("DF", "NM", "DE", "EM")

# ------------------------------------------------------------------ sizes (notes/SIZE_STRESS.md)

LEN_B = [1, 2, 7, 8, 9, 15, 16, 17, 31, 32, 33, 63, 64, 65, 71, 72, 73, 79, 80, 81, 127, 128, 129, 255, 256, 257,
         1023, 1024, 1025, 4095, 4096, 4097, 8191, 8192, 8193, 65535, 65536, 65537]
CNT_B = [0, 1, 2, 3, 9, 10, 11, 16, 17, 31, 32, 33, 99, 100, 101, 255, 256, 257]
NUM_B = [0, 9, 10, 99, 100, 2 ** 15, 2 ** 16, 2 ** 31 - 1, 2 ** 31, 2 ** 32 - 1, 2 ** 32, 2 ** 63 - 1, 2 ** 63, 10 ** 18]


def pick_len(rng, stress):
    """heavy-tailed length; stress = 0 (tame) .. 3 (may reach 65537)"""
    if stress == 0:
        return rng.choice([1, 2, 3, 5, 8, 13])
    r = rng.random()
    if r < 0.5:
        return rng.randint(1, 24)
    top = {1: 26, 2: 35, 3: len(LEN_B)}[stress]
    return rng.choice(LEN_B[:top])


# ------------------------------------------------------------------ characters (SIZE_STRESS.md part 2)

WORDS = ["Joe", "Doe", "Ann", "Mc'Neil", "O’Brien", "de", "la", "J.", "jr", "root", "www-data", "build", "d", "x",
         "example", "org", "co.uk", "localhost", "mail", "host-1", "a+b", "first.last", "A&B", "100%", "#1", "(tm)", '"q"',
         # not NFC / NFKC stable, next to their precomposed twins
         "café", "café", "Ångström", "Ångström", "Ångström", "Ωhm", "Ωhm",
         "類", "ﬁn", "fin", "ＡＢ", "한", "한",
         # case-mapping hazards
         "straße", "STRASSE", "İstanbul", "ıſ", "σς", "\U00010400\U00010428",
         "中文", "日本語", "שלום", "مرحبا",
         "\U0001f600", "\U0010ffff", "a‍b", "a‌b", "so­ft", "‎ltr‏",
         # white-space look-alikes inside tokens
         "a b", "a b", "a　b", "a​b", "﻿bom", "mid﻿bom", "́lone", "tab\tbed",
         "ȩ́", "ṩ", "ṩ", "Ǆ", "Ⅰⅱ"]
TAILS = [chr(c) for c in range(0x400, 0x440)]          # UTF-8 D0 80 .. D0 BF: every trailing byte
LEADS = ["À", "߿", "ࠀ", "￮", "\U00010000", "\U000f0000", "\u0080"]


def _ws(c):
    return c.isspace()


_rot = [0]


def gen_text(rng, role, stress=1):
    """a non-empty text for `role`:
       free   DEBFULLNAME / NAME: anything printable (angle brackets, commas, outer blanks included)
       plain  DEBEMAIL / EMAIL, address only: no angle brackets
       fname  name part of 'Name <addr>': no angle brackets, no outer white space
       faddr  address part: no angle brackets
       gecos  first gecos field: no comma
       user   login name
       dom    mail domain: no outer white space
    never NUL, CR, LF (or other line boundaries: the texts live in environment variables / one line)."""
    n = pick_len(rng, stress)
    parts = []
    size = 0
    tame = stress == 0
    while size < n:
        r = rng.random()
        if tame or r < 0.55:
            w = rng.choice(WORDS[:26]) if (tame or rng.random() < 0.6) else rng.choice(WORDS)
        elif r < 0.62:
            w = rng.choice(["<", ">", "<x>", " <", "> ", ",", ", ", "@", " @ ", "=", ";", ":", "\\", "'", '"', "$HOME", "%s", "{0}"])
        elif r < 0.70:
            w = rng.choice(["  ", " ", "\t", " \t "])
        elif r < 0.74:
            w = str(rng.choice(NUM_B))
        else:
            w = rng.choice(WORDS)
        sep = rng.choice(["", " ", " ", ".", "-", "@"]) if role in ("plain", "faddr", "dom", "user") else rng.choice([" ", " ", "", "-", ", "])
        parts.append(w + sep)
        size += len(w) + len(sep)
        if size < n and n > 64 and rng.random() < 0.3:      # bulk filler for the big sizes
            k = min(n - size, rng.choice([16, 64, 1000, 5000, 70000]))
            ch = rng.choice(["a", "é", "x ", "中", "\U0001f600", "ab.", "é"])
            parts.append((ch * k)[:k])
            size += k
    t = "".join(parts)[:n]
    # line-final / line-initial characters rotate through the UTF-8 trailing and lead bytes
    if not tame and rng.random() < 0.35:
        _rot[0] += 1
        t = t[:-1] + TAILS[_rot[0] % len(TAILS)] if rng.random() < 0.7 else LEADS[_rot[0] % len(LEADS)] + t[1:]
    t = "".join(c for c in t if c not in "\x00\r\n\x0b\x0c\x1c\x1d\x1e\x1f\x85\u2028\u2029")
    if role in ("plain", "fname", "faddr"):
        t = t.replace("<", "(").replace(">", ")")
    if role == "gecos":
        t = t.replace(",", ";")
    if role in ("fname", "dom"):
        while t and _ws(t[0]):
            t = t[1:]
        while t and _ws(t[-1]):
            t = t[:-1]
    if role == "dom":
        t = t.replace("\t", "-")
    if not t:
        t = rng.choice(["x", "Q", "é", "0"])
    return t


# ------------------------------------------------------------------ worker

def run_worker(ctx, jobs):
    """execute jobs in a fresh worker process against ctx.repo; returns the list of per-job results"""
    env = {k: v for k, v in os.environ.items() if k in ("PATH", "HOME", "LANG", "LC_ALL", "LC_CTYPE")}   # small: it is copied per call
    env["TMPDIR"] = ctx.work
    env["PYTHONHASHSEED"] = "0"
    env["PYTHONDONTWRITEBYTECODE"] = "1"
    env["PYTHONIOENCODING"] = "utf-8"
    env["PYTHONUTF8"] = "1"
    for k in list(VARS.values()) + ["TZ"]:
        env.pop(k, None)
    p = subprocess.run([sys.executable, os.path.join(HERE, "worker_x08.py"), os.path.join(ctx.repo, "lib")],
                       input=json.dumps(jobs).encode(), stdout=subprocess.PIPE, stderr=subprocess.PIPE, env=env, timeout=1800)
    if p.returncode != 0:
        raise core.MachineryError("worker_x08 failed (exit %s): %s" % (p.returncode, p.stderr.decode(errors="replace")[-1500:]))
    out = json.loads(p.stdout.decode())
    if "import_error" in out:
        return None, out["import_error"]
    return out["results"], None


# ------------------------------------------------------------------ (b) get_maintainer: terms <-> texts

def V(k, n=0, a=0):
    return {"k": k, "n": n, "a": a}


UNSET = V("unset")


class Toks:
    """token table of one job: distinct tokens have distinct texts (composites user@domain included)"""

    def __init__(self, rng, stress):
        self.rng = rng
        self.stress = stress
        self.text = {}
        self.role = {}
        self.taken = set()
        self.comp = set()

    def _clash(self, t, role):
        """texts must be unambiguous: no two tokens alike, no token alike a composite user@domain"""
        if t in self.taken or t in self.comp:
            return True
        if role == "user":
            return any(t + "@" + self.text[d] in self.taken for d in self.text if self.role[d] == "dom")
        if role == "dom":
            return any(self.text[u] + "@" + t in self.taken for u in self.text if self.role[u] == "user")
        return False

    def new(self, tid, role):
        for _ in range(200):
            t = gen_text(self.rng, role, self.stress)
            if not self._clash(t, role):
                break
        else:
            raise core.MachineryError("cannot draw a fresh text")
        if role == "user":
            self.comp.update(t + "@" + self.text[d] for d in self.text if self.role[d] == "dom")
        if role == "dom":
            self.comp.update(self.text[u] + "@" + t for u in self.text if self.role[u] == "user")
        self.text[tid] = t
        self.role[tid] = role
        self.taken.add(t)
        return t

    def ensure(self, tid, role):
        if tid not in self.text:
            self.new(tid, role)
        return self.text[tid]

    def lookup(self, s, composites=True):
        """text -> result term"""
        if s is None:
            return V("none")
        if s == "":
            return V("empty")
        for tid, t in self.text.items():
            if t == s:
                return V("tok", tid)
        if composites:
            for u, tu in self.text.items():
                if self.role[u] != "user" or not s.startswith(tu + "@"):
                    continue
                for d, td in self.text.items():
                    if self.role[d] == "dom" and s == tu + "@" + td:
                        return V("addr", u, d)
        return V("other")


def value_text(toks, rng, x, var, canonical=False):
    """the text of an environment value term (None = unset)"""
    k = x["k"]
    if k == "unset":
        return None
    if k == "empty":
        return ""
    if k == "plain":
        return toks.ensure(x["n"], "free" if var in ("DF", "NM") else "plain")
    if k == "form":
        sep = " " if canonical else rng.choice([" ", " ", "\t"])
        return toks.ensure(x["n"], "fname") + sep + "<" + toks.ensure(x["a"], "faddr") + ">"
    if k == "odd":       # outside the two clean shapes: unspecified
        a = toks.ensure(x["n"], "faddr")
        nm = gen_text(rng, "fname", 1)
        return rng.choice(["<%s>" % a, " <%s>" % a, "%s<%s>" % (nm, a), "%s  <%s>" % (nm, a), "%s \t<%s>" % (nm, a),
                           "%s <%s> " % (nm, a), "%s <%s>x" % (nm, a), "%s <%s" % (nm, a), "%s %s>" % (nm, a),
                           "%s <<%s>>" % (nm, a), "%s <>" % nm, "%s <%s>" % (nm, a), "%s <%s> <%s>" % (nm, a, a),
                           " %s <%s>" % (nm, a), "%s\u3000 <%s>" % (nm, a), "%s\u00a0<%s>" % (nm, a), "<%s> %s" % (a, nm), "%s <%s>\t" % (nm, a)])
    raise core.MachineryError("bad value term %r" % (x,))


def sys_conc(toks, rng, s, canonical=False):
    """msys term -> worker configuration"""
    pw = {"k": s["pw"]["k"]}
    if pw["k"] == "nomod":
        pw["how"] = "del" if canonical else rng.choice(["del", "noattr"])
    if pw["k"] == "entry":
        g = s["pw"]["g"]
        if g["k"] == "empty":
            pw["gecos"] = ""
        elif g["k"] == "lead":
            pw["gecos"] = "," + rng.choice(["", "room 1", gen_text(rng, "free", 1)])
        elif g["k"] == "plain":
            pw["gecos"] = toks.ensure(g["n"], "gecos")
        else:
            rest = rng.choice(["", "Room 101", ",,", "a,b,c", gen_text(rng, "free", 1), " x, y"])
            pw["gecos"] = toks.ensure(g["n"], "gecos") + "," + rest
        u = s["pw"]["u"]
        pw["user"] = "" if u["k"] == "empty" else toks.ensure(u["n"], "user")
    mn = s["mn"]
    if mn["k"] == "absent":
        m = {"present": False, "content": ""}
    elif mn["k"] == "empty":
        m = {"present": True, "content": "" if canonical else rng.choice(["", "\n", "\nsecond.example\n", "\n\n"])}
    elif mn["k"] == "dom":
        d = toks.ensure(mn["n"], "dom")
        m = {"present": True, "content": d + ("\n" if canonical else rng.choice(["\n", "", "\nsecond.example\n", "\n\n", "\n \n"]))}
    else:      # white space around / instead of the domain: unspecified
        d = toks.ensure(mn["n"], "dom")
        m = {"present": True, "content": rng.choice([" " + d + "\n", d + " \n", "\t" + d, " \n", "\t\n", d + "\r\n", " " + d + "\n", " "])}
    fq = "" if s["fq"]["k"] == "empty" else toks.ensure(s["fq"]["n"], "dom")
    return {"pw": pw, "mn": m, "fq": fq}


def env_term(toks, var, text, settext, setterm):
    """what is found in os.environ[var] after a call -> value term"""
    if text is None:
        return UNSET
    if text == settext:
        return setterm
    if text == "":
        return V("empty")
    r = toks.lookup(text, composites=False)
    if r["k"] == "tok":
        return V("plain", r["n"])
    return V("other")


def call_obs(toks, o, settexts, setterms):
    """worker's observation of one call -> (name term, email term, env terms, note)"""
    res = o["res"]
    note = None
    if res[0] == "ok":
        name = toks.lookup(res[1], composites=False)
        email = toks.lookup(res[2])
    elif res[0] == "exc":
        k = "raise" if res[1]["type"] == "KeyError" else "other"
        name = email = V(k)
        note = "%s: %s" % (res[1]["type"], res[1]["msg"])
    else:
        name = email = V("other")
        note = "returned " + res[1]
    env = {v: env_term(toks, v, o["env"][VARS[v]], settexts.get(v), setterms.get(v, UNSET)) for v in VKEYS}
    if o["others"]:
        env = dict(env, DF=V("other"))
        note = "other environment variables changed by the call: %s" % o["others"]
    return name, email, env, note


def fits(x, o):
    """projection of MtFits (used only to SELECT which TLC expectation an observation matches;
    the expectations x all come from TLC)"""
    return x["k"] == "any" or (x["k"] == "eon" and o["k"] in ("none", "empty")) or x == o


def env_fits(post, obs):
    """projection of MtEnvFits"""
    return all(post[v]["k"] == "any" or post[v] == obs[v] for v in VKEYS)


# ------------------------------------------------------------------ (b) format_date

DAY_BIAS = 400000
OFF_BIAS = 1000
_DATE_RE = re.compile(r"^(Mon|Tue|Wed|Thu|Fri|Sat|Sun), (\d{1,2}) (Jan|Feb|Mar|Apr|May|Jun|Jul|Aug|Sep|Oct|Nov|Dec) (\d{4}) "
                      r"(\d\d):(\d\d):(\d\d) ([+-])(\d\d)(\d\d)$")


def tz_string(rng, off, canonical=False):
    """a POSIX TZ value without daylight-saving rule for UTC + off minutes (POSIX counts westwards)"""
    if off == 0 and (canonical or rng.random() < 0.5):
        return "UTC0" if canonical else rng.choice(["UTC0", "GMT0", "UTC", "<+00>0", "XYZ0"])
    sign = "-" if off > 0 else "+"
    a = abs(off)
    name = "<%s%02d%02d>" % ("+" if off >= 0 else "-", a // 60, a % 60)
    if not canonical and rng.random() < 0.3:
        name = rng.choice(["XYZ", "LMT", "ABCDE"])
    hhmm = "%d:%02d" % (a // 60, a % 60) if (a % 60 or rng.random() < 0.5) else "%d" % (a // 60)
    return name + sign + hhmm


def parse_date(s):
    m = _DATE_RE.match(s) if isinstance(s, str) else None
    if not m:
        return {"bad": True}
    g = m.groups()
    return {"wd": g[0], "d": int(g[1]), "mon": g[2], "y": int(g[3]), "hh": int(g[4]), "mm": int(g[5]), "ss": int(g[6]),
            "sign": g[7], "zh": int(g[8]), "zm": int(g[9])}


def ts_arg(rng, days, sod, plain=False):
    """a timestamp argument for days * 86400 + sod: int, or float with an exactly representable fraction"""
    t = days * 86400 + sod
    if plain or rng.random() < 0.5:
        return ["int", str(t)]
    frac = rng.choice([0.0, 0.0, 0.25, 0.5, 0.75, 0.125])
    return ["float", repr(float(t) + frac)]


# ------------------------------------------------------------------ (a) releases

_REPR_RE = re.compile(r"^([A-Za-z_][A-Za-z_0-9]*)\((.*)\)$", re.S)


def parse_repr(s):
    m = _REPR_RE.match(s) if isinstance(s, str) else None
    if not m:
        return "?", None
    try:
        lit = ast.literal_eval(m.group(2))
    except Exception:
        return m.group(1), None
    return m.group(1), lit if isinstance(lit, str) else None


def orders_for(rng, n, kind):
    """n strictly increasing concrete orders of one totally ordered type (rank i -> orders[i])"""
    if kind == "small":
        return list(range(n))
    if kind == "int":
        pool = set()
        for b in NUM_B:
            pool.update([b - 1, b, b + 1, -b, -b - 1])
        while len(pool) < 4 * n + 8:
            pool.add(rng.randint(-2 ** 70, 2 ** 70))
        xs = sorted(rng.sample(sorted(pool), n))
        return xs
    if kind == "float":
        xs = set()
        while len(xs) < n:
            xs.add(rng.choice([rng.uniform(-1e3, 1e3), rng.uniform(-1e300, 1e300), float(rng.randint(-5, 5)), rng.random() * 1e-300]))
        return [["float", repr(x)] for x in sorted(xs)]
    if kind == "str":
        xs = set()
        while len(xs) < n:
            xs.add(gen_text(rng, "free", 1))
        return [["str", x] for x in sorted(xs)]
    if kind == "tuple":
        xs = set()
        while len(xs) < n:
            xs.add((rng.randint(0, 3), rng.randint(-2 ** 33, 2 ** 33)))
        return [["tuple", list(x)] for x in sorted(xs)]
    raise core.MachineryError("order kind " + kind)
