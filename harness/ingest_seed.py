#!/venv/bin/python
"""Moves the deliverables of a seeding sub-agent into /verif/seeded/<PROP>-seed<L>/ and writes meta.json.
usage: ingest_seed.py <worktree> <PROP> <letter> [<letter> ...] [--round N]
(the worktree holds seed_<L>/{patch.diff,demo.py,NOTES.md}); afterwards run harness/seeded.py <PROP>-seed<L>
(with the repository's tests) to confirm the change and to see whether the check detects it."""
import json
import os
import shutil
import sys

VERIF = os.path.dirname(os.path.dirname(os.path.abspath(__file__)))


def main():
    args = [a for a in sys.argv[1:] if not a.startswith("--")]
    rnd = sys.argv[sys.argv.index("--round") + 1] if "--round" in sys.argv else "4"
    wt, prop, letters = args[0], args[1].upper(), [a for a in args[2:] if a != rnd]
    for L in letters:
        src = os.path.join(wt, "seed_" + L)
        dst = os.path.join(VERIF, "seeded", "%s-seed%s" % (prop, L))
        os.makedirs(dst, exist_ok=True)
        for f in ("patch.diff", "demo.py", "NOTES.md"):
            shutil.copy(os.path.join(src, f), os.path.join(dst, f))
        notes = open(os.path.join(dst, "NOTES.md")).read()
        meta = {
            "property": prop,
            "origin": "round %s: fresh sub-agent given only the property text, a scratch worktree, the list of "
                      "hard-to-find styles, the request that the change look like a plausible maintainer commit "
                      "(shortcut, refactoring, new option, robustness fix) and the mechanisms already used; "
                      "no access to /verif" % rnd,
            "needs_to_manifest": "see NOTES.md",
            "notes_excerpt": notes[:600],
            "ran": {},
        }
        json.dump(meta, open(os.path.join(dst, "meta.json"), "w"), indent=1)
        print("ingested", dst)


if __name__ == "__main__":
    main()
