"""C19 helpers: concretization of an abstract update_file behaviour (spec/UpdateFile.tla input record
`in`) into a file:// repository + local file + injected fault, execution of the real
debian.debian_support.update_file with observation of the file system, and projection of what was
observed back to the content ids of the specification.

Nothing in here decides what the outcome *should* be: expected outcomes come from TLC (CASE lines of
UpdateFile / acceptance by TraceUpdateFile).  The only "semantic" code is the independent differ that
produces ed scripts (difflib opcodes emitted bottom-up, optionally /usr/bin/diff -e)."""
import builtins
import difflib
import errno
import gzip
import hashlib
import io
import os
import pickle
import shutil
import subprocess

ABSENT, GARBAGE, FOREIGN = -2, -1, 0
NAME = "Packages"

FS_ACTS = ("OpenNew", "WriteNew", "CloseNew", "Rename", "CleanupNew")
NET_ACTS = ("FetchIndex", "DownloadPatch", "FullDownload")

# ------------------------------------------------------------------ text generation

POOL = ["Package: foo\n", "Version: 1:4.14-2\n", "Depends: a (>= 1), b | c\n", "\n", " continued line\n",
        "..\n", ".x\n", "1d\n", "2,3c\n", "a\n", " .\n", "0a\n", "w\n", "\tTabbed\n", "trailing space \n",
        "1,$d\n", "s/.//\n", ". \n", "Installed-Size: 43\n", "Description: short text\n", " .\n", "...\n"]
POOL_UTF8 = ["Maintainer: José Muñoz <j@example.org>\n", "Description: 中文 café\n", " \n"]
ALPHA = "abcdefghijklmnopqrstuvwxyzABCDEFGHIJKLMNOPQRSTUVWXYZ0123456789 .:,-+~()<>=|/_#%"


# characters str.splitlines() treats as line boundaries but the file format does not: a line of a
# published text may contain them (start / middle / before the final newline)
SPLIT_ASCII = ["\x0b", "\x0c", "\x1c", "\x1d", "\x1e"]
SPLIT_WIDE = ["\x85", "\u2028", "\u2029"]


def split_nl(text):
    """lines of a text, cut at '\n' only, newlines kept"""
    parts = text.split("\n")
    out = [x + "\n" for x in parts[:-1]]
    if parts[-1]:
        out.append(parts[-1])
    return out


def special_line(rng, ascii_only=False):
    ch = rng.choice(SPLIT_ASCII + (SPLIT_WIDE if utf8_ok() and not ascii_only else []))
    body = "".join(rng.choice(ALPHA) for _ in range(rng.randint(1, 12)))
    form = rng.randrange(5)
    if form == 0:
        return ch + body + "\n"
    if form == 1:
        return body + ch + "\n"
    if form == 2:
        return ch + "\n"
    if form == 3:
        return body[:len(body) // 2] + ch + body[len(body) // 2:] + ch + "\n"
    return body[:len(body) // 2] + ch + body[len(body) // 2:] + "\n"


def utf8_ok():
    import locale
    return (locale.getpreferredencoding(False) or "").lower().replace("-", "") == "utf8"


LONG = [False]     # set per scenario: some lines are several hundred characters long


def rand_line(rng, uniq=None):
    r = rng.random()
    if r > 0.9:
        return special_line(rng)
    if LONG[0] and r < 0.6:
        s = "".join(rng.choice(ALPHA) for _ in range(rng.randint(300, 700))) + "\n"
    elif r < 0.45:
        s = rng.choice(POOL)
    elif r < 0.5 and utf8_ok():
        s = rng.choice(POOL_UTF8)
    else:
        s = "".join(rng.choice(ALPHA) for _ in range(rng.randint(1, 24))) + "\n"
    if uniq is not None and rng.random() < 0.5:
        s = "L%d %s" % (uniq, s)
    if s == ".\n":          # D7: an ed text block cannot carry this line
        s = "..\n"
    return s


def mutate(rng, lines, nedits=None):
    out = list(lines)
    for _ in range(nedits if nedits is not None else rng.randint(1, 4)):
        op = rng.choice("idr") if out else "i"
        pos = rng.randint(0, len(out))
        if op == "i":
            out[pos:pos] = [rand_line(rng) for _ in range(rng.randint(1, 3))]
        elif op == "d":
            del out[max(0, pos - 1):pos - 1 + rng.randint(1, 3)]
        else:
            k = rng.randint(1, 2)
            out[max(0, pos - 1):max(0, pos - 1) + k] = [rand_line(rng) for _ in range(rng.randint(1, 2))]
    return out


def make_texts(rng, hist, nw, maxlen, forced=None):
    """one text (list of lines) per content id of hist; the current content (last of hist) has exactly
    nw lines, ids in `forced` have the given number of lines; different ids get different texts,
    successive versions are related by small edits"""
    forced = dict(forced or {})
    if nw is not None:
        forced[hist[-1]] = nw
    texts = {}
    # for a third of the histories: a line containing a character that str.splitlines() (but not the
    # file format) treats as a boundary is ADDED at the top by the second version and stays there,
    # so that the later patches of a chain edit lines BELOW it
    top = special_line(rng) if rng.random() < 0.35 else None
    for _attempt in range(300):
        texts = {}
        base = [rand_line(rng, i) for i in range(rng.randint(0, maxlen))]
        prev = base
        ok = True
        for c in hist:
            if c in texts:
                prev = texts[c]
                continue
            t = mutate(rng, prev) if rng.random() < 0.85 else [rand_line(rng) for _ in range(rng.randint(0, maxlen))]
            if top is not None:
                if t and t[0] == top:
                    t = t[1:]
                if texts:
                    t = [top] + t
            if c in forced:
                t = t[:forced[c]]
                if top is not None and forced[c] == 1 and t == [top]:
                    t = [top[:-1] + "%d\n" % c]      # single-line texts must stay different from each other
                while len(t) < forced[c]:
                    t.insert(rng.randint(1 if (top is not None and t) else 0, len(t)), rand_line(rng))
            else:
                t = t[:maxlen]
            if any(t == o for o in texts.values()):
                ok = False
                break
            texts[c] = t
            prev = t
        if ok:
            return texts
    raise RuntimeError("could not draw distinct texts")    # caller turns this into MachineryError


def make_foreign(rng, texts, maxlen):
    for _ in range(200):
        r = rng.random()
        if r < 0.4 and texts:
            t = "".join(mutate(rng, rng.choice(list(texts.values()))))
        elif r < 0.5:
            t = ""
        else:
            t = "".join(rand_line(rng) for _ in range(rng.randint(1, maxlen)))
        if t and rng.random() < 0.25:
            t = t[:-1]                      # a local file whose last line is not terminated
        if all(t != "".join(o) for o in texts.values()):
            return t
    raise RuntimeError("could not draw a foreign text")


# ------------------------------------------------------------------ size stress (notes/SIZE_STRESS.md)
# The abstract case (content ids, number of distinguished writes) does not change; the concretization
# gets a size dimension: line counts 0 / 1 / 1000 / 100000, file sizes around 8 KiB / 64 KiB / 1 MiB /
# 16 MiB, line lengths and patch-name lengths in boundary neighbourhoods, index size columns of up
# to 12 digits, long histories.  TLC's expectation is length-independent by construction.

BOUNDARY_LENS = [1, 2, 7, 8, 9, 15, 16, 17, 31, 32, 33, 63, 64, 65, 71, 72, 73, 79, 80, 81, 127, 128, 129,
                 255, 256, 257, 1023, 1024, 1025, 4095, 4096, 4097, 8191, 8192, 8193]
BIG_LENS = [65535, 65536, 65537]
BYTE_OFFSETS = [4095, 4096, 4097, 8191, 8192, 8193, 65535, 65536, 65537]
_ALPHA64 = b"ABCDEFGHIJKLMNOPQRSTUVWXYZabcdefghijklmnopqrstuvwxyz0123456789 -"      # no '.', no line break
_TABLE = bytes(_ALPHA64[b % 64] for b in range(256))


def blob(rng, n):
    return rng.randbytes(n).translate(_TABLE).decode("ascii") if n else ""


def big_lines(rng, lengths):
    """newline-terminated lines with the given content lengths (random, hardly compressible text)"""
    b = blob(rng, sum(lengths))
    out, p = [], 0
    for n in lengths:
        out.append(b[p:p + n] + "\n")
        p += n
    return out


def length_list(rng, nlines, spec, total=None):
    """content lengths for nlines lines.  spec: int L -> L-1, L, L+1 cycling; 'short' -> boundary
    lengths <= 33; 'mixed' -> any boundary length <= 1025; total -> exactly that many bytes in all"""
    if nlines == 0:
        return []
    if total is not None:
        per = max(0, total // nlines - 1)
        ls = [per] * nlines
        rest = total - (per + 1) * nlines
        ls[-1] = max(0, ls[-1] + rest)
        return ls
    if isinstance(spec, int):
        return [max(0, spec + (j % 3) - 1) for j in range(nlines)]
    pool = [x for x in BOUNDARY_LENS if x <= (33 if spec == "short" else 1025)] + [0]
    return [rng.choice(pool) for _ in range(nlines)]


def make_texts_big(rng, ids, forced, prof):
    """texts for size-stressed concretizations.  forced: id -> abstract number of writes (0: empty
    file, 1: a single line, >= 2: prof['n'] lines); other ids are small edits of their predecessor"""
    n = max(2, prof.get("n", 1000))
    if prof.get("identical"):
        one = blob(rng, prof.get("len", 1) if isinstance(prof.get("len"), int) else 1) + "\n"
        base = [one] * n
    else:
        base = big_lines(rng, length_list(rng, n, prof.get("len", "short"), prof.get("total")))
        if rng.random() < 0.5:      # a line with a splitlines()-only boundary at the top: the edits happen below it
            base[0] = special_line(rng, ascii_only=True)
    texts, prev = {}, base
    for c in ids:
        if c in texts:
            prev = texts[c]
            continue
        for _attempt in range(50):
            t = list(prev if len(prev) >= 2 else base)
            for _ in range(rng.randint(1, 3)):
                pos = rng.randrange(len(t) + 1)
                op = rng.choice("idr")
                new = big_lines(rng, [rng.choice(BOUNDARY_LENS[:15]) for _ in range(rng.randint(1, 2))])
                if rng.random() < 0.15:
                    new[0] = special_line(rng, ascii_only=True)
                if op == "i" or not t:
                    t[pos:pos] = new
                elif op == "d":
                    del t[max(0, pos - 1):pos - 1 + rng.randint(1, 2)]
                else:
                    t[max(0, pos - 1):max(0, pos - 1) + 1] = new
            a = forced.get(c)
            if a is None and not t:         # only a forced text may be empty (texts are pairwise different)
                t = big_lines(rng, [rng.choice(BOUNDARY_LENS[:15])])
            if a == 0:
                t = []
            elif a == 1:
                t = big_lines(rng, [prof.get("one_line_len", rng.choice(BOUNDARY_LENS))])
            elif a is not None:
                t = t[:n]
                while len(t) < n:
                    t.append(base[len(t) % len(base)])
                if prof.get("total") is not None:       # exactly that many bytes
                    size = sum(len(x) for x in t)
                    last = len(t[-1]) - 1 + (prof["total"] - size)
                    if last >= 0:
                        t[-1] = blob(rng, last) + "\n"
            if all(t != o for o in texts.values()):
                break
        else:
            raise RuntimeError("could not draw distinct big texts")
        texts[c] = t
        prev = t
    return texts


def patch_name_len(i, length):
    """a patch name of (about) the given length, unique per i"""
    digits = "0123456789abcdefghijklmnopqrstuvwxyz"
    core, x = "", i
    while True:
        core = digits[x % 36] + core
        x //= 36
        if not x:
            break
    filler = "-2024-03-01-1405-t" * 20
    return (core + filler)[:max(length, len(core))]


def write_map(rng, a, n, failing=None):
    """abstract write numbers 1..a on a file of n lines: the distinguished concrete writes
    (1 = first, a = last, or the failing one when the a-th write is the one that fails).
    Returns {concrete write number: abstract write number}"""
    if a == n or a == 0:
        return None
    if a == 1:
        return {1: 1}
    mids = sorted(rng.sample(range(2, n), a - 2)) if a > 2 else []
    last = n
    if failing == a:        # the n-th write for a large n
        lo = (mids[-1] if mids else 1) + 1
        last = rng.randint(max(lo, (3 * n) // 4), n)
    cs = [1] + mids + [last]
    return {c: j + 1 for j, c in enumerate(cs)}


# ------------------------------------------------------------------ independent differ

def ed_script(old, new, style="merged"):
    """ed script (list of lines) turning old into new: difflib opcodes emitted bottom-up"""
    out = []
    ops = difflib.SequenceMatcher(None, old, new, autojunk=False).get_opcodes()
    for tag, i1, i2, j1, j2 in reversed(ops):
        if tag == "equal":
            continue

        def rng_(a, b):
            return "%d" % a if a == b else "%d,%d" % (a, b)
        if tag == "insert":
            out += ["%da\n" % i1] + new[j1:j2] + [".\n"]
        elif tag == "delete":
            out += ["%sd\n" % rng_(i1 + 1, i2)]
        elif style == "split":
            out += ["%da\n" % i2] + new[j1:j2] + [".\n", "%sd\n" % rng_(i1 + 1, i2)]
        else:
            out += ["%sc\n" % rng_(i1 + 1, i2)] + new[j1:j2] + [".\n"]
    return out


def diff_e(workdir, old, new):
    """script from /usr/bin/diff -e (None when diff is not usable for this pair)"""
    a, b = os.path.join(workdir, "diff-a-%d" % os.getpid()), os.path.join(workdir, "diff-b-%d" % os.getpid())
    with open(a, "w", encoding="utf-8", newline="") as f:
        f.write("".join(old))
    with open(b, "w", encoding="utf-8", newline="") as f:
        f.write("".join(new))
    p = subprocess.run(["diff", "-e", "--text", a, b], capture_output=True)
    os.unlink(a)
    os.unlink(b)
    if p.returncode not in (0, 1):
        return None
    return [p.stdout.decode("utf-8")]          # callers join; never cut at anything but what diff wrote


# ------------------------------------------------------------------ repository

def _hash(flavour, data):
    return (hashlib.sha1 if flavour == "SHA1" else hashlib.sha256)(data).hexdigest()


def _gz(data):
    return gzip.compress(data, compresslevel=1 if len(data) > (1 << 21) else 9, mtime=0)


def patch_name(i, style):
    return ("2024-03-%02d-1405.%02d" % (i, i)) if style == 0 else "%s.%d" % (NAME, i)


def build_scenario(rng, inp, canonical=False, maxlen=6, use_diff=None, inject_mode="wrap",
                   texts=None, foreign=None, base=None, style=None, stress=None):
    """concretize the abstract input record of UpdateFile.tla; returns a JSON-able scenario:
    files (relative path -> bytes) of the repository, local0 bytes or None, texts per id, the
    injection to perform.  `canonical`: plainest possible choices (attributes a failure to structure
    before payload)."""
    hist, h0, nw = list(inp["hist"]), inp["h0"], inp["nw"]
    fault = inp["fault"]
    flav = [f for f in ("SHA1", "SHA256") if f in inp["flav"]]
    n = len(hist) - 1
    cur = hist[-1]
    if texts is None:
        texts = make_texts(rng, hist, nw, max(maxlen, nw))
    if foreign is None:
        foreign = make_foreign(rng, texts, maxlen)
    if style is None:
        style = 0 if canonical else rng.randint(0, 1)
    stress = stress or {}
    big = bool(stress)
    files = {}
    cur_bytes = "".join(texts[cur]).encode("utf-8")
    files[NAME + ".gz"] = _gz(cur_bytes)
    if (canonical or rng.random() < 0.5) and not big:
        files[NAME] = cur_bytes
    # patches i = 1..n : hist[i-1] -> hist[i]   (1-based like the specification: patch i turns
    # version i into version i+1, versions numbered from 1)
    scripts = {}
    for i in range(1, n + 1):
        old, new = texts[hist[i - 1]], texts[hist[i]]
        if base is not None and i < len(base["in"]["hist"]) and base["in"]["hist"][i - 1:i + 1] == hist[i - 1:i + 1]:
            scripts[i] = base["scripts"][str(i)]       # a published patch does not change any more
            continue
        sc = None
        if use_diff is not None and (rng.random() < 0.5 or len(old) + len(new) > 400):
            sc = diff_e(use_diff, old, new)
            if sc is None and len(old) + len(new) > 400:
                raise RuntimeError("diff -e is needed for large texts")
        if sc is None:
            sc = ed_script(old, new, "merged" if canonical or rng.random() < 0.7 else "split")
        scripts[i] = "".join(sc)
    note = {}
    served = dict(scripts)           # what the index describes
    if fault["k"] == "badLastPatch":
        for _ in range(200):
            w = mutate(rng, texts[cur], 1 if canonical else None)
            if w != texts[cur]:
                break
        else:
            raise RuntimeError("no wrong result")
        wsc = diff_e(use_diff, texts[hist[n - 1]], w) if (use_diff is not None and len(w) > 200) else None
        served[n] = "".join(wsc if wsc is not None else ed_script(texts[hist[n - 1]], w))
        note["wrong_result"] = "".join(w) if len(w) < 50 else "(%d lines)" % len(w)
    if stress.get("name_len"):
        pnames = {i: patch_name_len(i, stress["name_len"]) for i in range(1, n + 1)}
    else:
        pnames = {i: patch_name(i, style) for i in range(1, n + 1)}
    listed = list(range(h0 + 1, n + 1))
    for i in range(1, n + 1):
        if i in listed or canonical or rng.random() < 0.5:
            files["%s.diff/%s.gz" % (NAME, pnames[i])] = _gz(served[i].encode("utf-8"))
    if fault["k"] == "patchCorrupt":
        i = fault["i"]
        good = served[i]
        variants = ["junk", "flip", "drop_last", "empty", "other"]
        v = "flip" if canonical else rng.choice(variants)
        bad = good
        ls = split_nl(good)
        if v == "flip" and good:
            j = rng.randrange(len(ls))
            line = ls[j]
            p = rng.randrange(max(1, len(line) - 1))
            ch = "7" if line[p] != "7" else "8"
            ls[j] = line[:p] + ch + line[p + 1:]
            bad = "".join(ls)
        elif v == "drop_last" and good:
            bad = "".join(ls[:-1])
        elif v == "empty":
            bad = ""
        elif v == "other" and n >= 2:
            bad = served[i % n + 1]
        if bad == good:
            bad = good + "garbage\n"
        note["corrupt"] = v
        files["%s.diff/%s.gz" % (NAME, pnames[i])] = _gz(bad.encode("utf-8"))
    if fault["k"] == "patchTruncated":
        i = fault["i"]
        g = _gz(served[i].encode("utf-8"))
        cuts = [len(g) - 1, len(g) - 8, len(g) // 2, 10, 1, 0]
        cut = cuts[0] if canonical else rng.choice(cuts + [rng.randrange(len(g))])
        cut = max(0, min(cut, len(g) - 1))
        if served[i] == "":
            cut = max(1, cut)       # zero bytes read back as an empty file: for an empty patch that is no fault
        note["cut"] = "%d/%d" % (cut, len(g))
        files["%s.diff/%s.gz" % (NAME, pnames[i])] = g[:cut]
    # the index
    extra_download = (not canonical) and rng.random() < 0.3 and not big
    digits = stress.get("digits")
    shuffle = (not canonical) and rng.random() < 0.4
    pad = (not canonical) and rng.random() < 0.5
    sections = []
    for fl in flav:
        vb = lambda c: "".join(texts[c]).encode("utf-8")     # noqa: E731
        curh = _hash(fl, cur_bytes)
        if fault["k"] == "wrongResultHash":
            curh = _hash(fl, b"not the current content " + bytes([rng.randrange(256)]) + cur_bytes)
        def ent(h, size, nm=None):
            txt = str(size).zfill(digits) if digits else str(size)       # same number, up to 12 digits
            return "%s %s%s" % (h, txt.rjust(9) if pad else txt, "" if nm is None else " " + nm)
        sec = [("%s-Current" % fl, ent(curh, len(cur_bytes)), [])]
        sec.append(("%s-History" % fl, "", [" " + ent(_hash(fl, vb(hist[i - 1])), len(vb(hist[i - 1])), pnames[i]) for i in listed]))
        sec.append(("%s-Patches" % fl, "", [" " + ent(_hash(fl, served[i].encode("utf-8")), len(served[i].encode("utf-8")), pnames[i]) for i in listed]))
        if extra_download:
            sec.append(("%s-Download" % fl, "", [" " + ent(_hash(fl, _gz(served[i].encode("utf-8"))), len(_gz(served[i].encode("utf-8"))), pnames[i] + ".gz") for i in listed]))
        if shuffle:
            rng.shuffle(sec)
        sections.append(sec)
    if shuffle:
        rng.shuffle(sections)
    text = ""
    for sec in sections:
        for (name, first, cont) in sec:
            text += "%s:%s\n" % (name, (" " + first) if first else "")
            text += "".join(c + "\n" for c in cont)
    index = text.encode("utf-8")
    k = fault["k"]
    if k == "indexGarbage":
        forms = [b"<html><head><title>404 Not Found</title></head></html>\n",
                 b"\n" + index,
                 index + b"this line is not a field\n",
                 b"SHA1-Current d817a9c2cd306fb746ac986cc443117d0c9b5b03 3873\n",
                 b": no field name\n" + index,
                 index.replace(b"-History:", b"-History", 1)]
        g = forms[0] if canonical else rng.choice(forms)
        note["garbage"] = forms.index(g)
        files["%s.diff/Index" % NAME] = g
    elif k == "indexEmpty":
        files["%s.diff/Index" % NAME] = b""
    elif k == "indexMissing":
        if not canonical and rng.random() < 0.3:
            files = {p: d for p, d in files.items() if not p.startswith(NAME + ".diff/")}
            note["nodiffdir"] = True
    else:
        files["%s.diff/Index" % NAME] = index
    # the local copy
    l0 = inp["local0"]
    if l0 == ABSENT:
        local0 = None
    elif l0 == FOREIGN:
        local0 = foreign.encode("utf-8")
    else:
        local0 = "".join(texts[l0]).encode("utf-8")
    # the injection.  The abstract number of writes nw counts DISTINGUISHED writes: for an ordinary
    # concretization the text has exactly nw lines; a size-stressed one has many more and wmap says
    # which concrete write calls are the distinguished ones (first, ..., last or failing)
    inject = {"mode": "none"}
    nlines = len(texts[cur])
    failing = fault["i"] if k == "writeFails" else None
    wmap = write_map(rng, nw, nlines, failing) if nlines != nw else None
    conc = {a: c for c, a in wmap.items()} if wmap else None
    if k == "renameFails":
        inject = {"mode": "wrap", "what": "rename"}
    elif k == "writeFails":
        j = fault["i"]
        if inject_mode == "rlimit" and 1 <= j <= nw:
            lines_b = [x.encode("utf-8") for x in texts[cur]]
            cj = conc[j] if conc else j
            before = sum(len(x) for x in lines_b[:cj - 1])
            limit = before + (0 if canonical else rng.randrange(len(lines_b[cj - 1])))
            if stress.get("rlimit_at") is not None and stress["rlimit_at"] < len(cur_bytes):
                limit = stress["rlimit_at"]         # a byte offset in a boundary neighbourhood
            inject = {"mode": "rlimit", "limit": limit}
        elif j == 0:
            inject = {"mode": "wrap", "what": "open"}
        elif j == nw + 1:
            inject = {"mode": "wrap", "what": "close"}
        else:
            inject = {"mode": "wrap", "what": "write", "k": conc[j] if conc else j,
                      "partial": (not canonical) and rng.random() < 0.5}
    if wmap:
        note["lines"] = nlines
        note["bytes"] = len(cur_bytes)
    return {"in": inp, "files": files, "local0": local0, "foreign": foreign,
            "texts": {str(c): "".join(t) for c, t in texts.items()},
            "patch_names": {str(i): nm for i, nm in pnames.items()}, "inject": inject, "note": note,
            "scripts": {str(i): t for i, t in scripts.items()}, "style": style,
            "wmap": {str(c): a for c, a in wmap.items()} if wmap else None}


# ------------------------------------------------------------------ execution

class Recorder:
    """wraps open / os.rename / os.replace / os.unlink / os.remove and urllib's urlopen / urlretrieve
    for the duration of one call: logs the steps that concern local + '.new' and the repository
    URLs, takes a snapshot of the local file at each step, and injects the requested fault"""

    def __init__(self, local, remote, patch_names, inject, wmap=None):
        self.wmap = {int(c): a for c, a in wmap.items()} if wmap else None
        self.local = os.path.abspath(local)
        self.new = self.local + ".new"
        self.remote = remote
        self.pn = {nm: int(i) for i, nm in patch_names.items()}
        self.inject = inject if inject.get("mode") == "wrap" else {}
        self.events = []
        self.fired = False
        self.nwrites = 0
        self.saw_fs = False
        self.saw_net = False
        self._nested = False

    # ---- helpers
    def _is(self, path, target):
        try:
            if isinstance(path, int):
                return False
            p = os.fspath(path)
            if isinstance(p, bytes):
                p = os.fsdecode(p)
            return os.path.abspath(p) == target
        except Exception:
            return False

    def snap(self):
        try:
            with self._open(self.local, "rb") as f:
                return f.read()
        except OSError:
            return None

    def log(self, a, i=0):
        self.events.append({"a": a, "i": i, "snap": self.snap()})
        if a in FS_ACTS:
            self.saw_fs = True
        else:
            self.saw_net = True

    def _classify(self, url):
        if not isinstance(url, str):
            url = getattr(url, "full_url", str(url))
        if url == self.remote + ".diff/Index":
            self.log("FetchIndex")
        elif url == self.remote + ".gz":
            self.log("FullDownload")
        elif url.startswith(self.remote + ".diff/") and url.endswith(".gz"):
            nm = url[len(self.remote + ".diff/"):-3]
            self.log("DownloadPatch", self.pn.get(nm, -1))

    # ---- wrappers
    def w_open(self, file, mode="r", *a, **kw):
        if self._is(file, self.new) and any(c in mode for c in "wax+"):
            self.log("OpenNew")
            if self.inject.get("what") == "open":
                self.fired = True
                raise OSError(errno.EACCES, "injected: cannot create", self.new)
            return NewFile(self._open(file, mode, *a, **kw), self)
        return self._open(file, mode, *a, **kw)

    def w_rename(self, src, dst, *a, **kw):
        return self._mv(self._rename, src, dst, a, kw)

    def w_replace(self, src, dst, *a, **kw):
        return self._mv(self._replace, src, dst, a, kw)

    def _mv(self, real, src, dst, a, kw):
        if self._is(src, self.new) or self._is(dst, self.local):
            self.log("Rename")
            if self.inject.get("what") == "rename":
                self.fired = True
                raise OSError(errno.EXDEV, "injected: rename failed", self.new)
        return real(src, dst, *a, **kw)

    def w_unlink(self, path, *a, **kw):
        if self._is(path, self.new):
            self.log("CleanupNew", 1)
        return self._unlink(path, *a, **kw)

    def w_remove(self, path, *a, **kw):
        if self._is(path, self.new):
            self.log("CleanupNew", 1)
        return self._remove(path, *a, **kw)

    def w_urlopen(self, url, *a, **kw):
        if not self._nested:
            self._classify(url)
        return self._urlopen(url, *a, **kw)

    def w_urlretrieve(self, url, *a, **kw):
        self._classify(url)
        self._nested = True          # urlretrieve calls urlopen itself
        try:
            return self._urlretrieve(url, *a, **kw)
        finally:
            self._nested = False

    def __enter__(self):
        import urllib.request
        self._open, self._ioopen = builtins.open, io.open
        self._rename, self._replace, self._unlink, self._remove = os.rename, os.replace, os.unlink, os.remove
        self._urlopen, self._urlretrieve = urllib.request.urlopen, urllib.request.urlretrieve
        builtins.open = io.open = self.w_open
        os.rename, os.replace, os.unlink, os.remove = self.w_rename, self.w_replace, self.w_unlink, self.w_remove
        urllib.request.urlopen, urllib.request.urlretrieve = self.w_urlopen, self.w_urlretrieve
        return self

    def __exit__(self, *exc):
        import urllib.request
        builtins.open, io.open = self._open, self._ioopen
        os.rename, os.replace, os.unlink, os.remove = self._rename, self._replace, self._unlink, self._remove
        urllib.request.urlopen, urllib.request.urlretrieve = self._urlopen, self._urlretrieve
        return False


class NewFile:
    """proxy for the file object opened on local + '.new'"""

    def __init__(self, f, rec):
        self._f = f
        self._rec = rec
        self._closed = False

    def write(self, s):
        r = self._rec
        r.nwrites += 1
        if r.wmap is None:
            r.log("WriteNew", r.nwrites)
        elif r.nwrites in r.wmap:           # size-stressed text: only the distinguished writes are steps
            r.log("WriteNew", r.wmap[r.nwrites])
        if r.inject.get("what") == "write" and r.inject.get("k") == r.nwrites:
            r.fired = True
            if r.inject.get("partial") and len(s) > 1:
                self._f.write(s[:len(s) // 2])
                self._f.flush()
            raise OSError(errno.ENOSPC, "injected: no space left on device", r.new)
        return self._f.write(s)

    def writelines(self, ls):
        for x in ls:
            self.write(x)

    def close(self):
        if self._closed:
            return
        self._closed = True
        r = self._rec
        if not r.fired:
            r.log("CloseNew")
        self._f.close()
        if r.inject.get("what") == "close" and not r.fired:
            r.fired = True
            raise OSError(errno.EIO, "injected: close failed", r.new)

    def __enter__(self):
        return self

    def __exit__(self, *exc):
        self.close()
        return False

    def __iter__(self):
        return iter(self._f)

    def __getattr__(self, name):
        return getattr(self._f, name)


def _empty(d):
    """remove everything inside directory d (created if missing), keep d itself"""
    if not os.path.isdir(d):
        os.makedirs(d)
        return
    for e in os.scandir(d):
        if e.is_dir(follow_symlinks=False):
            shutil.rmtree(e.path)
        else:
            os.unlink(e.path)


def materialize(casedir, sc, repo_name="repo", keep_local=False):
    """write the scenario into casedir.  casedir is re-used from case to case by one process (creating
    and removing directories is slow on this file system): its content is wiped first.  keep_local:
    a later call of the same behaviour -- the local directory is left as the previous call left it"""
    repo = os.path.join(casedir, repo_name)
    diffd = os.path.join(repo, NAME + ".diff")
    ldir = os.path.join(casedir, "local")
    tmpd = os.path.join(casedir, "tmp")
    want_diffd = any(rel.startswith(NAME + ".diff/") for rel in sc["files"])
    if os.path.isdir(diffd):
        _empty(diffd)
        if not want_diffd:
            os.rmdir(diffd)
    for d in (repo, tmpd) if keep_local else (repo, ldir, tmpd):
        if os.path.isdir(d):
            for e in os.scandir(d):
                if e.path != diffd:
                    if e.is_dir(follow_symlinks=False):
                        shutil.rmtree(e.path)
                    else:
                        os.unlink(e.path)
        else:
            os.makedirs(d)
    if want_diffd and not os.path.isdir(diffd):
        os.mkdir(diffd)
    for rel, data in sc["files"].items():
        with open(os.path.join(repo, rel), "wb") as f:
            f.write(data)
    if not keep_local:
        other = os.path.join(casedir, "repo2")
        if os.path.isdir(other):
            shutil.rmtree(other)
        if sc["local0"] is not None:
            with open(os.path.join(ldir, NAME), "wb") as f:
                f.write(sc["local0"])
        # every behaviour gets URLs and a local path of its own (symbolic links onto the re-used
        # directories): state that the code under test might keep per URL / per file name can then
        # leak between the calls of ONE behaviour only, and a recorded case reproduces in isolation
        for e in os.scandir(casedir):
            if e.is_symlink():
                os.unlink(e.path)
        _SEQ[0] += 1
        os.symlink("local", os.path.join(casedir, "l%d" % _SEQ[0]))
    api = sc.get("api") or {}
    uform = api.get("url", "plain")
    lname = "u%d%s%s" % (_SEQ[0], "" if repo_name == "repo" else "b", " sp+\u00e9~" if uform in ("pct", "rawspace") else "")
    link = os.path.join(casedir, lname)
    if not os.path.islink(link):
        os.symlink(repo_name, link)
    local = os.path.join(casedir, "l%d" % _SEQ[0], NAME)
    return url_of(link, uform), local, tmpd


def url_of(link, form):
    """file:// URL of <link>/Packages in one of the equivalent spellings"""
    from urllib.parse import quote
    path = os.path.join(link, NAME)
    if form == "localhost":
        return "file://localhost" + path
    if form == "pct":               # directory name with a space, '+', a non-ASCII letter: percent-encoded
        return "file://" + quote(path)
    if form == "rawspace":          # the same directory name, only the non-ASCII letter encoded
        return "file://" + quote(path, safe="/ +~")
    if form == "dotseg":
        return "file://" + link + "/./" + NAME
    if form == "dblslash":
        return "file://" + link + "//" + NAME
    return "file://" + path


_SEQ = [0]


ENTRY_FNS = {"update_file": ("update_file", "updateFile"), "download_file": ("download_file", "downloadFile"),
             "replace_file": ("replace_file", "replaceFile")}
VERBOSE_FORMS = ("default", "kw-false", "kw-true", "pos-true", "kw-none")
URL_FORMS = ("plain", "localhost", "pct", "dotseg", "dblslash", "rawspace")
LOCAL_FORMS = ("abs", "rel", "rel-dot")


def api_variant(entry, k):
    """the k-th way of calling the entry point (rotating over public name / deprecated alias, the
    spellings of verbose, of the URL and of the local path, positional / keyword arguments)"""
    fns = ENTRY_FNS[entry]
    return {"entry": entry, "fn": fns[k % 2], "verbose": VERBOSE_FORMS[(k // 2) % 5], "url": URL_FORMS[(k // 3) % 6],
            "local": LOCAL_FORMS[(k // 5) % 3], "kw": (k // 7) % 2 == 1}


PLAIN_API = {"entry": "update_file", "fn": "update_file", "verbose": "default", "url": "plain", "local": "abs", "kw": False}


def _call(remote, local, api=None, lines=None):
    """the call under test through the given public entry point; every exception is an observation.
    stdout (verbose=True prints) is swallowed, DeprecationWarnings of the camelCase aliases ignored"""
    import contextlib
    import warnings
    from debian import debian_support as ds
    api = api or PLAIN_API
    entry = api.get("entry", "update_file")
    cwd = os.getcwd()
    try:
        with warnings.catch_warnings(), contextlib.redirect_stdout(io.StringIO()):
            warnings.simplefilter("ignore")
            fn = getattr(ds, api["fn"])
            if api.get("local", "abs") != "abs":        # a relative local path
                os.chdir(os.path.dirname(os.path.dirname(local)))
                local = os.path.join(os.path.basename(os.path.dirname(local)), os.path.basename(local))
                if api["local"] == "rel-dot":
                    local = "./" + local
            if entry == "replace_file":
                ret = fn(lines=list(lines), local=local, encoding="UTF-8") if api.get("kw") else fn(list(lines), local)
                if ret is None:
                    ret = list(lines)               # replace_file returns nothing: the lines it was given
            elif entry == "download_file":
                ret = fn(remote=remote, local=local) if api.get("kw") else fn(remote, local)
            else:
                v = api.get("verbose", "default")
                if v == "default":
                    ret = fn(remote=remote, local=local) if api.get("kw") else fn(remote, local)
                elif v == "pos-true":
                    ret = fn(remote, local, True)
                else:
                    ret = fn(remote, local, verbose={"kw-false": False, "kw-true": True, "kw-none": None}[v])
        try:
            ret = list(ret)
        except TypeError:
            ret = repr(ret)
        return {"outcome": "returned", "exc": "none", "ret": ret}
    except KeyboardInterrupt:
        raise
    except BaseException as e:      # noqa: B036 -- an observation, whatever it is
        return {"outcome": "raised", "exc": type(e).__name__, "msg": str(e)[:200], "ret": None}
    finally:
        os.chdir(cwd)


def _call_rlimited(remote, local, limit, api=None, lines=None):
    """implementation-agnostic write fault: the call runs in a forked child whose RLIMIT_FSIZE is
    `limit` bytes with SIGXFSZ ignored (writes beyond it fail with EFBIG); the child reports through
    a pipe (a pipe is not subject to the limit)"""
    import resource
    import signal
    r, w = os.pipe()
    pid = os.fork()
    if pid == 0:
        code = 0
        try:
            os.close(r)
            soft, hard = resource.getrlimit(resource.RLIMIT_FSIZE)
            signal.signal(signal.SIGXFSZ, signal.SIG_IGN)
            resource.setrlimit(resource.RLIMIT_FSIZE, (limit, hard))
            try:
                res = _call(remote, local, api, lines)
            finally:
                resource.setrlimit(resource.RLIMIT_FSIZE, (soft, hard))
            data = pickle.dumps(res)
            while data:
                nwr = os.write(w, data)
                data = data[nwr:]
        except BaseException:       # noqa: B036
            code = 3
        finally:
            os._exit(code)
    os.close(w)
    chunks = []
    while True:
        b = os.read(r, 65536)
        if not b:
            break
        chunks.append(b)
    os.close(r)
    _, status = os.waitpid(pid, 0)
    if status != 0 or not chunks:
        raise RuntimeError("rlimit child failed (status %r)" % status)
    return pickle.loads(b"".join(chunks))


def execute(casedir, sc, record=True, repo_name="repo", keep_local=False):
    """run update_file on the scenario; returns the raw observation"""
    import tempfile
    remote, local, tmpd = materialize(casedir, sc, repo_name, keep_local)
    inj = sc["inject"]
    api = sc.get("api") or PLAIN_API
    lines = split_nl(sc["texts"][str(sc["in"]["hist"][-1])])     # what replace_file is given
    old_tmp = tempfile.tempdir
    tempfile.tempdir = tmpd
    rec = None
    try:
        if inj.get("mode") == "rlimit":
            res = _call_rlimited(remote, local, inj["limit"], api, lines)
        elif record or inj.get("mode") == "wrap":
            rec = Recorder(local, remote, sc["patch_names"], inj, sc.get("wmap"))
            with rec:
                res = _call(remote, local, api, lines)
        else:
            res = _call(remote, local, api, lines)
    finally:
        tempfile.tempdir = old_tmp
    obs = dict(res)
    try:
        with open(local, "rb") as f:
            obs["local"] = f.read()
    except FileNotFoundError:
        obs["local"] = None
    obs["dotnew"] = os.path.lexists(local + ".new")
    obs["others"] = sorted(x for x in os.listdir(os.path.dirname(local)) if x not in (NAME, NAME + ".new"))
    obs["tmp_left"] = sorted(os.listdir(tmpd))
    obs["events"] = rec.events if rec else []
    obs["fired"] = rec.fired if rec else (inj.get("mode") == "rlimit")
    obs["saw_fs"] = bool(rec and rec.saw_fs)
    obs["saw_net"] = bool(rec and rec.saw_net)
    obs["remote"] = remote
    obs["local_path"] = local
    return obs


# ------------------------------------------------------------------ projection to content ids

def pid_bytes(sc, data):
    if data is None:
        return ABSENT
    for c, t in sc["texts"].items():
        if data == t.encode("utf-8"):
            return int(c)
    if sc["in"]["local0"] == FOREIGN and data == sc["local0"]:
        return FOREIGN
    return GARBAGE


def pid_lines(sc, ret):
    if not isinstance(ret, list) or not all(isinstance(x, str) for x in ret):
        return GARBAGE
    for c, t in sc["texts"].items():
        if ret == split_nl(t):      # the published text cut at '\n' only (a line may contain \x0c, U+2028 ...)
            return int(c)
    if sc["in"]["local0"] == FOREIGN and "".join(ret).encode("utf-8") == sc["local0"]:
        return FOREIGN
    return GARBAGE


def project(sc, obs):
    """observation in the vocabulary of the specification"""
    return {"pc": obs["outcome"], "exc": obs["exc"],
            "ret": pid_lines(sc, obs["ret"]) if obs["outcome"] == "returned" else ABSENT,
            "local": pid_bytes(sc, obs["local"]),
            "local_same_bytes": obs["local"] == sc["local0"],
            "dotNew": "present" if obs["dotnew"] else "absent",
            "events": [{"a": e["a"], "i": e["i"], "loc": pid_bytes(sc, e["snap"])} for e in obs["events"]]}


def cleanup(casedir):
    """nothing per case: the per-process directory is wiped by the next materialize() and removed
    with ctx.work at exit"""
    return None


def proc_dir(workdir):
    return os.path.join(workdir, "w%d" % os.getpid())


# ------------------------------------------------------------------ comparison with TLC's expectation

def name_of(sc, c):
    cur = sc["in"]["hist"][-1]
    if c == ABSENT:
        return "absent"
    if c == GARBAGE:
        return "a content that is neither the old file nor any published version"
    if c == FOREIGN:
        return "the foreign local content"
    return "content #%d%s" % (c, " (current)" if c == cur else "")


def expected_events(path, fs=True, net=True):
    out = []
    for p in path:
        if fs and p["a"] in FS_ACTS and not (p["a"] == "CleanupNew" and p["i"] == 0):
            out.append((p["a"], p["i"]))
        elif net and p["a"] in NET_ACTS:
            out.append((p["a"], p["i"]))
    return out


def judge(sc, exp, obs, proj):
    """compare the observation with the terminal state TLC computed for this behaviour (exp = CASE
    line).  Returns (status, message): ok | violation | skipped | drift.  Only the verdict observables
    of C19 give a violation: outcome, local content, returned lines, local + '.new' after an error."""
    inj = sc["inject"]
    f = sc["in"]["fault"]
    fdesc = f["k"] + ("(%d)" % f["i"] if f["k"] in ("patchCorrupt", "patchTruncated", "badLastPatch", "writeFails") else "")
    steps = " ".join(p["a"] + ("(%d)" % p["i"] if p["i"] else "") for p in exp["path"])
    if inj.get("mode") == "wrap" and exp["hit"] and not obs["fired"]:
        if proj["pc"] == "returned":
            # the file was written without passing through the wrappers: the fault could not be injected
            return "skipped", "injected fault %s (%r) was never triggered: the code does not write through open()/os.rename as wrapped" % (fdesc, inj)
        # the call failed before the armed fault was reached: no fault happened in this execution, so
        # the model's expectation does not apply (the fault-free behaviour of the same input is a
        # case of its own); the error clause of the statement still does
        if not proj["local_same_bytes"]:
            return "violation", ("an error was raised (%s: %s) but the local file changed: it was %s and is now %s [armed fault %s not reached]"
                                 % (obs["exc"], obs.get("msg", ""), name_of(sc, sc["in"]["local0"]), name_of(sc, proj["local"]), fdesc))
        if proj["dotNew"] != "absent":
            return "violation", "an error was raised (%s) and local + '.new' was left behind [armed fault %s not reached]" % (obs["exc"], fdesc)
        return "drift", "the call raised %s (%s) before the armed fault %s was reached" % (obs["exc"], obs.get("msg", ""), fdesc)
    if inj.get("mode") == "wrap" and obs["fired"] and not exp["hit"]:
        if proj["pc"] == "raised" and proj["local_same_bytes"] and proj["dotNew"] == "absent":
            return "drift", "fault %s fired although the specification never reaches it (the code writes where the model does not); error raised, local file intact" % fdesc
    if exp["pc"] == "returned":
        if proj["pc"] != "returned":
            return "violation", ("the call raised %s (%s) where the specification converges [fault %s; model steps: %s]"
                                 % (obs["exc"], obs.get("msg", ""), fdesc, steps))
        if proj["local"] != exp["local"]:
            return "violation", ("the call returned but the local file is %s, the published current content is %s [fault %s; model steps: %s]"
                                 % (name_of(sc, proj["local"]), name_of(sc, exp["local"]), fdesc, steps))
        if proj["ret"] != exp["ret"]:
            want = sc["texts"].get(str(exp["ret"]))
            if isinstance(obs["ret"], list) and all(isinstance(x, str) for x in obs["ret"]) and want is not None \
                    and "".join(obs["ret"]) == want:
                return "violation", ("the call returned the right text but as a list of %d items where the published content has %d "
                                     "lines (cut at something else than '\\n') [fault %s; model steps: %s]"
                                     % (len(obs["ret"]), len(split_nl(want)), fdesc, steps))
            return "violation", ("the call returned lines that are %s, expected the lines of %s [fault %s; model steps: %s]"
                                 % (name_of(sc, proj["ret"]), name_of(sc, exp["ret"]), fdesc, steps))
        if proj["dotNew"] != "absent":
            return "drift", "local + '.new' left behind after a successful update"
    else:
        if proj["pc"] != "raised":
            return "violation", ("the call returned (local file now %s) although the specification raises: fault %s [model steps: %s]"
                                 % (name_of(sc, proj["local"]), fdesc, steps))
        if not proj["local_same_bytes"]:
            return "violation", ("an error was raised (%s) but the local file changed: it was %s and is now %s [fault %s; model steps: %s]"
                                 % (obs["exc"], name_of(sc, sc["in"]["local0"]), name_of(sc, proj["local"]), fdesc, steps))
        if proj["dotNew"] != "absent":
            return "violation", ("an error was raised (%s) and local + '.new' was left behind [fault %s; model steps: %s]"
                                 % (obs["exc"], fdesc, steps))
    # diagnostics only
    if obs["tmp_left"]:
        return "drift", "temporary download file left in tempdir: %r" % (obs["tmp_left"][:2],)
    if obs["others"]:
        return "drift", "unexpected files next to the local file: %r" % (obs["others"][:3],)
    if inj.get("mode") != "rlimit" and (obs["saw_fs"] or obs["saw_net"]):
        want = expected_events(exp["path"], obs["saw_fs"], obs["saw_net"])
        got = [(e["a"], e["i"]) for e in proj["events"]]
        if "DownloadError" == exp["exc"] or (f["k"] == "patchTruncated" and exp["hit"]):
            pass            # where a truncated download fails is not determined
        elif want != got:
            return "drift", "step order differs from the model: observed %r, model %r" % (got, want)
        okset = (sc["in"]["local0"], sc["in"]["hist"][-1])
        bad = [e for e in proj["events"] if e["a"] in FS_ACTS and e["loc"] not in okset]
        if bad:
            return "drift", "local file was neither old nor new at step %r" % (bad[0],)
    if proj["pc"] == "raised" and obs["exc"] not in ("ValueError", "OSError", "EOFError", "BadGzipFile", "error",
                                                     "FileNotFoundError", "PermissionError", "URLError"):
        return "drift", "unexpected exception type %s (%s)" % (obs["exc"], obs.get("msg", ""))
    return "ok", None


def split_case(case):
    """CASE line -> TLC's expectations per call, oldest first (a two-call behaviour carries the first
    call as `prev`)"""
    prev = case.get("prev") or {"pc": "none"}
    return ([prev] if prev.get("pc", "none") != "none" else []) + [case]


def build_multi(rng, ins, canonical=False, maxlen=6, use_diff=None, inject_modes=None, stress=None, apis=None):
    """concretize one or two consecutive calls: one table of texts for all content ids, the local file
    of the first call, one repository state per call.  A later call under rep = same / mirror
    re-publishes the earlier patches unchanged (a published patch never changes)."""
    ids, forced = [], {}
    for i in ins:
        ids += list(i["hist"])
        forced[i["hist"][-1]] = i["nw"]
    if stress and stress.get("prof"):
        texts = make_texts_big(rng, ids, forced, stress["prof"])
        foreign = "".join(big_lines(rng, [rng.choice(BOUNDARY_LENS) for _ in range(rng.randint(1, 5))]))
        if any(foreign == "".join(o) for o in texts.values()):
            foreign += "x\n"
    else:
        texts = make_texts(rng, ids, None, max([maxlen] + list(forced.values())), forced)
        foreign = make_foreign(rng, texts, maxlen)
    style = 0 if canonical else rng.randint(0, 1)
    runs, base = [], None
    for r, inp in enumerate(ins):
        mode = (inject_modes or ["wrap"] * len(ins))[r]
        if r < len(ins) - 1:
            mode = "wrap"           # a forked child would not carry module state into the next call
        sc = build_scenario(rng, inp, canonical=canonical, maxlen=maxlen, use_diff=use_diff, inject_mode=mode,
                            texts=texts, foreign=foreign, style=style, stress=stress,
                            base=base if inp.get("rep") in ("same", "mirror") else None)
        # the way this call is made: public name or deprecated alias, spelling of verbose / URL /
        # local path -- rotating, mixed within one behaviour; the plainest form for canonical replays
        entry = inp.get("entry", "update_file")
        sc["api"] = (apis[r] if apis else api_variant(entry, 0 if canonical else rng.randrange(1 << 20)))
        runs.append(sc)
        base = sc
    return {"runs": runs}


def run_multi(workdir, msc, fix_input=False):
    """execute the calls of the scenario one after the other IN THIS PROCESS (same imported module,
    same local path; the repository files are rewritten in between -- in place when the URL stays,
    in a second directory when the call uses another URL).  Returns [(view, obs, proj)] per call.
    fix_input: (trace recording) the local0 id of a later call is what the previous call left."""
    casedir = proc_dir(workdir)
    out, start, prev_local = [], None, None
    for r, sc in enumerate(msc["runs"]):
        view = dict(sc)
        if r > 0:
            view["local0"] = start
            if fix_input:
                view["in"] = dict(sc["in"], local0=prev_local)
        repo_name = "repo" if sc["in"].get("url", 1) == 1 else "repo2"
        obs = execute(casedir, view, repo_name=repo_name, keep_local=(r > 0))
        proj = project(view, obs)
        start, prev_local = obs["local"], proj["local"]
        out.append((view, obs, proj))
    return out


def how_called(view):
    a = view.get("api") or PLAIN_API
    return a["fn"] + ("" if a.get("entry") != "update_file" or a["verbose"] == "default" else "[verbose %s]" % a["verbose"]) \
        + ("" if a["url"] == "plain" else "[url %s]" % a["url"]) + ("" if a["local"] == "abs" else "[local %s]" % a["local"]) \
        + ("[keyword args]" if a.get("kw") else "")


def _summary(view, obs, proj):
    i = view["in"]
    how = how_called(view)
    return how + " %slocal0=%s fault=%s/%d hist=%r h0=%d nw=%d flav=%s inject=%s -> %s%s local=%s" % (
        ("[%s url%d] " % (i["rep"], i.get("url", 1))) if i.get("rep", "first") != "first" else "",
        name_of(view, i["local0"]), i["fault"]["k"], i["fault"]["i"], i["hist"], i["h0"], i["nw"], "+".join(i["flav"]),
        view["inject"].get("mode"), proj["pc"], ("(" + obs["exc"] + ")") if proj["pc"] == "raised" else "",
        name_of(view, proj["local"]))


def judge_multi(msc, exps, res):
    """per-call comparison with TLC's expectations; stops at the first call whose file-system state is
    not the one the model continues from"""
    status, msg, summaries, excs = "ok", None, [], []
    for r, ((view, obs, proj), exp) in enumerate(zip(res, exps)):
        st, m = judge(view, exp, obs, proj)
        summaries.append(_summary(view, obs, proj))
        if obs["exc"] != "none":
            excs.append(obs["exc"])
        if st != "ok" and status == "ok":
            via = how_called(view)
            status, msg = st, (("call %d of %d: " % (r + 1, len(exps))) if len(exps) > 1 else "") \
                + ("" if via == "update_file" else "called as %s: " % via) + m
        if st == "violation" or proj["local"] != exp["local"]:
            break
    return {"status": status, "msg": msg, "scenario": msc, "summary": "  ;  THEN  ".join(summaries), "excs": excs,
            "ncalls": len(exps)}


def stress_profile(rng, heavy=False):
    """a size-stressed concretization of an abstract case (every k-th case gets one)"""
    r = rng.random()
    if heavy:                # around 1 MiB, rarely
        prof = rng.choice([{"n": 1000, "total": (1 << 20) + rng.choice([-1, 0, 1])},
                           {"n": 16, "len": rng.choice(BIG_LENS)},
                           {"n": 100000, "len": 1, "identical": True},
                           {"n": 4096, "len": 255}])
        prof["one_line_len"] = rng.choice(BIG_LENS + [(1 << 20) - 1])
    elif r < 0.25:           # a file of exactly 8 KiB / 64 KiB (+-1)
        prof = {"n": rng.choice([10, 100, 1000]), "total": rng.choice([8192, 65536]) + rng.choice([-1, 0, 1])}
        prof["one_line_len"] = rng.choice(BOUNDARY_LENS[-9:])
    elif r < 0.5:            # long lines
        prof = {"n": rng.choice([3, 9, 10, 11, 17, 33]), "len": rng.choice(BOUNDARY_LENS[-12:])}
        prof["one_line_len"] = rng.choice(BOUNDARY_LENS[-6:] + BIG_LENS)
    elif r < 0.75:           # many lines
        prof = {"n": rng.choice([99, 100, 101, 255, 256, 257, 1000, 1001]), "len": rng.choice(["short", "mixed", 8, 72, 80])}
        prof["one_line_len"] = rng.choice(BOUNDARY_LENS)
    else:                    # many identical lines
        prof = {"n": rng.choice([100, 256, 1000, 4097]), "len": rng.choice([0, 1, 16, 64]), "identical": True}
        prof["one_line_len"] = rng.choice(BOUNDARY_LENS)
    return {"prof": prof,
            "name_len": rng.choice([None, 1, 2, 7, 8, 9, 15, 16, 17, 31, 32, 33, 63, 64, 65, 127, 128, 129, 250]),
            "digits": rng.choice([None, 9, 10, 11, 12]),
            "rlimit_at": rng.choice(BYTE_OFFSETS)}


def dgl_check(view, obs, k):
    """download_gunzip_lines / downloadGunzipLines on the repository's full file: the lines of the
    current content (what the specification's FullDownload delivers)"""
    import tempfile
    import warnings
    from debian import debian_support as ds
    name = ("download_gunzip_lines", "downloadGunzipLines")[k % 2]
    old_tmp = tempfile.tempdir
    tempfile.tempdir = os.path.join(os.path.dirname(os.path.dirname(os.path.abspath(obs["local_path"]))), "tmp")
    try:
        with warnings.catch_warnings():
            warnings.simplefilter("ignore")
            got = getattr(ds, name)(obs["remote"] + ".gz")
    except KeyboardInterrupt:
        raise
    except BaseException as e:      # noqa: B036
        return "%s(%r) raised %s (%s)" % (name, obs["remote"] + ".gz", type(e).__name__, str(e)[:150])
    finally:
        tempfile.tempdir = old_tmp
    cur = view["in"]["hist"][-1]
    if pid_lines(view, got) != cur:
        return "%s(%r) returned lines that are %s, the published file is %s" % (
            name, obs["remote"] + ".gz", name_of(view, pid_lines(view, got)), name_of(view, cur))
    return None


def run_case(workdir, rng, case, variant, opts):
    exps = split_case(case)
    stress = None
    if variant.startswith("stress"):
        stress = stress_profile(rng, heavy=variant == "stress-heavy")
    eligible = case["in"]["fault"]["k"] == "writeFails" and 1 <= case["in"]["fault"]["i"] <= case["in"]["nw"]
    last = "rlimit" if variant == "rlimit" or (stress and eligible and rng.random() < 0.5) else "wrap"
    msc = build_multi(rng, [e["in"] for e in exps], canonical=(variant == "canonical"), maxlen=opts.get("maxlen", 6),
                      use_diff=workdir if (stress or (opts.get("diff_e") and variant != "canonical")) else None,
                      inject_modes=["wrap"] * (len(exps) - 1) + [last], stress=stress)
    res = run_multi(workdir, msc)
    out = judge_multi(msc, exps, res)
    out["apis"] = [sc["api"] for sc in msc["runs"]]
    k = rng.randrange(1 << 20)
    if out["status"] == "ok" and variant != "canonical" and k % 6 == 0 and len(res) == len(exps):
        m = dgl_check(res[-1][0], res[-1][1], k // 6)
        out["dgl"] = True
        if m:
            out["status"], out["msg"] = "violation", m
    return out


def replay_chunk(args):
    """pool worker: concretize and replay a list of CASE lines.  args = (workdir, seed, tasks, opts);
    a task is (index, case, variant) with variant = canonical | random<j> | rlimit"""
    import random
    workdir, seed, tasks, opts = args
    out = []
    for (idx, case, variant) in tasks:
        rng = random.Random("c19-%s-%s-%s" % (seed, idx, variant))
        res = run_case(workdir, rng, case, variant, opts)
        res["idx"], res["variant"] = idx, variant
        if res["status"] != "violation":
            res.pop("scenario", None)
        out.append(res)
    return out


# ------------------------------------------------------------------ recording traces (code -> spec)

def random_fault(rng, n, nw):
    kinds = ["none", "none", "wrongResultHash", "indexMissing", "indexGarbage", "indexEmpty", "renameFails",
             "writeFails", "writeFails", "writeFails", "writeFails"]
    if n >= 1:
        kinds += ["patchCorrupt", "patchTruncated", "badLastPatch"] * 2
    k = rng.choice(kinds)
    i = 0
    if k in ("patchCorrupt", "patchTruncated"):
        i = rng.randint(1, n)
    elif k == "badLastPatch":
        i = n
    elif k == "writeFails":
        i = rng.choice([0, 1, nw, nw + 1, rng.randint(0, nw + 1), rng.randint(0, nw + 1)])
    return {"k": k, "i": i}


def random_input(rng, flavour_sets, maxv=8, maxlines=30):
    nver = rng.randint(1, maxv)
    hist, nxt = [], 1
    for _ in range(nver):
        if hist and rng.random() < 0.2:
            hist.append(rng.choice(hist))
        else:
            hist.append(nxt)
            nxt += 1
    n = nver - 1
    nw = 0 if rng.random() < 0.07 else rng.randint(1, maxlines)
    h0 = 0 if rng.random() < 0.6 else rng.randint(0, n)
    local0 = rng.choice([ABSENT, FOREIGN, FOREIGN] + hist + hist)
    return {"hist": hist, "h0": h0, "local0": local0, "fault": random_fault(rng, n, nw), "nw": nw,
            "flav": list(rng.choice(flavour_sets)), "url": 1, "rep": "first",
            "entry": rng.choice(["update_file"] * 6 + ["download_file", "replace_file"])}


def random_next_input(rng, prev, maxlines=30):
    """the repository moves on before the next call of the same process"""
    kind = rng.choice(["same", "same", "same", "mirror", "fresh"])
    hist = list(prev["hist"])
    c = max(hist) + 1 if rng.random() < 0.75 else rng.choice(hist)
    hist2 = [c] if kind == "fresh" else hist + [c]
    if c == prev["hist"][-1]:
        nw = prev["nw"]                     # the same text has the same number of lines
    else:       # two different texts cannot both be empty
        nw = 0 if (rng.random() < 0.07 and prev["nw"] != 0) else rng.randint(1, maxlines)
    n = len(hist2) - 1
    h0 = 0 if rng.random() < 0.6 else rng.randint(0, n)
    return {"hist": hist2, "h0": h0, "local0": ABSENT,      # fixed when the previous call has ended
            "fault": random_fault(rng, n, nw) if rng.random() < 0.5 else {"k": "none", "i": 0}, "nw": nw,
            "flav": prev["flav"], "url": prev["url"] if kind == "same" else 3 - prev["url"], "rep": kind,
            "entry": rng.choice(["update_file"] * 6 + ["download_file", "replace_file"])}


def record_one(workdir, seed, idx, opts):
    """one random history (and, for half of them, a second call after the repository has moved on)
    executed on the real function in this process; returns (trace, scenario)"""
    import random
    rng = random.Random("c19-trace-%s-%d" % (seed, idx))
    two = rng.random() < 0.5
    ins = [random_input(rng, opts["flavour_sets"], opts.get("maxv", 8) - (1 if two else 0), opts.get("maxlines", 30))]
    if two:
        ins.append(random_next_input(rng, ins[0], opts.get("maxlines", 30)))
    mode = "rlimit" if rng.random() < 0.6 else "wrap"
    LONG[0] = rng.random() < 0.12
    try:
        msc = build_multi(rng, ins, canonical=False, maxlen=max(4, min(30, max(i["nw"] for i in ins) + 4)),
                          use_diff=workdir if opts.get("diff_e") else None, inject_modes=["wrap"] * (len(ins) - 1) + [mode])
    finally:
        LONG[0] = False
    return trace_multi(workdir, msc), msc


def trace_multi(workdir, msc):
    res = run_multi(workdir, msc, fix_input=True)
    return {"runs": [_trace_entry(view, obs, proj) for (view, obs, proj) in res]}


def _trace_entry(view, obs, proj):
    inp = dict(view["in"])
    inj = view["inject"]
    note = ""
    if inj.get("mode") == "wrap" and not obs["fired"]:
        # the fault was armed but the execution never reached it: no fault happened in this execution
        inp["fault"] = {"k": "none", "i": 0}
        note = "armed fault %r not reached" % (view["in"]["fault"],)
    fine = inj.get("mode") != "rlimit"
    return {"in": inp, "obs": {"fs": fine, "net": fine},
            "events": proj["events"] if fine else [],
            "out": {"pc": proj["pc"], "ret": proj["ret"], "local": proj["local"],
                    # '.new' surviving a *successful* update is not a verdict observable (diagnostic)
                    "dotNew": proj["dotNew"] if proj["pc"] == "raised" else "absent", "exc": proj["exc"]},
            "new_after_success": proj["pc"] == "returned" and proj["dotNew"] != "absent",
            "tmp_left": len(obs["tmp_left"]),
            "fired": obs["fired"], "same": proj["local_same_bytes"], "note": note, "inject": inj.get("mode"),
            "api": view.get("api") or PLAIN_API}


def _inp(hist, local0, fault=("none", 0), nw=2, h0=0, flav=("SHA1", "SHA256"), url=1, rep="first", entry="update_file"):
    return {"hist": list(hist), "h0": h0, "local0": local0, "fault": {"k": fault[0], "i": fault[1]}, "nw": nw,
            "flav": list(flav), "url": url, "rep": rep, "entry": entry}


BIG_MENU = ["huge-full-download", "chain-199", "chain-50-corrupt", "one-line-1MiB", "64KiB-rlimit-8192",
            "identical-100000", "lines-65536-nth-write", "two-calls-1MiB", "chain-11-badlast-longnames",
            "10KiB-rlimit-4096", "8KiB-rename", "uptodate-200", "1MiB-wrong-result-hash", "chain-9-shortnames"]


def big_case(rng, which):
    """the handful of really big / long cases (trace leg): returns (inputs, stress, injection mode)"""
    pm = rng.choice([-1, 0, 1])
    if which == "huge-full-download":       # 16 MiB, 100000 lines: download and gunzip chunking, hashing
        return [_inp([1, 2], ABSENT, flav=("SHA256",))], {"prof": {"n": 100000, "total": (1 << 24) + pm}}, "wrap"
    if which == "chain-199":                # 200 versions, index of 199 entries, sizes with 12 digits
        return ([_inp(range(1, 201), 1, nw=3)],
                {"prof": {"n": 3, "len": "short"}, "digits": 12, "name_len": rng.choice([15, 16, 17])}, "wrap")
    if which == "chain-50-corrupt":
        return ([_inp(range(1, 51), 21, fault=("patchCorrupt", 35), nw=2, flav=("SHA1",))],
                {"prof": {"n": 10, "len": "mixed"}, "digits": 10, "name_len": rng.choice([63, 64, 65])}, "wrap")
    if which == "one-line-1MiB":            # a single line of 1 MiB; the write fails at byte 65536
        return ([_inp([1, 2, 3], FOREIGN, fault=("writeFails", 1), nw=1)],
                {"prof": {"n": 50, "len": "mixed", "one_line_len": (1 << 20) - 1 + pm},
                 "rlimit_at": 65536 + rng.choice([-1, 0, 1])}, "rlimit")
    if which == "64KiB-rlimit-8192":
        return ([_inp([1, 2, 3], 2, fault=("writeFails", 2), nw=2, flav=("SHA256",))],
                {"prof": {"n": 1000, "total": 65536 + pm}, "rlimit_at": 8192 + rng.choice([-1, 0, 1])}, "rlimit")
    if which == "identical-100000":         # 100000 identical lines, one patch
        return [_inp([1, 2], 1)], {"prof": {"n": 100000, "len": 1, "identical": True}, "digits": 9}, "wrap"
    if which == "lines-65536-nth-write":    # very long lines; the n-th write for a large n fails
        return ([_inp([1, 2, 3], 1, fault=("writeFails", 2), nw=2)],
                {"prof": {"n": 40, "len": 65536}, "name_len": 128}, "wrap")
    if which == "two-calls-1MiB":           # full download of 1 MiB, then a patch on it in the same process
        return ([_inp([1], ABSENT, nw=2, entry="download_file"), _inp([1, 2], ABSENT, nw=2, rep="same")],
                {"prof": {"n": 1024, "total": (1 << 20) + pm}}, "wrap")
    if which == "chain-11-badlast-longnames":
        return ([_inp(range(1, 13), 1, fault=("badLastPatch", 11), nw=2)],
                {"prof": {"n": 33, "len": 72}, "name_len": 250, "digits": 11}, "wrap")
    if which == "10KiB-rlimit-4096":
        return ([_inp([1, 2], 1, fault=("writeFails", 2), nw=2, flav=("SHA1",))],
                {"prof": {"n": 300, "len": 32}, "rlimit_at": 4096 + rng.choice([-1, 0, 1])}, "rlimit")
    if which == "8KiB-rename":
        return ([_inp([1, 2, 2, 3], 1, fault=("renameFails", 0), nw=2, entry="replace_file")],
                {"prof": {"n": 100, "total": 8192 + pm}, "name_len": 33}, "wrap")
    if which == "uptodate-200":             # index that lists the last 100 of 199 patches; local is current
        return ([_inp(range(1, 201), 200, nw=2, h0=99)], {"prof": {"n": 2, "len": "short"}, "digits": 11}, "wrap")
    if which == "1MiB-wrong-result-hash":
        return ([_inp([1, 2, 3], 1, fault=("wrongResultHash", 0), nw=2)],
                {"prof": {"n": 1000, "len": 1024}}, "wrap")
    if which == "chain-9-shortnames":       # patch names of one character
        return [_inp(range(1, 11), 1, nw=1)], {"prof": {"n": 9, "len": "short", "one_line_len": 8192}, "name_len": 1}, "wrap"
    raise KeyError(which)


def record_big(workdir, seed, which, rep_no=0):
    """one of the big cases executed on the real function; returns (trace, scenario)"""
    import random
    rng = random.Random("c19-big-%s-%s-%d" % (seed, which, rep_no))
    ins, stress, mode = big_case(rng, which)
    msc = build_multi(rng, ins, canonical=False, maxlen=6, use_diff=workdir,
                      inject_modes=["wrap"] * (len(ins) - 1) + [mode], stress=stress)
    t = trace_multi(workdir, msc)
    t["big"] = which
    t["sizes"] = [{"lines": r["texts"][str(r["in"]["hist"][-1])].count("\n"),
                   "bytes": len(r["texts"][str(r["in"]["hist"][-1])]), "versions": len(r["in"]["hist"]),
                   "gz": len(r["files"][NAME + ".gz"])} for r in msc["runs"]]
    return t, msc


def record_chunk(args):
    """pool worker: idxs are numbers (random histories) or ('big', name, repetition)"""
    workdir, seed, idxs, opts = args
    out = []
    for i in idxs:
        if isinstance(i, tuple):
            out.append((i, record_big(workdir, seed, i[1], i[2])[0]))
        else:
            out.append((i, record_one(workdir, seed, i, opts)[0]))
    return out
