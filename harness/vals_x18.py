"""X18 helper: concretization, execution and projection for the value-level helpers of
debian.debian_support (spec/PdiffHelpers.tla): read_lines_sha1 / read_lines_sha256 (H), patch_lines (P),
merge_as_sets (M) and the decoding of download_gunzip_lines (G).

Every function here either turns an abstract case of TLC into concrete arguments, drives the real
function, or projects an observation back onto the abstract vocabulary.  Expected results are TLC's
(the `pre`, `res`, `lines` fields of the CASE lines); hashlib / gzip / zlib are reference libraries used
to build inputs and to turn TLC's byte sequence into a digest."""
import collections
import gzip
import hashlib
import io
import os
import random
import warnings
import zlib

BOUNDARY = [1, 2, 7, 8, 9, 15, 16, 17, 31, 32, 33, 63, 64, 65, 71, 72, 73, 79, 80, 81, 127, 128, 129, 255, 256, 257,
            1023, 1024, 1025, 4095, 4096, 4097, 8191, 8192, 8193]
BIG = [65535, 65536, 65537]
COUNTS = [0, 1, 2, 3, 9, 10, 11, 16, 17, 31, 32, 33, 99, 100, 101, 255, 256, 257]

# characters by UTF-8 length (notes/SIZE_STRESS.md part 2/3: not NFC-stable, case-mapping hazards, BOM, zero-width,
# non-BMP, str.splitlines boundaries, every kind of trailing byte)
CH1 = list("abXYZ019 .:-+~_\t#") + ["\n", "\x0b", "\x0c", "\x1c", "\x1d", "\x1e", "\r", "\x00", "\x7f"]
CH2 = ["\u00e9", "\u00df", "\u0130", "\u0131", "\u017f", "\u0301", "\u0085", "\u00a0", "\u00ad", "\u03c2"] + [chr(c) for c in range(0x400, 0x440, 7)]
CH3 = ["\u20ac", "\u2028", "\u2029", "\ufeff", "\ufb01", "\u212b", "\u2126", "\uf9d0", "\uff21", "\u200b", "\u200d", "\u3000", "\u1100",
       "\u4e2d", "\u2003"]
CH4 = ["\U0001f600", "\U0010ffff", "\U00010400", "\U0001d11e"]
CHARS = {1: CH1, 2: CH2, 3: CH3, 4: CH4}
# the same without the characters that end a line for the formats / readers involved
NO_NL = {k: [c for c in v if c not in "\n\r"] for k, v in CHARS.items()}


def heavy(rng, big=False):
    """a heavy-tailed length that regularly hits the boundary neighbourhoods"""
    r = rng.random()
    if r < 0.55:
        return rng.randint(1, 12)
    if r < 0.93 or not big:
        return rng.choice(BOUNDARY)
    return rng.choice(BIG)


def ds():
    from debian import debian_support
    return debian_support


def call(fn, *a, **kw):
    """-> ("ok", value) | ("raise", exception); DeprecationWarnings of the camelCase aliases ignored"""
    try:
        with warnings.catch_warnings():
            warnings.simplefilter("ignore")
            return "ok", fn(*a, **kw)
    except KeyboardInterrupt:
        raise
    except BaseException as e:      # noqa: B036 -- an observation
        return "raise", e


def api(name):
    """the public function `name` of debian_support, looked up at call time (a missing name is an observation too)"""
    def f(*a, **kw):
        return getattr(ds(), name)(*a, **kw)
    return f


def short(x, n=140):
    s = x if isinstance(x, str) else repr(x)
    return s if len(s) <= n else s[:n // 2] + "...(%d)..." % len(s) + s[-n // 3:]


class Lines(object):
    """an iterable that is neither a sequence nor an iterator"""
    def __init__(self, items):
        self.items = items

    def __iter__(self):
        return iter(list(self.items))


CONTAINERS = ("list", "tuple", "iter", "gen", "deque", "custom", "dictkeys")


def contain(kind, items):
    items = list(items)
    if kind == "list":
        return items
    if kind == "tuple":
        return tuple(items)
    if kind == "iter":
        return iter(items)
    if kind == "gen":
        return (x for x in items)
    if kind == "deque":
        return collections.deque(items)
    if kind == "custom":
        return Lines(items)
    if kind == "dictkeys":      # only for distinct hashable items; falls back to a list otherwise
        try:
            d = dict.fromkeys(items)
            if len(d) == len(items):
                return d.keys()
        except TypeError:
            pass
        return items
    raise ValueError(kind)


# ====================================================================== H: digests

HASH_FNS = (("read_lines_sha1", "sha1"), ("readLinesSHA1", "sha1"), ("read_lines_sha256", "sha256"))


def h_concretize(rng, case, stress):
    """-> dict(data, items, runs): every abstract character (UTF-8 length L) stands for a run of r characters of
    length L; a cut inside an abstract character falls inside the LAST character of its run"""
    text = case["text"]
    runs, chars = [], []
    for L in text:
        r = 1 if stress == 0 else (heavy(rng, stress >= 2) if rng.random() < 0.5 else 1)
        pool = CHARS[L]
        cs = [rng.choice(pool) for _ in range(min(r, 40))]
        if r > 40:
            cs = (cs * (r // 40 + 1))[:r]
        runs.append(r)
        chars.append(cs)
    starts, off = [], 0          # byte offset where the run of abstract character i starts
    for L, r in zip(text, runs):
        starts.append(off)
        off += L * r
    total = off
    data = "".join("".join(cs) for cs in chars).encode("utf-8")
    assert len(data) == total

    def conc_off(o):
        """abstract byte offset -> concrete byte offset"""
        acc = 0
        for i, L in enumerate(text):
            if o == acc:
                return starts[i]
            if o < acc + L:
                return starts[i] + (runs[i] - 1) * L + (o - acc)
            acc += L
        return total
    items = []
    for ch in case["chunks"]:
        b = data[conc_off(ch["lo"]):conc_off(ch["hi"])]
        items.append(b.decode("utf-8") if ch["kind"] == "str" else b)

    def pre_bytes(pre):
        """TLC's byte sequence [[char, byte], ...] -> concrete bytes"""
        out = []
        for i, b in pre:
            L, r = text[i - 1], runs[i - 1]
            enc = [c.encode("utf-8") for c in chars[i - 1]]
            if b == 1:
                out.append(b"".join(enc[:r - 1]))
            out.append(enc[r - 1][b - 1:b])
        return b"".join(out)
    return dict(data=data, items=items, runs=runs, pre_bytes=pre_bytes)


def h_call(name, items, container, kw=False):
    fn = api(name)
    arg = contain(container, items)
    return call(fn, lines=arg) if kw else call(fn, arg)


def h_check(case, conc, name, algo, container, kw=False):
    """None or a message; the expectation is the digest of the byte sequence TLC gives for the case"""
    want = hashlib.new(algo, conc["pre_bytes"](case["pre"])).hexdigest()
    before = list(conc["items"])
    st, got = h_call(name, conc["items"], container, kw)
    what = "%s(%s of %d items %s)" % (name, container, len(before), short([x if len(x) < 30 else x[:12] + x[-12:] for x in before], 160))
    if st == "raise":
        return "%s raised %s: %s; specification: the %s digest of the concatenation (%d bytes)" % (
            what, type(got).__name__, short(str(got), 100), algo, len(conc["data"]))
    if got != want:
        return "%s = %r; specification: %s of the concatenation of the items (%d bytes) = %r" % (what, got, algo, len(conc["data"]), want)
    if conc["items"] != before:
        return "%s changed the list it was given" % what
    return None


# ====================================================================== P: patch_lines

LINE_POOL = ["Package: foo\n", "Version: 1:4.14-2\n", " continued\n", "\n", "a\x0bb\n", "\x0c\n", "x\x1c\x1d\x1e\n", "caf\u00e9 \u00df\u0130\n",
             "\u2028\n", "a\u2029b\n", "\u0085\n", "a\rb\n", "\ufeffBOM\n", "\u00e9\n", "e\u0301\n", "\U0001f600\n", ".\n", "..\n", "1d\n",
             "no newline", "", "0a\n", "\u0434\u0435\u043d\u044c\n", "tab\t\n", "\u212b\n", "\u00c5\n", "x\u00a0y\n", "\u0438\u0439\n"]


def p_lines_for(rng, ids, typ, stress):
    """concrete line(s) per abstract line id: id -> list of lines (a run); identical texts for different ids allowed"""
    m = {}
    for i in ids:
        r = 1
        if stress >= 1 and rng.random() < 0.4:
            r = rng.choice(COUNTS[1:]) if stress == 1 else rng.choice([100, 257, 1000, 4097])
        run = []
        for j in range(min(r, 50)):
            t = rng.choice(LINE_POOL)
            if stress >= 1 and rng.random() < 0.2:
                t = rng.choice(NO_NL[1] + NO_NL[2] + NO_NL[3]) * heavy(rng, stress >= 2) + "\n"
            run.append(t)
        if r > 50:
            run = (run * (r // 50 + 1))[:r]
        if typ == "bytes":
            run = [x.encode("utf-8") for x in run]
        m[i] = run
    return m


def p_concretize(rng, case, stress, typ=None):
    """-> dict(buf, hunks, expect, typ); abstract line i = run m[i]; indexes are scaled with the runs"""
    typ = typ or rng.choice(["str", "str", "bytes"])
    ids = sorted(set(case["buf"]) | {x for h in case["hunks"] for x in h["a"]} | set(case.get("res", [])))
    m = p_lines_for(rng, ids, typ, stress)
    # the scaling of an index depends on the buffer the hunk is applied to: replay abstractly to know it
    cur = list(case["buf"])
    hunks = []
    for h in case["hunks"]:
        def scale(k):
            if k <= len(cur):
                return sum(len(m[x]) for x in cur[:k])
            return sum(len(m[x]) for x in cur) + (k - len(cur)) * (1 if stress == 0 else rng.choice([1, 3, 2 ** 31, 2 ** 63]))
        f, l = scale(h["f"]), scale(h["l"])
        if h["f"] > h["l"] and f <= l:
            f = l + 1
        hunks.append((f, l, [x for a in h["a"] for x in m[a]]))
        n = len(cur)
        ff = min(h["f"], n)
        ll = max(ff, min(h["l"], n))
        cur = cur[:ff] + list(h["a"]) + cur[ll:]
    return dict(buf=[x for i in case["buf"] for x in m[i]], hunks=hunks, typ=typ,
                expect=[x for i in case["res"] for x in m[i]], m=m)


HUNK_FORMS = ("list-of-tuples", "tuple-of-tuples", "gen", "iter", "list-of-lists", "custom")


def p_patches(form, hunks):
    hs = [(f, l, list(a)) for f, l, a in hunks]
    if form == "list-of-tuples":
        return hs
    if form == "tuple-of-tuples":
        return tuple(hs)
    if form == "gen":
        return (h for h in hs)
    if form == "iter":
        return iter(hs)
    if form == "list-of-lists":
        return [[f, l, a] for f, l, a in hs]
    if form == "custom":
        return Lines(hs)
    raise ValueError(form)


def p_check(case, conc, name, form, kw=False):
    """None | message | ("unspecified", note)"""
    fn = api(name)
    buf = list(conc["buf"])
    alias = buf                         # the caller's list: patched in place
    patches = p_patches(form, conc["hunks"])
    st, got = call(fn, lines=buf, patches=patches) if kw else call(fn, buf, patches)
    what = "%s(%d lines, %s of %d hunks %s)" % (name, len(conc["buf"]), form, len(conc["hunks"]),
                                              short([(f, l, len(a)) for f, l, a in conc["hunks"]], 120))
    zone = case["zone"]
    if zone == "odd":
        return ("unspecified", "reversed range")
    if st == "raise":
        if zone == "beyond":
            return ("unspecified", "hunk beyond the end refused with %s" % type(got).__name__)
        return "%s raised %s: %s; specification: the hunks applied one after the other, in place" % (what, type(got).__name__, short(str(got), 100))
    if alias != conc["expect"]:
        n = next((i for i, (a, b) in enumerate(zip(alias, conc["expect"])) if a != b), min(len(alias), len(conc["expect"])))
        return "%s left the caller's list with %d lines (first difference at line %d: %s); specification: %d lines (%s): every hunk replaces lines[first:last] of the list as the previous hunks left it, in the order given" % (
            what, len(alias), n, short(alias[n:n + 2], 60), len(conc["expect"]), short(conc["expect"][n:n + 2], 60))
    if got is not None and got is not buf:
        return ("diag", "return value is %s" % type(got).__name__)
    return None


# ====================================================================== M: merge_as_sets

M_FAMILIES = ("int", "bigint", "str", "bytes", "tuple", "float-int", "release", "version", "block")
RELEASES = ["buzz", "hamm", "potato", "sarge", "etch", "lenny", "wheezy", "buster", "trixie", "sid"]
VERSIONS = ["0.9", "1.0~rc1", "1.0", "1.0-1", "1.0-1+b1", "1.0.1", "1:0.1", "2:0"]


def m_values(rng, fam, nranks):
    """rank -> list of interchangeable values (equal and equal hash), strictly increasing with the rank"""
    if fam == "int":
        base = sorted(rng.sample(range(-50, 50), nranks))
        return {r + 1: [base[r]] for r in range(nranks)}
    if fam == "bigint":
        pool = sorted(rng.sample([-2 ** 63, -2 ** 31 - 1, -1, 0, 9, 10, 99, 100, 2 ** 15, 2 ** 16, 2 ** 31 - 1, 2 ** 31, 2 ** 32 - 1, 2 ** 32,
                                  2 ** 63 - 1, 2 ** 63, 10 ** 18, 10 ** 30], nranks))
        return {r + 1: [pool[r]] for r in range(nranks)}
    if fam == "str":
        pool = ["", " ", "A", "Z", "a", "e\u0301", "z", "\u00c5", "\u00e9", "\u00df", "\u0130", "\u0131", "\u017f", "\u212b", "\u2126", "\ufb01", "\uff21",
                "\ufeff", "\U0001f600", "a" * 255, "a" * 256, "a" * 8192, "a\x00"]
        vals = sorted(rng.sample(pool, nranks))
        return {r + 1: [vals[r]] for r in range(nranks)}
    if fam == "bytes":
        pool = [b"", b"\x00", b"A", b"a", b"a\x00", b"\x7f", b"\x80", b"\xc3\xa9", b"\xff", b"a" * 4096]
        vals = sorted(rng.sample(pool, nranks))
        return {r + 1: [vals[r]] for r in range(nranks)}
    if fam == "tuple":
        vals = sorted(rng.sample([(0, ""), (0, "a"), (1, ""), (1, "A"), (1, "a"), (2, "\u00e9"), (2 ** 40, "x")], nranks))
        return {r + 1: [vals[r]] for r in range(nranks)}
    if fam == "float-int":      # equal numbers of different type are ONE element
        base = sorted(rng.sample(range(-5, 6), nranks))
        return {r + 1: [base[r], float(base[r])] + ([True] if base[r] == 1 else []) + ([False] if base[r] == 0 else []) for r in range(nranks)}
    if fam == "release":
        d = ds()
        names = sorted(rng.sample(range(len(RELEASES)), nranks))
        return {r + 1: [d.intern_release(RELEASES[names[r]])] for r in range(nranks)}
    if fam == "version":
        d = ds()
        idx = sorted(rng.sample(range(len(VERSIONS)), nranks))
        return {r + 1: [d.Version(VERSIONS[idx[r]])] for r in range(nranks)}
    raise ValueError(fam)


M_CONTAINERS = ("list", "tuple", "iter", "gen", "deque", "custom", "set", "frozenset", "dictkeys", "dict")


def m_contain(kind, items):
    if kind == "set":
        return set(items)
    if kind == "frozenset":
        return frozenset(items)
    if kind == "dict":
        return {x: None for x in items}
    return contain(kind, items)


def m_concretize(rng, case, fam, stress):
    nranks = max([x for a in case["args"] for x in a] + case["res"] + [1])
    if fam == "block":
        # size stress: a rank stands for a block of k distinct ints inside the rank's interval
        k = rng.choice([10, 100, 257, 1000]) if stress < 2 else rng.choice([1000, 4097])
        vals = {r: list(range(r * 10 ** 6, r * 10 ** 6 + k)) for r in range(1, nranks + 1)}
        args = []
        for a in case["args"]:
            items = []
            for x in a:
                blk = list(vals[x])
                rng.shuffle(blk)
                items += blk
            args.append(items)
        expect = [v for r in case["res"] for v in vals[r]]
        return dict(args=args, expect=expect, fam=fam, vals=None)
    vals = m_values(rng, fam, nranks)
    args = [[rng.choice(vals[x]) for x in a] for a in case["args"]]
    expect = [vals[r][0] for r in case["res"]]
    return dict(args=args, expect=expect, fam=fam, vals=vals)


def m_check(case, conc, name, kinds):
    fn = api(name)
    before = [list(a) for a in conc["args"]]
    argv = [m_contain(k, a) for k, a in zip(kinds, conc["args"])]
    st, got = call(fn, *argv)
    what = "%s(%s)" % (name, ", ".join("%s %s" % (k, short(a, 50)) for k, a in zip(kinds, before)))
    if st == "raise":
        return "%s raised %s: %s; specification: the sorted list of the distinct elements %s" % (what, type(got).__name__, short(str(got), 100), short(conc["expect"], 80))
    if type(got) is not list or len(got) != len(conc["expect"]) or any(not (a == b) for a, b in zip(got, conc["expect"])):
        return "%s = %s; specification: the strictly increasing list of the distinct elements of all arguments = %s" % (
            what, short(got, 120), short(conc["expect"], 120))
    for k, a, b, v in zip(kinds, conc["args"], before, argv):
        if a != b:
            return "%s changed its argument" % what
        if v is got:
            return "%s returned one of its arguments (not a new list)" % what
    return None


# ====================================================================== G: lines of a gzip file

def g_runs(rng, content, stress):
    """a concrete string per "x" of the content: mark + index + '|' + body (the projection back is unambiguous)"""
    marks = list("ABCDEFGHJKLMNPQRSTUVW")
    rng.shuffle(marks)
    pool = list("abxyz019 .:-+~") + ((NO_NL[2] + NO_NL[3] + NO_NL[4] + ["\x0b", "\x0c", "\x1c", "\x1d", "\x1e", "\t", "\x00"]) if stress else [])
    out = {}
    for i, s in enumerate(content, 1):
        if s == "x":
            n = 0 if stress == 0 else heavy(rng, stress >= 2)
            body = "".join(rng.choice(pool) for _ in range(min(n, 30)))
            if n > 30:
                body = (body * (n // 30 + 1))[:n]
            out[i] = marks[i % len(marks)] + str(i) + "|" + body
    return out


def g_text(content, runs, toks):
    return "".join(runs[t["i"]] if t["s"] == "x" else ("\n" if t["s"] == "n" else "\r") for t in toks)


def gz_member(rng, data, style=None):
    style = style or rng.choice(["gzip9", "gzip1", "stored", "zlib", "named"])
    if style == "stored":
        return gzip.compress(data, compresslevel=0, mtime=0)
    if style == "gzip1":
        return gzip.compress(data, compresslevel=1, mtime=rng.choice([0, 1, 2 ** 31 - 1]))
    if style == "zlib":
        c = zlib.compressobj(6, zlib.DEFLATED, 31)
        return c.compress(data) + c.flush()
    if style == "named":        # header with FNAME (and a comment-free FEXTRA-less layout of GzipFile)
        bio = io.BytesIO()
        with gzip.GzipFile(filename="Packages", mode="wb", fileobj=bio, mtime=12345) as g:
            g.write(data)
        return bio.getvalue()
    return gzip.compress(data, compresslevel=9, mtime=0)


def g_concretize(rng, case, stress, align=None):
    """-> dict(gz, content(bytes), lines, crlines, runs); gz is None for damage handled by the caller"""
    content = case["content"]
    runs = g_runs(rng, content, stress)
    toks = [{"i": i, "s": s} for i, s in enumerate(content, 1)]
    cuts = [0] + list(case["cuts"]) + [len(content)]
    members = [g_text(content, runs, toks[cuts[j]:cuts[j + 1]]).encode("utf-8") for j in range(len(cuts) - 1)]
    style = None
    if align and members and members[0]:
        # notes/SIZE_STRESS.md part 4: the first member ends exactly at / next to a block boundary of the reader
        style = "stored"
        first_x = next((i for i, s in enumerate(content, 1) if s == "x" and i <= cuts[1]), None)
        if first_x:
            cur = len(gz_member(rng, members[0], "stored"))
            pad = align - cur
            if pad > 0:
                # stored blocks: 5 bytes of overhead per 65535 bytes
                for _ in range(4):
                    runs[first_x] = runs[first_x] + "p" * pad
                    members[0] = g_text(content, runs, toks[cuts[0]:cuts[1]]).encode("utf-8")
                    pad = align - len(gz_member(rng, members[0], "stored"))
                    if pad == 0:
                        break
                    if pad < 0:
                        runs[first_x] = runs[first_x][:pad]
                        members[0] = g_text(content, runs, toks[cuts[0]:cuts[1]]).encode("utf-8")
                        break
    parts = [gz_member(rng, m, style if j == 0 else None) for j, m in enumerate(members)]
    gz = b"".join(parts)
    d = case["damage"]
    if d == "zeropad":
        gz += b"\0" * rng.choice([1, 2, 7, 512, 8192])
    elif d == "trunc":
        last = parts[-1]
        cut = rng.choice([1, 4, 7, 8, 9, len(last) - 1] if len(last) > 12 else [1, 4])
        gz = gz[:-cut]
    elif d == "crc":
        b = bytearray(gz)
        b[-5 - rng.randrange(3)] ^= 1 << rng.randrange(8)
        gz = bytes(b)
    elif d == "notgz":
        gz = rng.choice([g_text(content, runs, toks).encode("utf-8") or b"plain\n", b"BZh91AY&SY" + gz[10:], b"\x1f\x8c" + gz[2:],
                         b"<html>404</html>\n", b"\x1f"])
        if gz[:2] == b"\x1f\x8b":
            gz = b"x" + gz
    elif d == "garbage":
        gz += rng.choice([b"garbage", b"\x1f", b"\n", b"\0\0\0x"])
    elif d == "emptyfile":
        gz = b""
    elif d == "undecodable":
        bad = rng.choice([b"caf\xe9\n", b"\xff\xfe\n", b"\xc3\n", b"\xed\xa0\x80\n"])
        gz = gz_member(rng, b"".join(members) + bad)
    data = b"".join(members)
    return dict(gz=gz, content=data, runs=runs,
                lines=[g_text(content, runs, ln) for ln in case["lines"]],
                crlines=[g_text(content, runs, ln) for ln in case["crlines"]])


def g_project(content, runs, lines):
    """observed list of strings -> token lists (what TLC compares with GLines); [[{i:0,s:"?"}]] when it is not even a
    list of strings made of the pieces of the content"""
    bad = [[{"i": 0, "s": "?"}]]
    if not isinstance(lines, list):
        return bad
    pieces = sorted(((v, i) for i, v in runs.items()), key=lambda p: -len(p[0]))
    pos = {}       # next unused index per symbol kind, in content order
    order_n = [i for i, s in enumerate(content, 1) if s == "n"]
    order_r = [i for i, s in enumerate(content, 1) if s == "r"]
    out = []
    for ln in lines:
        if not isinstance(ln, str):
            return bad
        toks, p = [], 0
        while p < len(ln):
            if ln[p] == "\n":
                k = pos.get("n", 0)
                if k >= len(order_n):
                    return bad
                toks.append({"i": order_n[k], "s": "n"})
                pos["n"] = k + 1
                p += 1
                continue
            if ln[p] == "\r":
                k = pos.get("r", 0)
                if k >= len(order_r):
                    return bad
                toks.append({"i": order_r[k], "s": "r"})
                pos["r"] = k + 1
                p += 1
                continue
            for v, i in pieces:
                if ln.startswith(v, p):
                    toks.append({"i": i, "s": "x"})
                    p += len(v)
                    break
            else:
                return bad
        out.append(toks)
    return out


def file_url(path, form="plain"):
    from urllib.parse import quote
    if form == "localhost":
        return "file://localhost" + quote(path)
    if form == "dotseg":
        return "file://" + quote(os.path.dirname(path)) + "/./" + quote(os.path.basename(path))
    return "file://" + quote(path)


URL_FORMS = ("plain", "localhost", "dotseg")


# ====================================================================== replay of TLC cases (one function per part)

def utf8_locale():
    import codecs
    import locale
    try:
        return codecs.lookup(locale.getpreferredencoding(False)).name == "utf-8"
    except LookupError:
        return False


def h_one(seed, idx, case, variant):
    """-> list of result dicts for one H case under one variant (several functions / containers)"""
    rng = random.Random("x18-H-%s-%s-%s" % (seed, idx, variant))
    stress = (0, 1, 1, 2)[variant % 4]
    conc = h_concretize(rng, case, stress)
    out = []
    k = idx + variant
    picks = [HASH_FNS[k % 3], HASH_FNS[(k + 1) % 3]] if variant == 0 else [HASH_FNS[k % 3]]
    for j, (name, algo) in enumerate(picks):
        container = CONTAINERS[(k + j) % 6]         # dictkeys excluded: items repeat
        msg = h_check(case, conc, name, algo, container, kw=(k + j) % 5 == 0)
        out.append({"part": "H", "idx": idx, "variant": variant, "status": "violation" if msg else "ok", "msg": msg or "",
                    "fn": name, "container": container, "size": len(conc["data"])})
    return out


def p_one(seed, idx, case, variant):
    rng = random.Random("x18-P-%s-%s-%s" % (seed, idx, variant))
    stress = (0, 1, 2)[variant % 3]
    conc = p_concretize(rng, case, stress)
    k = idx + variant
    name = ("patch_lines", "patchLines")[k % 2]
    form = HUNK_FORMS[k % len(HUNK_FORMS)]
    r = p_check(case, conc, name, form, kw=k % 7 == 0)
    res = {"part": "P", "idx": idx, "variant": variant, "fn": name, "form": form, "typ": conc["typ"], "zone": case["zone"],
           "size": len(conc["buf"]), "status": "ok", "msg": ""}
    if isinstance(r, tuple):
        res["status"], res["msg"] = r
    elif r:
        res["status"], res["msg"] = "violation", r
    return [res]


def m_one(seed, idx, case, variant):
    rng = random.Random("x18-M-%s-%s-%s" % (seed, idx, variant))
    k = idx + variant
    fam = M_FAMILIES[k % len(M_FAMILIES)]
    nranks = max([x for a in case["args"] for x in a] + [1])
    conc = m_concretize(rng, case, fam, variant % 3)
    kinds = [M_CONTAINERS[(k + j * 3) % len(M_CONTAINERS)] for j in range(len(case["args"]))]
    name = ("merge_as_sets", "mergeAsSets")[k % 2]
    msg = m_check(case, conc, name, kinds)
    return [{"part": "M", "idx": idx, "variant": variant, "fn": name, "fam": fam, "kinds": kinds, "status": "violation" if msg else "ok",
             "msg": msg or "", "size": sum(len(a) for a in conc["args"]), "nranks": nranks}]


ALIGN = [8192, 65536, 131072]


def g_one(seed, idx, case, variant, base):
    """download_gunzip_lines (and, for a rotating part, download_file) on the concretized gzip file of a G case"""
    import tempfile
    rng = random.Random("x18-G-%s-%s-%s" % (seed, idx, variant))
    stress = (0, 1, 2, 1)[variant % 4] if utf8_locale() else 0
    align = None
    if variant == 3 and case["damage"] == "none" and "x" in (case["content"][:case["cuts"][0]] if case["cuts"] else case["content"]):
        align = rng.choice(ALIGN) + rng.choice([-1, 0, 1])
    conc = g_concretize(rng, case, stress, align)
    repo, tmpd, ldir = os.path.join(base, "repo sp+\u00e9~"), os.path.join(base, "tmp"), os.path.join(base, "ldir")
    for d in (repo, tmpd, ldir):
        if os.path.isdir(d):
            for e in os.listdir(d):
                os.unlink(os.path.join(d, e))
        else:
            os.makedirs(d)
    path = os.path.join(repo, "Packages")
    with open(path + ".gz", "wb") as f:
        f.write(conc["gz"])
    k = idx + idx // 4 + variant
    d = ds()
    out = []
    old_tmp = tempfile.tempdir
    tempfile.tempdir = tmpd
    try:
        name = ("download_gunzip_lines", "downloadGunzipLines")[k % 2]
        form = URL_FORMS[k % 3]
        url = file_url(path, form)
        st, got = call(api(name), remote=url + ".gz") if k % 5 == 0 else call(api(name), url + ".gz")
        res = {"part": "G", "idx": idx, "variant": variant, "fn": name, "url": form, "damage": case["damage"], "status": "ok", "msg": "",
               "size": len(conc["gz"]), "align": align, "exc": type(got).__name__ if st == "raise" else "none", "members": len(case["cuts"]) + 1}
        what = "%s(file:// URL of a gzip file: %d member(s), %d bytes, damage %s; content %s)" % (
            name, len(case["cuts"]) + 1, len(conc["gz"]), case["damage"], short(conc["content"], 80))
        left = sorted(os.listdir(tmpd))
        if left:
            res["status"], res["msg"] = "violation", "%s left %r in the temporary directory; specification: the temporary file is removed on every path" % (what, left)
        elif case["expect"] == "lines":
            if st == "raise":
                res["status"], res["msg"] = "violation", "%s raised %s: %s; specification: the lines %s" % (what, type(got).__name__, short(str(got), 100), short(conc["lines"], 100))
            elif got == conc["lines"]:
                pass
            elif case["hascr"] and got == conc["crlines"]:
                res["status"], res["msg"] = "unspecified", "carriage returns read as line ends"
            else:
                res["status"], res["msg"] = "violation", "%s = %s; specification: the decompressed text cut after every newline and nowhere else: %s" % (
                    what, short(got, 160), short(conc["lines"], 160))
        elif case["expect"] == "raise":
            if st != "raise":
                res["status"], res["msg"] = "violation", "%s returned %s; specification: a file that is not gzip / truncated / fails its CRC raises" % (what, short(got, 100))
        else:
            res["status"], res["msg"] = "unspecified", "%s: %s" % (case["damage"], "raised " + type(got).__name__ if st == "raise" else "returned %d lines" % len(got))
        out.append(res)
        # download_file on the same remote: the local copy is the decompressed file
        if case["expect"] == "lines" and (case["hascr"] or k % 3 == 0):
            local = os.path.join(ldir, "Packages")
            oldb = None
            if k % 2:
                oldb = b"old local copy\n"
                with open(local, "wb") as f:
                    f.write(oldb)
            name2 = ("download_file", "downloadFile")[(k // 2) % 2]
            st, got = call(api(name2), url, local)
            r2 = {"part": "G", "idx": idx, "variant": variant, "fn": name2, "url": form, "damage": case["damage"], "status": "ok", "msg": "",
                  "size": len(conc["gz"]), "align": align, "exc": type(got).__name__ if st == "raise" else "none", "members": len(case["cuts"]) + 1}
            what2 = "%s(file:// URL of a gzip file: %d member(s), content %s)" % (name2, len(case["cuts"]) + 1, short(conc["content"], 80))
            try:
                with open(local, "rb") as f:
                    now = f.read()
            except OSError:
                now = None
            entries, left = sorted(os.listdir(ldir)), sorted(os.listdir(tmpd))
            crb = "".join(conc["crlines"]).encode("utf-8")
            if st == "raise":
                r2["status"], r2["msg"] = "violation", "%s raised %s: %s" % (what2, type(got).__name__, short(str(got), 100))
            elif entries != ["Packages"] or left:
                r2["status"], r2["msg"] = "violation", "%s left %r next to the local file and %r in the temporary directory" % (what2, entries, left)
            elif now == conc["content"] and (got == conc["lines"] or (case["hascr"] and got == conc["crlines"])):
                pass
            elif case["hascr"] and now == crb and now != conc["content"]:
                r2["status"], r2["msg"] = "known-cr", "%s: local file is %s, the decompressed remote file is %s" % (what2, short(now, 60), short(conc["content"], 60))
            else:
                r2["status"], r2["msg"] = "violation", "%s: the local file is %s and the call returned %s; specification: the local file is the decompressed remote file %s, returned are its lines %s" % (
                    what2, short(now, 100), short(got, 100), short(conc["content"], 100), short(conc["lines"], 100))
            out.append(r2)
    finally:
        tempfile.tempdir = old_tmp
    return out


def value_chunk(args):
    """pool worker: tasks = [(part, idx, case, variant)]"""
    base, seed, tasks = args
    base = os.path.join(base, "v%d" % os.getpid())
    out = []
    done = []
    for part, idx, case, variant in tasks:
        if part == "H":
            res = h_one(seed, idx, case, variant)
        elif part == "P":
            res = p_one(seed, idx, case, variant)
        elif part == "M":
            res = m_one(seed, idx, case, variant)
        else:
            res = g_one(seed, idx, case, variant, base)
        for r in res:
            r["before"] = list(done)       # earlier calls of this process (state kept by the code under test would come from them)
        done.append((part, idx, variant))
        out += res
    import shutil
    shutil.rmtree(base, ignore_errors=True)
    return out


# ====================================================================== recorded call histories (code -> spec)

def vhistory(seed, hidx, nops, base):
    """a random history of helper calls in one process -> list of events for TracePdiffHelpers"""
    import tempfile
    rng = random.Random("x18-vhist-%s-%s" % (seed, hidx))
    d = ds()
    typ = rng.choice(["str", "bytes"])
    uniq = {}       # line id -> concrete line (distinct texts: the projection back is unambiguous)

    def line(i):
        if i not in uniq:
            while True:
                t = "%d:%s" % (i, rng.choice(LINE_POOL))
                if rng.random() < 0.15:
                    t = "%d:" % i + rng.choice(NO_NL[2] + NO_NL[3]) * heavy(rng) + "\n"
                t = t.encode("utf-8") if typ == "bytes" else t
                if t not in uniq.values():
                    break
            uniq[i] = t
        return uniq[i]
    bufs, alias = {}, {}
    nextid = [100]
    events = []
    last_hunks = None

    def proj(lst):
        rev = {v: k for k, v in uniq.items()}
        return [rev.get(x, 0) if isinstance(x, (str, bytes)) else 0 for x in lst]

    def after():
        return {b: proj(v) for b, v in bufs.items()}
    for _ in range(nops):
        r = rng.random()
        if r < 0.12 and len(bufs) < 3 or not bufs and r < 0.5:
            b = "b%d" % (len(bufs) + 1)
            ids = [rng.randint(1, 9) for _ in range(rng.choice([0, 1, 2, 3, 5, 8, 17, 33]))]
            bufs[b] = [line(i) for i in ids]
            alias[b] = bufs[b]
            events.append({"op": "new", "b": b, "v": ids})
        elif r < 0.55 and bufs:
            b = rng.choice(sorted(bufs))
            n = len(bufs[b])
            if last_hunks is not None and rng.random() < 0.25:
                hs = last_hunks                         # the SAME list of hunks applied again (to another list, perhaps)
            else:
                hs = []
                for _h in range(rng.choice([0, 1, 1, 2, 3])):
                    z = rng.random()
                    if z < 0.85:
                        f = rng.randint(0, n)
                        l = rng.randint(f, n)
                    elif z < 0.97:
                        f = rng.randint(0, n + 2)
                        l = rng.randint(max(f, n + 1), n + 3)
                    else:
                        l = rng.randint(0, n)
                        f = l + rng.randint(1, 2)
                    a = []
                    for _a in range(rng.choice([0, 1, 1, 2, 3])):
                        nextid[0] += 1
                        a.append(rng.choice([nextid[0], rng.randint(1, 9)]))
                    hs.append((f, l, a))
                    n = n - (max(min(f, n), min(l, n)) - min(f, n)) + len(a)
            conc = [(f, l, [line(i) for i in a]) for f, l, a in hs]
            last_hunks = hs
            form = rng.choice(HUNK_FORMS)
            fn = api(rng.choice(["patch_lines", "patchLines"]))
            patches = p_patches(form, conc)
            target = alias[b] if rng.random() < 0.5 else bufs[b]
            st, got = call(fn, lines=target, patches=patches) if rng.random() < 0.2 else call(fn, target, patches)
            events.append({"op": "patch", "b": b, "hunks": [{"f": f, "l": l, "a": a} for f, l, a in hs], "out": "ok" if st == "ok" else "raise",
                           "after": after()})
            # what the call was given must not be tied to the list: change it and look again
            if isinstance(patches, (list, tuple)) and patches and rng.random() < 0.6:
                for h in patches:
                    try:
                        h[2].append(line(99))
                        h[2][:1] = []
                    except (AttributeError, TypeError, IndexError):
                        pass
                for f, l, a in conc:
                    a.append(line(98))
                events.append({"op": "frame", "after": after()})
        elif r < 0.72:
            text = [rng.randint(1, 4) for _ in range(rng.choice([0, 1, 2, 3, 4]))]
            total = sum(text)
            nch = rng.choice([0, 1, 2, 3, 4]) if total == 0 else rng.choice([1, 2, 3, 4])
            cuts = sorted(rng.randint(0, total) for _ in range(max(0, nch - 1)))
            bounds = {0}
            acc = 0
            for L in text:
                acc += L
                bounds.add(acc)
            chunks = []
            for j in range(nch):
                lo = 0 if j == 0 else cuts[j - 1]
                hi = total if j == nch - 1 else cuts[j]
                kind = "str" if lo in bounds and hi in bounds and rng.random() < 0.6 else "bytes"
                chunks.append({"kind": kind, "lo": lo, "hi": hi})
            case = {"text": text, "chunks": chunks}
            conc = h_concretize(rng, case, rng.choice([0, 1, 1, 2]))
            name, algo = rng.choice(HASH_FNS)
            st, got = h_call(name, conc["items"], rng.choice(CONTAINERS[:6]), rng.random() < 0.2)
            full = [[i, b] for i, L in enumerate(text, 1) for b in range(1, L + 1)]
            ok = st == "ok" and got == hashlib.new(algo, conc["data"]).hexdigest()
            events.append({"op": "hash", "text": text, "chunks": chunks, "got": full if ok else [[0, 0]], "fn": name})
        elif r < 0.88:
            nr = 5
            args = [[rng.randint(1, nr) for _ in range(rng.choice([0, 1, 2, 3, 6]))] for _ in range(rng.choice([0, 1, 2, 3, 4]))]
            fam = rng.choice(M_FAMILIES[:-1])
            vals = m_values(rng, fam, nr)
            cargs = [[rng.choice(vals[x]) for x in a] for a in args]
            kinds = [rng.choice(M_CONTAINERS) for _ in args]
            st, got = call(api(rng.choice(["merge_as_sets", "mergeAsSets"])), *[m_contain(k, a) for k, a in zip(kinds, cargs)])
            res = [0]
            if st == "ok" and isinstance(got, list):
                res = []
                for x in got:
                    rk = [r_ for r_, vs in vals.items() if any(x is v or (type(x) is type(v) and x == v) or x == v for v in vs)]
                    res.append(rk[0] if rk else 0)
                if isinstance(got, list) and got and rng.random() < 0.5:
                    got.append(got[0])          # the result belongs to the caller
            events.append({"op": "merge", "args": args, "res": res, "fam": fam})
        else:
            content = [rng.choice(["x", "x", "n"]) for _ in range(rng.choice([0, 1, 2, 3, 4, 5]))]
            nm = rng.choice([1, 1, 2, 3])
            cuts = sorted(rng.randint(0, len(content)) for _ in range(nm - 1))
            damage = rng.choice(["none", "none", "none", "zeropad", "trunc", "crc", "notgz", "garbage", "undecodable"])
            if damage not in ("none", "zeropad"):
                cuts = cuts[:1]
            toks = [{"i": i, "s": s} for i, s in enumerate(content, 1)]
            case = {"content": content, "cuts": cuts, "damage": damage, "lines": [], "crlines": []}
            conc = g_concretize(rng, case, rng.choice([0, 1]) if utf8_locale() else 0)
            tmpd = os.path.join(base, "tmp")
            os.makedirs(tmpd, exist_ok=True)
            path = os.path.join(base, "hist.gz")
            with open(path, "wb") as f:
                f.write(conc["gz"])
            old_tmp = tempfile.tempdir
            tempfile.tempdir = tmpd
            try:
                st, got = call(api(rng.choice(["download_gunzip_lines", "downloadGunzipLines"])), file_url(path, rng.choice(URL_FORMS)))
            finally:
                tempfile.tempdir = old_tmp
            left = os.listdir(tmpd)
            for e in left:
                os.unlink(os.path.join(tmpd, e))
            events.append({"op": "gunzip", "content": content, "cuts": cuts, "damage": damage,
                           "out": "leak" if left else ("lines" if st == "ok" else "raise"),
                           "got": g_project(content, conc["runs"], got) if st == "ok" else []})
    return events


def vhistory_chunk(args):
    base, seed, hidxs, nops = args
    base = os.path.join(base, "vh%d" % os.getpid())
    os.makedirs(base, exist_ok=True)
    out = [(h, vhistory(seed, h, nops, base)) for h in hidxs]
    import shutil
    shutil.rmtree(base, ignore_errors=True)
    return out
