"""X18 helper: concretization, execution and projection for the value-level helpers of
debian.debian_support (spec/PdiffHelpers.tla): read_lines_sha1 / read_lines_sha256 (H), patch_lines (P),
merge_as_sets (M) and the decoding of download_gunzip_lines (G).

Every function here either turns an abstract case of TLC into concrete arguments, drives the real
function, or projects an observation back onto the abstract vocabulary.  Expected results are TLC's
(the `pre`, `res`, `lines` fields of the CASE lines); hashlib / gzip / zlib are reference libraries used
to build inputs and to turn TLC's byte sequence into a digest."""
import collections
import gzip
import hashlib
import io
import os
import random
import warnings
import zlib

BOUNDARY = [1, 2, 7, 8, 9, 15, 16, 17, 31, 32, 33, 63, 64, 65, 71, 72, 73, 79, 80, 81, 127, 128, 129, 255, 256, 257,
            1023, 1024, 1025, 4095, 4096, 4097, 8191, 8192, 8193]
BIG = [65535, 65536, 65537]
COUNTS = [0, 1, 2, 3, 9, 10, 11, 16, 17, 31, 32, 33, 99, 100, 101, 255, 256, 257]

# characters by UTF-8 length (notes/SIZE_STRESS.md part 2/3: not NFC-stable, case-mapping hazards, BOM, zero-width,
# non-BMP, str.splitlines boundaries, every kind of trailing byte)
CH1 = list("abXYZ019 .:-+~_\t#") + ["\n", "\x0b", "\x0c", "\x1c", "\x1d", "\x1e", "\r", "\x00", "\x7f"]
CH2 = ["\u00e9", "\u00df", "\u0130", "\u0131", "\u017f", "\u0301", "\u0085", "\u00a0", "\u00ad", "\u03c2"] + [chr(c) for c in range(0x400, 0x440, 7)]
CH3 = ["\u20ac", "\u2028", "\u2029", "\ufeff", "\ufb01", "\u212b", "\u2126", "\uf9d0", "\uff21", "\u200b", "\u200d", "\u3000", "\u1100",
       "\u4e2d", "\u2003"]
CH4 = ["\U0001f600", "\U0010ffff", "\U00010400", "\U0001d11e"]
CHARS = {1: CH1, 2: CH2, 3: CH3, 4: CH4}
# the same without the characters that end a line for the formats / readers involved
NO_NL = {k: [c for c in v if c not in "\n\r"] for k, v in CHARS.items()}


def heavy(rng, big=False):
    """a heavy-tailed length that regularly hits the boundary neighbourhoods"""
    r = rng.random()
    if r < 0.55:
        return rng.randint(1, 12)
    if r < 0.93 or not big:
        return rng.choice(BOUNDARY)
    return rng.choice(BIG)


def ds():
    from debian import debian_support
    return debian_support


def call(fn, *a, **kw):
    """-> ("ok", value) | ("raise", exception); DeprecationWarnings of the camelCase aliases ignored"""
    try:
        with warnings.catch_warnings():
            warnings.simplefilter("ignore")
            return "ok", fn(*a, **kw)
    except KeyboardInterrupt:
        raise
    except BaseException as e:      # noqa: B036 -- an observation
        return "raise", e


def short(x, n=140):
    s = x if isinstance(x, str) else repr(x)
    return s if len(s) <= n else s[:n // 2] + "...(%d)..." % len(s) + s[-n // 3:]


class Lines(object):
    """an iterable that is neither a sequence nor an iterator"""
    def __init__(self, items):
        self.items = items

    def __iter__(self):
        return iter(list(self.items))


CONTAINERS = ("list", "tuple", "iter", "gen", "deque", "custom", "dictkeys")


def contain(kind, items):
    items = list(items)
    if kind == "list":
        return items
    if kind == "tuple":
        return tuple(items)
    if kind == "iter":
        return iter(items)
    if kind == "gen":
        return (x for x in items)
    if kind == "deque":
        return collections.deque(items)
    if kind == "custom":
        return Lines(items)
    if kind == "dictkeys":      # only for distinct hashable items; falls back to a list otherwise
        try:
            d = dict.fromkeys(items)
            if len(d) == len(items):
                return d.keys()
        except TypeError:
            pass
        return items
    raise ValueError(kind)


# ====================================================================== H: digests

HASH_FNS = (("read_lines_sha1", "sha1"), ("readLinesSHA1", "sha1"), ("read_lines_sha256", "sha256"))


def h_concretize(rng, case, stress):
    """-> dict(data, items, runs): every abstract character (UTF-8 length L) stands for a run of r characters of
    length L; a cut inside an abstract character falls inside the LAST character of its run"""
    text = case["text"]
    runs, chars = [], []
    for L in text:
        r = 1 if stress == 0 else (heavy(rng, stress >= 2) if rng.random() < 0.5 else 1)
        pool = CHARS[L]
        cs = [rng.choice(pool) for _ in range(min(r, 40))]
        if r > 40:
            cs = (cs * (r // 40 + 1))[:r]
        runs.append(r)
        chars.append(cs)
    starts, off = [], 0          # byte offset where the run of abstract character i starts
    for L, r in zip(text, runs):
        starts.append(off)
        off += L * r
    total = off
    data = "".join("".join(cs) for cs in chars).encode("utf-8")
    assert len(data) == total

    def conc_off(o):
        """abstract byte offset -> concrete byte offset"""
        acc = 0
        for i, L in enumerate(text):
            if o == acc:
                return starts[i]
            if o < acc + L:
                return starts[i] + (runs[i] - 1) * L + (o - acc)
            acc += L
        return total
    items = []
    for ch in case["chunks"]:
        b = data[conc_off(ch["lo"]):conc_off(ch["hi"])]
        items.append(b.decode("utf-8") if ch["kind"] == "str" else b)

    def pre_bytes(pre):
        """TLC's byte sequence [[char, byte], ...] -> concrete bytes"""
        out = []
        for i, b in pre:
            L, r = text[i - 1], runs[i - 1]
            enc = [c.encode("utf-8") for c in chars[i - 1]]
            if b == 1:
                out.append(b"".join(enc[:r - 1]))
            out.append(enc[r - 1][b - 1:b])
        return b"".join(out)
    return dict(data=data, items=items, runs=runs, pre_bytes=pre_bytes)


def h_call(name, items, container, kw=False):
    fn = getattr(ds(), name)
    arg = contain(container, items)
    return call(fn, lines=arg) if kw else call(fn, arg)


def h_check(case, conc, name, algo, container, kw=False):
    """None or a message; the expectation is the digest of the byte sequence TLC gives for the case"""
    want = hashlib.new(algo, conc["pre_bytes"](case["pre"])).hexdigest()
    before = list(conc["items"])
    st, got = h_call(name, conc["items"], container, kw)
    what = "%s(%s of %d items %s)" % (name, container, len(before), short([x if len(x) < 30 else x[:12] + x[-12:] for x in before], 160))
    if st == "raise":
        return "%s raised %s: %s; specification: the %s digest of the concatenation (%d bytes)" % (
            what, type(got).__name__, short(str(got), 100), algo, len(conc["data"]))
    if got != want:
        return "%s = %r; specification: %s of the concatenation of the items (%d bytes) = %r" % (what, got, algo, len(conc["data"]), want)
    if conc["items"] != before:
        return "%s changed the list it was given" % what
    return None


# ====================================================================== P: patch_lines

LINE_POOL = ["Package: foo\n", "Version: 1:4.14-2\n", " continued\n", "\n", "a\x0bb\n", "\x0c\n", "x\x1c\x1d\x1e\n", "caf\u00e9 \u00df\u0130\n",
             "\u2028\n", "a\u2029b\n", "\u0085\n", "a\rb\n", "\ufeffBOM\n", "\u00e9\n", "e\u0301\n", "\U0001f600\n", ".\n", "..\n", "1d\n",
             "no newline", "", "0a\n", "\u0434\u0435\u043d\u044c\n", "tab\t\n", "\u212b\n", "\u00c5\n", "x\u00a0y\n", "\u0438\u0439\n"]


def p_lines_for(rng, ids, typ, stress):
    """concrete line(s) per abstract line id: id -> list of lines (a run); identical texts for different ids allowed"""
    m = {}
    for i in ids:
        r = 1
        if stress >= 1 and rng.random() < 0.4:
            r = rng.choice(COUNTS[1:]) if stress == 1 else rng.choice([100, 257, 1000, 4097])
        run = []
        for j in range(min(r, 50)):
            t = rng.choice(LINE_POOL)
            if stress >= 1 and rng.random() < 0.2:
                t = rng.choice(NO_NL[1] + NO_NL[2] + NO_NL[3]) * heavy(rng, stress >= 2) + "\n"
            run.append(t)
        if r > 50:
            run = (run * (r // 50 + 1))[:r]
        if typ == "bytes":
            run = [x.encode("utf-8") for x in run]
        m[i] = run
    return m


def p_concretize(rng, case, stress, typ=None):
    """-> dict(buf, hunks, expect, typ); abstract line i = run m[i]; indexes are scaled with the runs"""
    typ = typ or rng.choice(["str", "str", "bytes"])
    ids = sorted(set(case["buf"]) | {x for h in case["hunks"] for x in h["a"]} | set(case.get("res", [])))
    m = p_lines_for(rng, ids, typ, stress)
    # the scaling of an index depends on the buffer the hunk is applied to: replay abstractly to know it
    cur = list(case["buf"])
    hunks = []
    for h in case["hunks"]:
        def scale(k):
            if k <= len(cur):
                return sum(len(m[x]) for x in cur[:k])
            return sum(len(m[x]) for x in cur) + (k - len(cur)) * (1 if stress == 0 else rng.choice([1, 3, 2 ** 31, 2 ** 63]))
        f, l = scale(h["f"]), scale(h["l"])
        if h["f"] > h["l"] and f <= l:
            f = l + 1
        hunks.append((f, l, [x for a in h["a"] for x in m[a]]))
        n = len(cur)
        ff = min(h["f"], n)
        ll = max(ff, min(h["l"], n))
        cur = cur[:ff] + list(h["a"]) + cur[ll:]
    return dict(buf=[x for i in case["buf"] for x in m[i]], hunks=hunks, typ=typ,
                expect=[x for i in case["res"] for x in m[i]], m=m)


HUNK_FORMS = ("list-of-tuples", "tuple-of-tuples", "gen", "iter", "list-of-lists", "custom")


def p_patches(form, hunks):
    hs = [(f, l, list(a)) for f, l, a in hunks]
    if form == "list-of-tuples":
        return hs
    if form == "tuple-of-tuples":
        return tuple(hs)
    if form == "gen":
        return (h for h in hs)
    if form == "iter":
        return iter(hs)
    if form == "list-of-lists":
        return [[f, l, a] for f, l, a in hs]
    if form == "custom":
        return Lines(hs)
    raise ValueError(form)


def p_check(case, conc, name, form, kw=False):
    """None | message | ("unspecified", note)"""
    fn = getattr(ds(), name)
    buf = list(conc["buf"])
    alias = buf                         # the caller's list: patched in place
    patches = p_patches(form, conc["hunks"])
    st, got = call(fn, lines=buf, patches=patches) if kw else call(fn, buf, patches)
    what = "%s(%d lines, %s of %d hunks %s)" % (name, len(conc["buf"]), form, len(conc["hunks"]),
                                              short([(f, l, len(a)) for f, l, a in conc["hunks"]], 120))
    zone = case["zone"]
    if zone == "odd":
        return ("unspecified", "reversed range")
    if st == "raise":
        if zone == "beyond":
            return ("unspecified", "hunk beyond the end refused with %s" % type(got).__name__)
        return "%s raised %s: %s; specification: the hunks applied one after the other, in place" % (what, type(got).__name__, short(str(got), 100))
    if alias != conc["expect"]:
        n = next((i for i, (a, b) in enumerate(zip(alias, conc["expect"])) if a != b), min(len(alias), len(conc["expect"])))
        return "%s left the caller's list with %d lines (first difference at line %d: %s); specification: %d lines (%s): every hunk replaces lines[first:last] of the list as the previous hunks left it, in the order given" % (
            what, len(alias), n, short(alias[n:n + 2], 60), len(conc["expect"]), short(conc["expect"][n:n + 2], 60))
    if got is not None and got is not buf:
        return ("diag", "return value is %s" % type(got).__name__)
    return None


# ====================================================================== M: merge_as_sets

M_FAMILIES = ("int", "bigint", "str", "bytes", "tuple", "float-int", "release", "version", "block")
RELEASES = ["buzz", "hamm", "potato", "sarge", "etch", "lenny", "wheezy", "buster", "trixie", "sid"]
VERSIONS = ["0.9", "1.0~rc1", "1.0", "1.0-1", "1.0-1+b1", "1.0.1", "1:0.1", "2:0"]


def m_values(rng, fam, nranks):
    """rank -> list of interchangeable values (equal and equal hash), strictly increasing with the rank"""
    if fam == "int":
        base = sorted(rng.sample(range(-50, 50), nranks))
        return {r + 1: [base[r]] for r in range(nranks)}
    if fam == "bigint":
        pool = sorted(rng.sample([-2 ** 63, -2 ** 31 - 1, -1, 0, 9, 10, 99, 100, 2 ** 15, 2 ** 16, 2 ** 31 - 1, 2 ** 31, 2 ** 32 - 1, 2 ** 32,
                                  2 ** 63 - 1, 2 ** 63, 10 ** 18, 10 ** 30], nranks))
        return {r + 1: [pool[r]] for r in range(nranks)}
    if fam == "str":
        pool = ["", " ", "A", "Z", "a", "e\u0301", "z", "\u00c5", "\u00e9", "\u00df", "\u0130", "\u0131", "\u017f", "\u212b", "\u2126", "\ufb01", "\uff21",
                "\ufeff", "\U0001f600", "a" * 255, "a" * 256, "a" * 8192, "a\x00"]
        vals = sorted(rng.sample(pool, nranks))
        return {r + 1: [vals[r]] for r in range(nranks)}
    if fam == "bytes":
        pool = [b"", b"\x00", b"A", b"a", b"a\x00", b"\x7f", b"\x80", b"\xc3\xa9", b"\xff", b"a" * 4096]
        vals = sorted(rng.sample(pool, nranks))
        return {r + 1: [vals[r]] for r in range(nranks)}
    if fam == "tuple":
        vals = sorted(rng.sample([(0, ""), (0, "a"), (1, ""), (1, "A"), (1, "a"), (2, "\u00e9"), (2 ** 40, "x")], nranks))
        return {r + 1: [vals[r]] for r in range(nranks)}
    if fam == "float-int":      # equal numbers of different type are ONE element
        base = sorted(rng.sample(range(-5, 6), nranks))
        return {r + 1: [base[r], float(base[r])] + ([True] if base[r] == 1 else []) + ([False] if base[r] == 0 else []) for r in range(nranks)}
    if fam == "release":
        d = ds()
        names = sorted(rng.sample(range(len(RELEASES)), nranks))
        return {r + 1: [d.intern_release(RELEASES[names[r]])] for r in range(nranks)}
    if fam == "version":
        d = ds()
        idx = sorted(rng.sample(range(len(VERSIONS)), nranks))
        return {r + 1: [d.Version(VERSIONS[idx[r]])] for r in range(nranks)}
    raise ValueError(fam)


M_CONTAINERS = ("list", "tuple", "iter", "gen", "deque", "custom", "set", "frozenset", "dictkeys", "dict")


def m_contain(kind, items):
    if kind == "set":
        return set(items)
    if kind == "frozenset":
        return frozenset(items)
    if kind == "dict":
        return {x: None for x in items}
    return contain(kind, items)


def m_concretize(rng, case, fam, stress):
    nranks = max([x for a in case["args"] for x in a] + case["res"] + [1])
    if fam == "block":
        # size stress: a rank stands for a block of k distinct ints inside the rank's interval
        k = rng.choice([10, 100, 257, 1000]) if stress < 2 else rng.choice([1000, 4097])
        vals = {r: list(range(r * 10 ** 6, r * 10 ** 6 + k)) for r in range(1, nranks + 1)}
        args = []
        for a in case["args"]:
            items = []
            for x in a:
                blk = list(vals[x])
                rng.shuffle(blk)
                items += blk
            args.append(items)
        expect = [v for r in case["res"] for v in vals[r]]
        return dict(args=args, expect=expect, fam=fam, vals=None)
    vals = m_values(rng, fam, nranks)
    args = [[rng.choice(vals[x]) for x in a] for a in case["args"]]
    expect = [vals[r][0] for r in case["res"]]
    return dict(args=args, expect=expect, fam=fam, vals=vals)


def m_check(case, conc, name, kinds):
    fn = getattr(ds(), name)
    before = [list(a) for a in conc["args"]]
    argv = [m_contain(k, a) for k, a in zip(kinds, conc["args"])]
    st, got = call(fn, *argv)
    what = "%s(%s)" % (name, ", ".join("%s %s" % (k, short(a, 50)) for k, a in zip(kinds, before)))
    if st == "raise":
        return "%s raised %s: %s; specification: the sorted list of the distinct elements %s" % (what, type(got).__name__, short(str(got), 100), short(conc["expect"], 80))
    if type(got) is not list or len(got) != len(conc["expect"]) or any(not (a == b) for a, b in zip(got, conc["expect"])):
        return "%s = %s; specification: the strictly increasing list of the distinct elements of all arguments = %s" % (
            what, short(got, 120), short(conc["expect"], 120))
    for k, a, b, v in zip(kinds, conc["args"], before, argv):
        if a != b:
            return "%s changed its argument" % what
        if v is got:
            return "%s returned one of its arguments (not a new list)" % what
    return None


# ====================================================================== G: lines of a gzip file

def g_runs(rng, content, stress):
    """a concrete string per "x" of the content: mark + index + '|' + body (the projection back is unambiguous)"""
    marks = list("ABCDEFGHJKLMNPQRSTUVW")
    rng.shuffle(marks)
    pool = list("abxyz019 .:-+~") + ((NO_NL[2] + NO_NL[3] + NO_NL[4] + ["\x0b", "\x0c", "\x1c", "\x1d", "\x1e", "\t", "\x00"]) if stress else [])
    out = {}
    for i, s in enumerate(content, 1):
        if s == "x":
            n = 0 if stress == 0 else heavy(rng, stress >= 2)
            body = "".join(rng.choice(pool) for _ in range(min(n, 30)))
            if n > 30:
                body = (body * (n // 30 + 1))[:n]
            out[i] = marks[i % len(marks)] + str(i) + "|" + body
    return out


def g_text(content, runs, toks):
    return "".join(runs[t["i"]] if t["s"] == "x" else ("\n" if t["s"] == "n" else "\r") for t in toks)


def gz_member(rng, data, style=None):
    style = style or rng.choice(["gzip9", "gzip1", "stored", "zlib", "named"])
    if style == "stored":
        return gzip.compress(data, compresslevel=0, mtime=0)
    if style == "gzip1":
        return gzip.compress(data, compresslevel=1, mtime=rng.choice([0, 1, 2 ** 31 - 1]))
    if style == "zlib":
        c = zlib.compressobj(6, zlib.DEFLATED, 31)
        return c.compress(data) + c.flush()
    if style == "named":        # header with FNAME (and a comment-free FEXTRA-less layout of GzipFile)
        bio = io.BytesIO()
        with gzip.GzipFile(filename="Packages", mode="wb", fileobj=bio, mtime=12345) as g:
            g.write(data)
        return bio.getvalue()
    return gzip.compress(data, compresslevel=9, mtime=0)


def g_concretize(rng, case, stress, align=None):
    """-> dict(gz, content(bytes), lines, crlines, runs); gz is None for damage handled by the caller"""
    content = case["content"]
    runs = g_runs(rng, content, stress)
    toks = [{"i": i, "s": s} for i, s in enumerate(content, 1)]
    cuts = [0] + list(case["cuts"]) + [len(content)]
    members = [g_text(content, runs, toks[cuts[j]:cuts[j + 1]]).encode("utf-8") for j in range(len(cuts) - 1)]
    style = None
    if align and members and members[0]:
        # notes/SIZE_STRESS.md part 4: the first member ends exactly at / next to a block boundary of the reader
        style = "stored"
        first_x = next((i for i, s in enumerate(content, 1) if s == "x" and i <= cuts[1]), None)
        if first_x:
            cur = len(gz_member(rng, members[0], "stored"))
            pad = align - cur
            if pad > 0:
                # stored blocks: 5 bytes of overhead per 65535 bytes
                for _ in range(4):
                    runs[first_x] = runs[first_x] + "p" * pad
                    members[0] = g_text(content, runs, toks[cuts[0]:cuts[1]]).encode("utf-8")
                    pad = align - len(gz_member(rng, members[0], "stored"))
                    if pad == 0:
                        break
                    if pad < 0:
                        runs[first_x] = runs[first_x][:pad]
                        members[0] = g_text(content, runs, toks[cuts[0]:cuts[1]]).encode("utf-8")
                        break
    parts = [gz_member(rng, m, style if j == 0 else None) for j, m in enumerate(members)]
    gz = b"".join(parts)
    d = case["damage"]
    if d == "zeropad":
        gz += b"\0" * rng.choice([1, 2, 7, 512, 8192])
    elif d == "trunc":
        last = parts[-1]
        cut = rng.choice([1, 4, 7, 8, 9, len(last) - 1] if len(last) > 12 else [1, 4])
        gz = gz[:-cut]
    elif d == "crc":
        b = bytearray(gz)
        b[-5 - rng.randrange(3)] ^= 1 << rng.randrange(8)
        gz = bytes(b)
    elif d == "notgz":
        gz = rng.choice([g_text(content, runs, toks).encode("utf-8") or b"plain\n", b"BZh91AY&SY" + gz[10:], b"\x1f\x8c" + gz[2:],
                         b"<html>404</html>\n", b"\x1f"])
        if gz[:2] == b"\x1f\x8b":
            gz = b"x" + gz
    elif d == "garbage":
        gz += rng.choice([b"garbage", b"\x1f", b"\n", b"\0\0\0x"])
    elif d == "emptyfile":
        gz = b""
    elif d == "undecodable":
        bad = rng.choice([b"caf\xe9\n", b"\xff\xfe\n", b"\xc3\n", b"\xed\xa0\x80\n"])
        gz = gz_member(rng, b"".join(members) + bad)
    data = b"".join(members)
    return dict(gz=gz, content=data, runs=runs,
                lines=[g_text(content, runs, ln) for ln in case["lines"]],
                crlines=[g_text(content, runs, ln) for ln in case["crlines"]])


def g_project(content, runs, lines):
    """observed list of strings -> token lists (what TLC compares with GLines); [[{i:0,s:"?"}]] when it is not even a
    list of strings made of the pieces of the content"""
    bad = [[{"i": 0, "s": "?"}]]
    if not isinstance(lines, list):
        return bad
    pieces = sorted(((v, i) for i, v in runs.items()), key=lambda p: -len(p[0]))
    pos = {}       # next unused index per symbol kind, in content order
    order_n = [i for i, s in enumerate(content, 1) if s == "n"]
    order_r = [i for i, s in enumerate(content, 1) if s == "r"]
    out = []
    for ln in lines:
        if not isinstance(ln, str):
            return bad
        toks, p = [], 0
        while p < len(ln):
            if ln[p] == "\n":
                k = pos.get("n", 0)
                if k >= len(order_n):
                    return bad
                toks.append({"i": order_n[k], "s": "n"})
                pos["n"] = k + 1
                p += 1
                continue
            if ln[p] == "\r":
                k = pos.get("r", 0)
                if k >= len(order_r):
                    return bad
                toks.append({"i": order_r[k], "s": "r"})
                pos["r"] = k + 1
                p += 1
                continue
            for v, i in pieces:
                if ln.startswith(v, p):
                    toks.append({"i": i, "s": "x"})
                    p += len(v)
                    break
            else:
                return bad
        out.append(toks)
    return out


def file_url(path, form="plain"):
    from urllib.parse import quote
    if form == "localhost":
        return "file://localhost" + quote(path)
    if form == "dotseg":
        return "file://" + quote(os.path.dirname(path)) + "/./" + quote(os.path.basename(path))
    return "file://" + quote(path)


URL_FORMS = ("plain", "localhost", "dotseg")
