"""C11, several list views alive at once (spec/ListViewMulti.tla, spec/TraceListViewMulti.tla):
state leaks, aliasing and order dependence between Deb822ParsedTokenList objects.

* replay: behaviours of ListViewMulti drawn by TLC's simulator (seeded) carry, per call, the expected
  outcome, what every live view shows afterwards and what a fresh view of the field shows; they are
  executed on two independently parsed copies of one document;
* recording: random interleavings of up to three view objects on three list fields (one of them read
  through BOTH interpretations) of two parses of the same text; TLC validates the events.

Verdicts: what a view shows (own list only), held ValueReferences keep denoting their value, a fresh view
after a single writer left shows the written list, readers never write, every document/field that was not
written stays byte-identical, documents stay syntactically valid.  Two writers on one field, the other
interpretation after a write and empty lists are unspecified (TLC: unk) -- only the document level counts.
"""
import importlib
import json
import os
import re
import subprocess
import tempfile
import time

import core

SP, NL, CT, CTS, CM, SEP = -1, -2, -3, -4, -5, -6
NEWW, UNKNOWN = 9, 99999
MODEL_FIELDS = ["F", "G", "X"]


def base():
    return importlib.import_module("props.c11")


# ------------------------------------------------------------------ TLC simulator (core.run_tlc expects the
# "No error has been found" line that the simulator does not print: local runner, same classpath/flags)

def simulate_cases(ctx, module, cfg_text, num, depth, seed, timeout=300):
    meta = tempfile.mkdtemp(prefix="tlcsim-", dir=ctx.work)
    os.makedirs(os.path.join(meta, "jtmp"))
    cfg = os.path.join(meta, "MC.cfg")
    with open(cfg, "w") as f:
        f.write(cfg_text)
    cmd = ["java", "-XX:+UseParallelGC", "-XX:ParallelGCThreads=2", "-Xmn256m", "-Xmx4g",
           "-Djava.io.tmpdir=" + os.path.join(meta, "jtmp"), "-cp", core.TLA_CP, "tlc2.TLC", "-workers", "1",
           "-metadir", os.path.join(meta, "states"), "-noGenerateSpecTE", "-config", cfg, "-deadlock",
           "-simulate", "num=%d" % num, "-depth", str(depth), "-seed", str(seed), "-aril", "0", module + ".tla"]
    env = dict(os.environ)
    env.pop("JAVA_TOOL_OPTIONS", None)
    t0 = time.time()
    try:
        p = subprocess.run(cmd, cwd=core.SPEC, env=env, capture_output=True, text=True, timeout=timeout)
    except subprocess.TimeoutExpired:
        raise core.MachineryError("TLC simulator timed out")
    cases, gen = [], 0
    for line in p.stdout.splitlines():
        if line.startswith('<<"CASE", '):
            v = core.parse_tla_value(line)
            cases.append(json.loads(v[1]))
        m = re.match(r"^The number of states generated: (\d+)", line)
        if m:
            gen = int(m.group(1))
    if "Error:" in p.stdout or not cases:
        raise core.MachineryError("TLC simulator failed: %s" % p.stdout[-1500:])
    # the simulator evaluates the printing invariant on EVERY successor of the last state of a walk:
    # keep one behaviour per walk (the first printed)
    walks = {}
    for c in cases:
        walks.setdefault(json.dumps(c["hist"][:-1], sort_keys=True), c)
    cases = list(walks.values())
    ctx.tlc_runs.append({"module": module + " (simulate)", "generated": gen, "distinct": gen, "depth": depth,
                         "wall_s": round(time.time() - t0, 2), "violated": None})
    ctx.transitions += gen
    return cases


def sim_cfg(steps):
    return """CONSTANTS
  Docs = {1, 2}
  Fields = {"F", "G"}
  Handles = {1, 2, 3}
  MaxLen = 4
  MaxSteps = %d
  Extras = TRUE
  Emit = TRUE
  SharedTokenCache = FALSE
  StaleSnapshot = FALSE
SPECIFICATION Spec
INVARIANT EmitCase
CHECK_DEADLOCK FALSE
""" % steps


# ------------------------------------------------------------------ documents with several list fields

class MultiConc:
    """one document text with list fields; fmap[(model field, mode)] = (real field name, Conc)"""

    def __init__(self, rng, fmap, order, before, after, filler, occ=None):
        self.fmap, self.order, self.before, self.after, self.filler = fmap, order, before, after, filler
        self.occ = occ or {}         # key -> occurrence number when the real field name is DUPLICATED in the paragraph

    @property
    def dups(self):
        return bool(self.occ)

    def realkey(self, key):
        name = self.fmap[key][0]
        return (name, self.occ[key]) if key in self.occ else name

    def document(self):
        parts = [self.before]
        seen = set()
        order = sorted(self.order, key=lambda x: self.occ.get(x, 0)) if self.occ else self.order
        for k, key in enumerate(order):
            name, conc = self.fmap[key]
            if (name, self.occ.get(key)) in seen:
                continue
            seen.add((name, self.occ.get(key)))
            parts.append(name + ":" + conc.value_text())
            if k < len(self.filler):
                parts.append(self.filler[k])
        parts.append(self.after)
        return "".join(parts)

    def names(self):
        return sorted({n for n, _ in self.fmap.values()})

    def to_json(self):
        return {"fmap": [[f, m, n, c.to_json()] for (f, m), (n, c) in sorted(self.fmap.items())],
                "order": [list(k) for k in self.order], "before": self.before, "after": self.after, "filler": self.filler,
                "occ": [[f, m, i] for (f, m), i in sorted(self.occ.items())]}

    @classmethod
    def from_json(cls, j):
        B = base()
        fmap = {(f, m): (n, B.Conc.from_json(c)) for f, m, n, c in j["fmap"]}
        return cls(None, fmap, [tuple(k) for k in j["order"]], j["before"], j["after"], j["filler"],
                   {(f, m): i for f, m, i in j.get("occ", [])})


FILLERS = ["Fill-1: misc\n", "# a comment before the next field\n", "Maintainer: A B <a@b.c>\n", "", "Comment: x,\n y\n", "Vcs-Git: g\n"]
REPLAY_LAYOUTS = {   # hand-made layouts whose values are <<1>>, <<2>> (two values) or <<3>> (one value)
    ("sp", 2): [[SP, 1, SP, 2, NL], [SP, 1, NL, CT, 2, NL], [NL, CM, CT, 1, SP, 2, SP, NL], [1, NL, CM, CT, SP, 2, NL]],
    ("cm", 2): [[SP, 1, SEP, SP, 2, NL], [SP, 1, SEP, NL, CM, CT, 2, SEP, NL], [NL, CT, SEP, SP, 1, NL, CT, SEP, SP, 2, NL],
                [1, SP, SEP, 2, NL]],
    ("sp", 1): [[SP, 3, NL], [NL, CT, 3, NL], [SP, 3, SP, NL]],
    ("cm", 1): [[SP, 3, NL], [SP, 3, SEP, NL], [NL, CM, CT, SEP, 3, NL]],
}


def replay_conc(rng):
    """four real list fields for the model's (F|G) x (sp|cm)"""
    B = base()
    fmap = {}
    for f, n in (("F", 2), ("G", 1)):
        for m in ("sp", "cm"):
            lay = rng.choice(REPLAY_LAYOUTS[(m, n)])
            c = B.Conc(rng, m, lay)
            fmap[(f, m)] = ("%s-%s" % (rng.choice(["Depends", "Arch", "List", "X"]), f + m), c)
    order = list(fmap)
    rng.shuffle(order)
    occ = {}
    if rng.random() < 0.4:          # F and G are two occurrences of ONE field name, reached as (name, 0) / (name, 1)
        for m in ("sp", "cm"):
            name = fmap[("F", m)][0]
            fmap[("G", m)] = (name, fmap[("G", m)][1])
            occ[("F", m)], occ[("G", m)] = 0, 1
    return MultiConc(rng, fmap, order, rng.choice(B.BEFORE), rng.choice(B.AFTER), rng.sample(FILLERS, len(order)), occ)


def trace_conc(rng, stress=False):
    """fields F and G (one interpretation each, random layouts) and X: a single line of comma-free words that
    is opened through BOTH interpretations (comma view: one value, the whole line)"""
    B = base()
    fmap = {}
    lays = {f: {"sp": [], "cm": []} for f in MODEL_FIELDS}
    mf = rng.choice(["sp", "cm"])
    mg = rng.choice(["sp", "cm"])
    for f, m in (("F", mf), ("G", mg)):
        lay = B.gen_layout(rng, m, rng.randint(1, 5))
        fmap[(f, m)] = ({"F": "Depends", "G": "Provides"}[f] if m == "cm" else {"F": "Architecture", "G": "Tags"}[f], B.Conc(rng, m, lay))
        lays[f][m] = lay
    # identical text for F and G now and then: a cache keyed by the field text would alias them
    if mf == mg and rng.random() < 0.5:
        fmap[("G", mg)] = (fmap[("G", mg)][0], _clone(fmap[("F", mf)][1]))
        lays["G"][mg] = list(lays["F"][mf])
    n = rng.randint(1, 3)
    lay_sp = [SP]
    for k in range(n):
        lay_sp += [k + 1, SP]
    lay_sp = lay_sp[:-1] + [NL]
    csp = B.Conc(rng, "sp", lay_sp)
    pool = [w for w in B.SP_WORDS if "," not in w and w != "-"]
    ws = rng.sample(pool, n)
    for k in range(n):
        csp.word[k + 1] = ws[k]
    csp.word[NEWW], csp.word[B.ABSENT] = rng.sample([x for x in pool if x not in ws and not x.startswith("#")], 2)
    csp.texts = [csp.word[t] if t >= 1 else x for t, x in zip(lay_sp, csp.texts)]
    csp.field = "Xlist"
    line = "".join(csp.texts[1:-1])
    ccm = _clone(csp)
    ccm.mode = "cm"
    ccm.lay = [SP, 50, NL]
    ccm.texts = [csp.texts[0], line, "\n"]
    ccm.word = {50: line, NEWW: "new (>= 1)", B.ABSENT: "absent | x"}
    fmap[("X", "sp")] = ("Xlist", csp)
    fmap[("X", "cm")] = ("Xlist", ccm)
    lays["X"]["sp"], lays["X"]["cm"] = lay_sp, ccm.lay
    for (f, m), (name, c) in fmap.items():
        c.field = name
    order = [("F", mf), ("G", mg), ("X", "sp")]
    rng.shuffle(order)
    occ = {}
    if rng.random() < 0.3:          # F and G as occurrences 0 and 1 of one duplicated field name
        fmap[("G", mg)] = (fmap[("F", mf)][0], fmap[("G", mg)][1])
        fmap[("G", mg)][1].field = fmap[("F", mf)][0]
        occ = {("F", mf): 0, ("G", mg): 1}
    mc = MultiConc(rng, fmap, order, rng.choice(B.BEFORE), rng.choice(B.AFTER), rng.sample(FILLERS, len(order)), occ)
    return mc, lays


def _clone(c):
    B = base()
    return B.Conc.from_json(json.loads(json.dumps(c.to_json())))


# ------------------------------------------------------------------ executing events on the real code

class World:
    def __init__(self, mconc, ndocs=2):
        B = base()
        self.mc = mconc
        self.text = mconc.document()
        self.files = [B.parse(self.text, mconc.dups) for _ in range(ndocs)]
        self.paras = [next(iter(f)) for f in self.files]
        self.h = {}
        self.dumps = [self.text for _ in range(ndocs)]
        self.newids = {}
        self.nextid = 100
        self.tables = {k: c.tables() for k, (n, c) in mconc.fmap.items()}

    # values <-> model codes (inverse of the concretization)
    def code(self, key, s):
        dec = self.tables[key][1]
        if s in dec:
            return list(dec[s])
        if s not in self.newids:
            # a text nobody handed in (or a corrupted value): its own number, so it equals only itself --
            # where the specification knows the list it cannot match, where the list is unspecified it is adopted
            self.newids[s] = self.nextid
            self.nextid += 1
        return [self.newids[s]]

    def text_of(self, key, codes):
        enc = self.tables[key][0]
        codes = tuple(codes)
        if codes in enc:
            return enc[codes]
        for s, i in self.newids.items():
            if (i,) == codes:
                return s
        raise core.MachineryError("model value %r has no text for %r" % (codes, key))

    def register(self, key, s):
        if s is not None and s not in self.tables[key][1] and s not in self.newids:
            self.newids[s] = self.nextid
            self.nextid += 1

    def dump(self, d):
        try:
            return self.files[d - 1].dump()
        except Exception as e:
            return "<dump() raised %s>" % type(e).__name__

    def field_texts(self, d):
        out, count = {}, {}
        try:
            for name in self.paras[d - 1].keys():
                i = count.get(str(name), 0)
                count[str(name)] = i + 1
                out["%s#%d" % (name, i)] = self.paras[d - 1].get_kvpair_element((str(name), i)).convert_to_text()
        except Exception as e:
            out["<error>"] = type(e).__name__
        return out

    def shows(self):
        B = base()
        self.reads = getattr(self, "reads", 0) + 1
        return {h: B.show(x["lst"], self.reads + h) for h, x in self.h.items()}

    def do(self, ev):
        """execute one concrete event; returns (res, got or None, read)"""
        B = base()
        op, h = ev["op"], ev.get("h", 0)
        try:
            if op == "open":
                key = (ev["f"], ev["m"])
                rk = self.mc.realkey(key)
                idiom = ev.get("idiom", 0)
                if isinstance(rk, tuple) and rk[1] == 0 and idiom % 14 == 0:
                    rk = rk[0]          # the plain name of a duplicated field resolves to its first occurrence
                para = self.paras[ev["d"] - 1]
                obj = B.make_list(para, ev["m"], rk, idiom)
                blk = B.Block(obj, (idiom // B.N_OPEN) % 2 == 1)
                lst = blk.enter()
                self.h[h] = {"lst": lst, "blk": blk, "d": ev["d"], "key": key, "refs": [], "it": None}
                return "ok", B.show(lst, idiom), "ok"
            if op == "read":
                key = (ev["f"], ev["m"])
                try:
                    lst = B.make_list(self.paras[ev["d"] - 1], ev["m"], self.mc.realkey(key), ev.get("idiom", 0))
                    return "ok", B.show(lst, ev.get("idiom", 0) + 1, strict=True), "ok"
                except Exception:
                    return "ok", [], "failed"
            x = self.h[h]
            lst = x["lst"]
            if op == "hold":
                it = lst.iter_value_references()
                x["refs"] = [next(it) for _ in range(ev["i"])]
                it.close()      # consumed partially and abandoned (a suspended generator would keep the head
                #                 node alive and with it values removed later: their references would not fail)
                return "ok", None, "ok"
            if op == "heldget":
                return "ok", [x["refs"][ev["i"] - 1].value], "ok"
            if op == "heldset":
                x["refs"][ev["i"] - 1].value = ev["wt"]
                return "ok", None, "ok"
            if op == "heldremove":
                x["refs"][ev["i"] - 1].remove()
                return "ok", None, "ok"
            if op in ("leave", "abort"):
                return x["blk"].leave(op == "abort"), None, "ok"
            if op == "reenter":
                x["blk"] = B.Block(lst, ev.get("idiom", 0) % 2 == 1)
                x["blk"].enter()
                return "ok", None, "ok"
            if op == "drop":
                del self.h[h]
                return "ok", None, "ok"
            if op.startswith("bad"):       # a text that is not a single item of the interpretation (ev["bt"])
                real = op[3:]
                return B.call(lst, real, ev["bt"] if real == "append" else ev.get("vt"), ev["bt"], ev.get("i", 0)), None, "ok"
            return B.call(lst, op, ev.get("vt"), ev.get("wt"), ev.get("i", 0), ev.get("idiom", 0), x["key"][1]), None, "ok"
        except core.MachineryError:
            raise
        except ValueError:
            return "ValueError", None, "failed"
        except Exception as e:
            return "EXC:%s" % type(e).__name__, None, "failed"

    def doc_check(self, ev):
        """document level after an event: 'ok' or what moved although it must not"""
        B = base()
        actor_d = self.h[ev["h"]]["d"] if ev["op"] == "leave" and ev["h"] in self.h else 0
        for d in range(1, len(self.files) + 1):
            now = self.dump(d)
            if d != actor_d:
                if now != self.dumps[d - 1]:
                    return "document %d changed on %s: %r -> %r" % (d, ev["op"], self.dumps[d - 1], now)
                continue
            key = self.h[ev["h"]]["key"]
            name = self.mc.fmap[key][0]
            before = getattr(self, "_ft", {}).get(d)
            after = self.field_texts(d)
            if before is not None:
                mine = "%s#%d" % (name, self.mc.occ.get(key, 0))
                for n in before:
                    if n != mine and before.get(n) != after.get(n):
                        return "field %s changed when %s was written: %r -> %r" % (n, name, before.get(n), after.get(n))
                if list(before) != list(after):
                    return "field names %r -> %r" % (list(before), list(after))
            if not now.startswith(self.mc.before) or not now.endswith(self.mc.after):
                return "text around the list fields changed: %r" % now
            got, names = B.read_field(now, key[1], name, want_list=False, dups=self.mc.dups)
            if got is None:
                return "%s; document %r" % (names, now)
            self.dumps[d - 1] = now
        return "ok"

    def pre(self, ev):
        if ev["op"] == "leave" and ev["h"] in self.h:
            d = self.h[ev["h"]]["d"]
            self._ft = {d: self.field_texts(d)}
        else:
            self._ft = {}


# ------------------------------------------------------------------ (a) replay of a simulated behaviour

def run_multi_case(ctx, case, mconc, rng_idiom=0):
    """returns None or a message"""
    w = World(mconc)
    nh = max([e["h"] for e in case["hist"]] + [1])
    for k, e in enumerate(case["hist"]):
        ev = {"op": e["op"], "h": e["h"], "d": e["d"], "f": e["f"], "m": e["m"], "i": e["i"], "idiom": rng_idiom + k}
        key = (e["f"], e["m"])
        if e["v"]:
            ev["vt"] = w.text_of(key, e["v"])
        if e["w"]:
            ev["wt"] = w.text_of(key, e["w"])
        if e["op"].startswith("bad"):
            import random
            brng = random.Random("%s/%d/%d" % (json.dumps(case["hist"][0], sort_keys=True), k, rng_idiom))
            c = mconc.fmap[w.h[e["h"]]["key"]][1] if e["h"] in w.h else None
            ev["bt"] = base().bad_value(brng, e["m"], list(c.word.values()) if c else [])
        w.pre(ev)
        keys = {h: x["key"] for h, x in w.h.items()}
        res, got, _ = w.do(ev)
        if e["op"].startswith("bad"):
            if res == "ok":       # accepted: what the list is now is unspecified -- the walk ends here
                ctx.drift("multi: %s(%r) accepted on a %s list" % (e["op"][3:], ev["bt"], e["m"]))
                return None
            res = e["res"]        # refused by SOME exception (ListViewMulti!Bad1); the list must not have moved (below)
        where = "call %d %s(h=%s %s/%s%s)" % (k + 1, e["op"], e["h"], e["f"], e["m"],
                                            "".join(" %r" % ev[x] for x in ("vt", "wt") if x in ev) + (" i=%d" % e["i"] if e["i"] else ""))
        if res != e["res"] and not (e["op"] == "nl" and not res.startswith("EXC")):
            if not (e["op"] == "leave" and res == "ok"):      # written although the model refuses: drift only
                return "%s: outcome %s, reference says %s" % (where, res, e["res"])
        if e["op"] in ("open", "read", "heldget"):
            model = e["all"][e["h"] - 1] if e["op"] == "open" else [e["got"]] if e["op"] == "heldget" else e["got"]
            exp = [w.text_of(key, v) for v in model]
            if got != exp:
                return "%s: shows %r, reference %r" % (where, got, exp)
        shows = w.shows()
        for h, lst in shows.items():
            exp = [w.text_of(w.h[h]["key"], v) for v in e["all"][h - 1]]
            if lst != exp:
                return "%s: view %d on %s shows %r, its own list is %r" % (where, h, w.h[h]["key"], lst, exp)
        msg = w.doc_check(ev)
        if msg != "ok":
            return "%s: %s" % (where, msg)
        if e["op"] == "leave" and res == "ok" and not e["funk"]:
            name = mconc.fmap[key][0]
            B = base()
            fresh, names = B.read_field(w.dumps[e["d"] - 1], e["m"], mconc.realkey(key), dups=mconc.dups, variant=k)
            exp = [w.text_of(key, v) for v in e["fresh"]]
            if fresh is None:
                return "%s: %s" % (where, names)
            if fresh != exp:
                return "%s: a fresh view of %s shows %r, reference %r" % (where, name, fresh, exp)
    return None


# ------------------------------------------------------------------ (b) recording interleavings

def record_multi(rng, nevents, script=None):
    B = base()
    if script is None:
        mconc, lays = trace_conc(rng)
        plan = None
    else:
        mconc, lays, plan = MultiConc.from_json(script["mconc"]), script["lays"], script["events"]
    w = World(mconc)
    avail = sorted(mconc.fmap)                     # (field, mode) pairs that exist
    events, concrete = [], []
    state = {h: None for h in (1, 2, 3)}           # None | {"inb": bool, "key", "d", "n": last length, "held": k}
    dead_fields = set()

    def pool_word(key):
        c = mconc.fmap[key][1]
        if rng.random() < 0.35:
            return c.word[NEWW]
        words = [x for x in (B.SP_WORDS if key[1] == "sp" else B.CM_WORDS) if not x.startswith("#")]   # NEW values only
        if key[0] == "X" and key[1] == "sp":
            words = [x for x in words if "," not in x]
        return rng.choice(words)

    k = 0
    step = None
    while (k < nevents) if plan is None else (k < len(plan)):
        if plan is not None:
            ev = dict(plan[k])
        else:
            live = [h for h in state if state[h]]
            inb = [h for h in live if state[h]["inb"]]
            free = [h for h in state if not state[h]]
            choices = []
            if free:
                choices += ["open"] * (4 if len(live) < 2 else 1)
            if inb:
                choices += ["append"] * 3 + ["remove"] * 2 + ["replace", "refset", "refremove", "hold", "hold", "nl", "cmt",
                                                               "reformat", "leave", "leave", "leave", "sep", "noreformat",
                                                               "vfmt", "vfmtf", "abort"]
                choices += ["badappend", "badappend", "badreplace", "badrefset"]
                if any(state[h]["held"] for h in inb):
                    choices += ["heldget", "heldset", "heldset", "heldremove"] * 2
            if [h for h in live if not state[h]["inb"]]:
                choices += ["reenter", "drop", "drop"]
            choices += ["read"]
            op = rng.choice(choices)
            ev = {"op": op, "h": 0, "d": 0, "f": "", "m": "", "i": 0, "idiom": rng.randrange(56)}
            # a round that CANCELS earlier rounds of one list object: the object is entered again and edited back to
            # a content it held before (when it was made / when it was left), other handles' calls may come in between
            undoing = [h for h in live if state[h].get("undo") is not None]
            step = None
            directed = False
            if undoing and rng.random() < 0.75:
                directed = True
                h = rng.choice(undoing)
                st = state[h]
                st["undo_left"] -= 1
                if not st["inb"]:
                    op = "reenter"
                else:
                    step = B.undo_step(rng, w.shows().get(h, []), st["undo"]) if st["undo_left"] > 0 else None
                    if step is None:
                        op = "leave"
                        st["undo"] = None
                    else:
                        op = step["op"]
                ev["op"] = op
                ev["h"] = h
            if step is not None:
                key = state[h]["key"]
                ev.update(f=key[0], m=key[1], d=state[h]["d"], i=step["i"])
                if step["op"] == "append":
                    ev["vt"] = step["v"]
                elif step["v"] is not None:
                    ev["vt"] = step["v"]
                if step["w"] is not None:
                    ev["wt"] = step["w"]
            elif directed:
                key = state[ev["h"]]["key"]
                ev.update(f=key[0], m=key[1], d=state[ev["h"]]["d"])
            elif op in ("open", "read"):
                # prefer a field somebody already has open: aliasing needs company
                busy = [state[h]["key"] for h in live]
                cands = [x for x in avail if x[0] not in dead_fields]
                if not cands:
                    break
                if busy and rng.random() < 0.7:
                    f = rng.choice(busy)[0]
                    cands = [x for x in cands if x[0] == f] or cands
                key = rng.choice(cands)
                ev.update(f=key[0], m=key[1], d=rng.choice([1, 1, 2]))
                if op == "open":
                    ev["h"] = rng.choice(free)
            elif op in ("reenter", "drop"):
                ev["h"] = rng.choice([h for h in live if not state[h]["inb"]])
            elif op.startswith("held"):
                ev["h"] = rng.choice([h for h in inb if state[h]["held"]])
                ev["i"] = rng.randint(1, state[ev["h"]]["held"])
            else:
                ev["h"] = rng.choice(inb)
            h = ev["h"]
            if h and state.get(h) and op not in ("open",) and not directed:
                key = state[h]["key"]
                ev.update(f=key[0], m=key[1], d=state[h]["d"])
                n = state[h]["n"]
                now = w.shows().get(h, []) if op in ("remove", "replace", "badreplace") else []
                if op.startswith("bad"):
                    # the same calls with a text that is not a single item: refused, then the history carries on
                    ev["bt"] = B.bad_value(rng, key[1], list(now) + list(mconc.fmap[key][1].word.values()))
                    if op == "badreplace":
                        if not now:
                            continue
                        ev["vt"] = rng.choice(now)
                    elif op == "badrefset":
                        if n == 0:
                            continue
                        ev["i"] = rng.randint(1, n)
                elif op == "append":
                    ev["vt"] = pool_word(key)
                elif op in ("remove", "replace"):
                    ev["vt"] = rng.choice(now) if now and rng.random() < 0.9 else mconc.fmap[key][1].word[B.ABSENT]
                    if op == "replace":
                        ev["wt"] = pool_word(key)
                elif op in ("refset", "refremove", "hold"):
                    if n == 0:
                        continue
                    ev["i"] = rng.randint(1, n)
                    if op == "refset":
                        ev["wt"] = pool_word(key)
                elif op == "heldset":
                    ev["wt"] = pool_word(key)
                elif op == "sep" and key[1] != "cm":
                    continue
        key = (ev["f"], ev["m"])
        for x in ("vt", "wt"):
            if ev.get(x) is not None:
                w.register(key, ev[x])
        w.pre(ev)
        res, got, readable = w.do(ev)
        if ev["op"].startswith("bad") and res == "ok":
            break             # accepted: what the list is now is unspecified -- the execution is validated up to here
        shows = w.shows()
        doc = w.doc_check(ev)
        e = {"op": ev["op"], "h": ev["h"], "d": ev["d"], "f": ev["f"], "m": ev["m"], "i": ev["i"],
             "v": w.code(key, ev["vt"]) if ev.get("vt") is not None else [],
             "w": w.code(key, ev["wt"]) if ev.get("wt") is not None else [],
             "res": res, "read": readable if ev["op"] in ("open", "read", "heldget") else "ok",
             "got": [], "doc": doc,
             "all": [[w.code(w.h[h]["key"], s) for s in shows[h]] if h in shows else [] for h in (1, 2, 3)]}
        if got is not None:
            codes = [w.code(key, s) for s in got]
            e["got"] = codes[0] if ev["op"] == "heldget" else codes
        events.append(e)
        concrete.append(ev)
        k += 1
        # bookkeeping for the generator only
        h = ev["h"]
        if (res.startswith("EXC") and not ev["op"].startswith("bad")) or doc != "ok":
            break
        if plan is None and step is not None and res != "ok":
            state[h]["undo"] = None          # (the step was refused: e.g. a value only the parser can produce)
        if ev["op"] == "open":
            state[h] = {"inb": True, "key": key, "d": ev["d"], "n": len(shows.get(h, [])), "held": 0,
                        "snaps": [list(shows.get(h, []))], "undo": None, "undo_left": 0}
        elif ev["op"] == "drop":
            state[h] = None
        elif ev["op"] == "abort":
            state[h]["inb"] = False
        elif ev["op"] == "leave":
            state[h]["inb"] = False
            if plan is None and res == "ok":
                cur_list = list(shows.get(h, []))
                older = [x for x in state[h]["snaps"] if x != cur_list]
                state[h]["snaps"].append(cur_list)
                if older and state[h]["undo"] is None and rng.random() < 0.5:
                    state[h]["undo"] = rng.choice(older[:1] * 3 + older)
                    state[h]["undo_left"] = len(cur_list) + len(state[h]["undo"]) + 4
            # a fresh read right after leaving (what the document holds now)
            rd = {"op": "read", "h": 0, "d": ev["d"], "f": ev["f"], "m": ev["m"], "i": 0, "idiom": ev.get("idiom", 0) + 3}
            if plan is None:
                w.pre(rd)
                r2, g2, readable2 = w.do(rd)
                events.append({"op": "read", "h": 0, "d": rd["d"], "f": rd["f"], "m": rd["m"], "i": 0, "v": [], "w": [],
                               "res": r2, "read": readable2, "got": [w.code(key, s) for s in (g2 or [])], "doc": w.doc_check(rd),
                               "all": [[w.code(w.h[x]["key"], s) for s in shows[x]] if x in shows else [] for x in (1, 2, 3)]})
                concrete.append(rd)
                if readable2 != "ok":
                    dead_fields.add(ev["f"])       # an empty field: the views cannot read it any more
                    break
        elif ev["op"] == "reenter":
            state[h]["inb"] = True
        elif ev["op"] == "hold":
            state[h]["held"] = ev["i"]
        if h and state.get(h):
            state[h]["n"] = len(shows.get(h, []))
        if ev["op"] == "read" and readable != "ok":
            break
    return {"lays": lays, "events": events,
            "script": {"mconc": mconc.to_json(), "lays": lays, "events": concrete}, "text": w.text}


def corrupt_multi(t, how):
    import copy
    t = copy.deepcopy(t)
    seen_two = False
    for e in t["events"]:
        live = [h for h in (0, 1, 2) if e["all"][h]]
        if how == "leak" and len(live) >= 2 and e["op"] in ("append", "refset", "heldset", "replace") and e["res"] == "ok":
            other = [h for h in live if h + 1 != e["h"]][0]
            e["all"][other] = e["all"][other] + [[NEWW + 1000]]        # the other view moved too
            return t
        if how == "reader-writes" and e["op"] == "read" and e["got"]:
            e["got"] = e["got"][:-1]
            return t
        if how == "otherdoc" and e["op"] == "leave":
            e["doc"] = "document 2 changed on leave"
            return t
        if how == "held" and e["op"] == "heldget" and e["read"] == "ok":
            e["got"] = [UNKNOWN]
            return t
    return None


def tlc_multi(t):
    return {"lays": t["lays"], "events": t["events"]}


def validate_multi(ctx, traces, with_controls=True):
    controls = []
    if with_controls:
        for how in ("leak", "reader-writes", "otherdoc", "held"):
            for t in traces:
                c = corrupt_multi(t, how)
                if c:
                    controls.append(tlc_multi(c))
                    break
    acc, _, r = core.validate_traces(ctx, "TraceListViewMulti", "TraceListViewMulti.cfg", [tlc_multi(t) for t in traces],
                                     extra_env={"TRACE_DIAG": "0"}, controls=controls)
    rejected = [i for i in range(1, len(traces) + 1) if i not in acc]
    info = {}
    if rejected:
        sub = [tlc_multi(traces[i - 1]) for i in rejected[:20]]
        _, prog, _ = core.validate_traces(ctx, "TraceListViewMulti", "TraceListViewMulti.cfg", sub, extra_env={"TRACE_DIAG": "1"})
        for j, i in enumerate(rejected[:20]):
            info[i] = prog.get(j + 1, 0)
    return rejected, info, len(controls)
