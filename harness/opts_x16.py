"""X16 helper: payload pools, concretization of the abstract documents / values of spec/Deb822Opts*.tla, input
forms and kinds of file objects, and the executor that drives the real debian.deb822 classes (used by
harness/props/x16.py).  Nothing here decides a verdict: the executor returns what the real objects did,
projected onto the vocabulary of the specification (names, spellings, tokens); expectations come from TLC."""
import bz2
import collections
import gzip
import io
import lzma
import operator
import os
import tempfile
import warnings

import core

BOUNDARY = [1, 2, 7, 8, 9, 15, 16, 17, 31, 32, 33, 63, 64, 65, 71, 72, 73, 79, 80, 81, 127, 128, 129, 255, 256, 257,
            1023, 1024, 1025, 4095, 4096, 4097, 8191, 8192, 8193]
COUNTS = [0, 1, 2, 3, 9, 10, 11, 16, 17, 31, 32, 33, 99, 100, 101, 255, 256, 257]
WS_KEY = "whitespace-separates-paragraphs"

# field names: none of them is special to any class used here (no multivalued / relationship field), none starts
# with '#' or '-', none contains white space or ':'; pairwise different under str.lower()
NAME_POOL = ["X-Foo", "Origin", "Vcs-Git", "Homepage", "X-Files", "My-Special-Field", "Bugs", "Section", "Zz9",
             "X-Comment", "Label", "Codename", "Testsuite", "X-Python3-Version", "Tag", "Task", "Ruby-Versions"]
# case-mapping hazards: DIFFERENT names (only ASCII case folding may be assumed)
HAZARD_NAMES = ["Fileſ", "Licenſe", "Straße", "Commenʈ", "Formaŧ", "X-Ασ", "État", "X-Ångström"]
ASCII_DATA = ["1", "2.0-1", "foo (>= 1.0), bar", "a: b", "#no comment", "Some One <one@example.org>", "https://example.org/x/",
              "x", "-----", "tab\tsep\tonly", "a  b", "0", "yes", "optional", "*.c src/*", "=a:b=", "q?"]
LATIN_DATA = ["café", "Ångström", "straße", "a b", "über été", "ÿ", "x­ y", "é"]
WIDE_DATA = ["café", "Å", "Ω", "ﬁ", "Ａ", "가", "İ", "ı", "ςσ", "\U00010400",
             "﻿z", "z﻿z", "z‍z", "z‌z", "‎z", "\U0001f600", "\U0010ffff", "́z", "類", "a​b",
             "a b", "a　b", "中文", "Ж"]


def ascii_lower(s):
    return "".join(chr(ord(c) + 32) if "A" <= c <= "Z" else c for c in s)


def tail_char(rng, cls="w"):
    """a character whose UTF-8 encoding ends in a chosen trailing byte 0x80..0xBF"""
    if cls == "l":
        return chr(0xC0 + rng.randrange(64))
    return chr(0x400 + rng.randrange(64))


def ascii_variant(rng, s):
    """another spelling that differs in the case of ASCII letters only (None when s has no ASCII letter)"""
    if not any("a" <= c.lower() <= "z" for c in s):
        return None
    for how in rng.sample(range(4), 4):
        out = []
        for i, ch in enumerate(s):
            if "a" <= ch <= "z" or "A" <= ch <= "Z":
                ch = [ch.lower(), ch.upper(), ch.upper() if i % 2 else ch.lower(), ch.swapcase()][how]
            out.append(ch)
        v = "".join(out)
        if v != s:
            return v
    return None


def char_class(s):
    m = max(map(ord, s)) if s else 0
    return "a" if m < 128 else "l" if m < 256 else "w"


def pick_len(rng, stress, cap=8193):
    if stress != 2:
        return None
    return rng.choice([x for x in BOUNDARY if x <= (cap if rng.random() < 0.15 else min(cap, 1025))])


def data_text(rng, stress=0, cls=None, length=None):
    """the data of a field line / the text of a continuation line: non-empty, no white space at either end,
    no line boundary of str.splitlines().  cls: required character class ('a' / 'l' / 'w') or None"""
    if cls == "a" or (cls is None and stress in (0, 2)):
        t = rng.choice(ASCII_DATA)
    elif cls == "l" or stress == 3:
        t = rng.choice(LATIN_DATA)
        if rng.random() < 0.5:
            t = rng.choice(ASCII_DATA) + " " + t + tail_char(rng, "l")
    else:
        t = rng.choice(WIDE_DATA + LATIN_DATA[:3]) if cls is None else rng.choice(WIDE_DATA)
        if rng.random() < 0.5:
            t = t + "w" + tail_char(rng)
        if rng.random() < 0.3:
            t = rng.choice(ASCII_DATA) + " " + t
    if length is None:
        length = pick_len(rng, stress)
    if length is not None:
        fill = "v" if char_class(t) == "a" else t[-1] if not t[-1].isspace() else "v"
        t = (t + fill * length)[:length] if length > len(t) else t[:length]
        t = t.strip() or "v" * length
        if t[-1].isspace() or t[0].isspace():
            t = "v" + t[1:-1] + "v" if len(t) > 1 else "v"
        if cls and char_class(t) != cls:
            t = t[:-1] + {"a": "v", "l": "é", "w": "Ж"}[cls] if len(t) > 1 else {"a": "v", "l": "é", "w": "Ж"}[cls]
    return t


def pick_names(rng, count, stress=0, avoid=()):
    """`count` field names, pairwise different under str.lower() and ASCII lower-casing, each with an ASCII letter"""
    pool = list(NAME_POOL)
    if stress in (1, 3):
        pool += [h for h in HAZARD_NAMES if stress == 1 or char_class(h) != "w"]
    rng.shuffle(pool)
    out, seen = [], {a.lower() for a in avoid} | {ascii_lower(a) for a in avoid}
    i = 0
    while len(out) < count:
        if i < len(pool):
            c = pool[i]
        else:
            c = "X-Gen-%d" % i
        i += 1
        if stress == 2 and rng.random() < 0.5:
            ln = rng.choice([x for x in BOUNDARY if 16 <= x <= (1025 if rng.random() < 0.2 else 300)])
            c = c + "-" + "x" * max(1, ln - len(c) - 1)
        if c.lower() in seen or ascii_lower(c) in seen:
            continue
        seen.add(c.lower())
        seen.add(ascii_lower(c))
        out.append(c)
    return out


# ------------------------------------------------------------------ vocabulary: payloads <-> symbols

class Vocab(object):
    """key strings <-> (name number, spelling symbol), line texts <-> token symbols.  grow = True: unknown
    payloads get fresh ids (recorded histories); grow = False: they are reported as '?...' (replay)"""

    def __init__(self, grow=False):
        self.grow = grow
        self.key = {}
        self.rkey = {}
        self.low = {}
        self.tok = {"": ""}
        self.rtok = {"": ""}

    def add_key(self, k, n, s):
        self.key[k] = (n, s)
        self.rkey[(n, s)] = k
        self.low[k.lower()] = n

    def add_tok(self, text, t):
        self.tok[text] = t
        self.rtok[t] = text

    def key_sym(self, k):
        if k in self.key:
            return self.key[k]
        if not self.grow or not isinstance(k, str):
            return (0, "?%r" % (k,))
        n = self.low.get(k.lower())
        if n is None:
            n = len(self.low) + 1
        s = "s%d" % (len(self.key) + 1)
        self.add_key(k, n, s)
        return (n, s)

    def tok_sym(self, text):
        if text in self.tok:
            return self.tok[text]
        if not self.grow:
            return "?%r" % (text[:60],)
        t = "t%d" % len(self.tok)
        self.add_tok(text, t)
        return t

    def val_sym(self, v):
        if not isinstance(v, str):
            return ["?%r" % (v,)]
        return [self.tok_sym(x) for x in v.split("\n")]

    def val_text(self, v):
        return "\n".join(self.rtok[t] for t in v)

    def para(self, items):
        out = []
        for k, v in items:
            n, s = self.key_sym(k)
            out.append({"n": n, "s": s, "v": self.val_sym(v)})
        return out

    def classes(self):
        tcl = {t: char_class(x) for t, x in self.rtok.items()}
        scl = {s: char_class(k) for (n, s), k in self.rkey.items()}
        return tcl, scl


def observe(obj, vocab):
    return vocab.para([(k, obj[k]) for k in obj])


# ------------------------------------------------------------------ documents

ARMOR_TEXT = {"pb": "-----BEGIN PGP SIGNED MESSAGE-----", "ps": "-----BEGIN PGP SIGNATURE-----", "pe": "-----END PGP SIGNATURE-----",
              "h1": "Hash: SHA512", "h2": "NotDashEscaped: You need GnuPG to verify this message",
              "g1": "iQEzBAEBCgAdFiEEkjZVexcMh/iCHArDweDZLphvfH4FAl", "g2": "=AbCd"}


class DocReal(object):
    """concretization of an abstract document (lines [c, n, s, t]): one text line per abstract line.
    stress: 0 tame, 1 odd characters, 2 boundary sizes, 3 Latin-1 only (read as bytes with encoding='latin-1')"""

    def __init__(self, lines, rng, stress=0, names=None, clean=False):
        self.lines = lines
        self.stress = stress
        self.vocab = Vocab()
        ns = sorted({ln["n"] for ln in lines if ln["n"]} | {1, 2, 8, 9})
        strs = names or pick_names(rng, len(ns), stress)
        self.name = dict(zip(ns, strs))
        self.alt = {}
        for n, c in self.name.items():
            self.alt[n] = ascii_variant(rng, c)
            self.vocab.add_key(c, n, "C")
            self.vocab.add_key(self.alt[n], n, "L")
        self.text = []
        used = set()
        big = rng.randrange(max(1, len(lines)))       # at most one very long line per document
        for i, ln in enumerate(lines):
            c = ln["c"]
            for attempt in range(50):
                ln_len = pick_len(rng, stress) if (stress == 2 and i == big) else (rng.choice([1, 2, 7, 8, 9, 15, 16, 17, 31, 32, 33]) if stress == 2 else None)
                if c in ("F", "M"):
                    key = self.key_of(ln["n"], ln["s"])
                    if c == "F":
                        tok = data_text(rng, stress, length=ln_len)
                        sep = rng.choice([": ", ": ", ":", ":\t", ":  ", " : "]) if attempt < 40 else ": "
                        tail = "" if clean else rng.choice(["", "", "", " ", "\t", "  \t"])
                        line = key + sep + tok + tail
                    else:
                        tok = ""
                        line = key + ":" + ("" if clean else rng.choice(["", "", " ", "\t "]))
                elif c == "C":
                    tok = rng.choice([" ", "\t", "  ", " \t"]) + (data_text(rng, stress, length=ln_len) if rng.random() < 0.9 else ".")
                    line = tok
                elif c == "W1":
                    line = tok = rng.choice([" ", "\t"])
                elif c == "W2":
                    k = ln_len or rng.choice([2, 2, 3, 4, 5, 6, 8])
                    line = tok = "".join(rng.choice(" \t") for _ in range(max(2, k)))
                elif c == "#":
                    line = tok = "#" + rng.choice(["", " comment", "X-Foo: bar", " " + data_text(rng, stress)])
                elif c == "B":
                    line = tok = ""
                else:                                   # armor
                    line = tok = ARMOR_TEXT[ln["t"]]
                    if ln["t"] == "g1" and stress == 2:
                        line = tok = tok + "A" * rng.choice([17, 18, 19])
                if c in ("B", "M", "W1", "#") or tok not in used or c in ("PB", "PS", "PE", "PH", "PG"):
                    break
            else:
                raise core.MachineryError("cannot make the lines of a document distinct")
            if c not in ("B", "M"):
                if ln["t"] not in self.vocab.rtok and tok not in used:
                    self.vocab.add_tok(tok, ln["t"])
                used.add(tok)
            self.text.append(line)

    def key_of(self, n, s):
        return self.name[n] if s == "C" else self.alt[n]

    def fields_arg(self, want, rng):
        if want["all"]:
            return None
        names = [self.key_of(w["n"], w["s"]) for w in want["l"]]
        return tuple(names) if rng.random() < 0.3 else list(names)

    def joined(self, final_newline=True):
        return "\n".join(self.text) + ("\n" if final_newline and self.text else "")

    def pad_to(self, rng, line_index, target):
        """lengthen the data of the first field line so that the END (the newline) of line `line_index` falls at byte
        offset `target` of the UTF-8 text; returns the offset reached or None"""
        first = next((i for i, ln in enumerate(self.lines) if ln["c"] == "F" and i <= line_index), None)
        if first is None:
            return None
        enc = [len((t + "\n").encode("utf-8")) for t in self.text]
        end = sum(enc[:line_index + 1]) - 1
        need = target - end
        if need <= 0:
            return None
        old = self.vocab.rtok[self.lines[first]["t"]]
        new = old + "p" * need
        key = self.key_of(self.lines[first]["n"], self.lines[first]["s"])
        self.text[first] = key + ": " + new
        # the separator may have been shorter / longer than ': ': recompute and fix up
        enc = [len((t + "\n").encode("utf-8")) for t in self.text]
        end = sum(enc[:line_index + 1]) - 1
        if end != target:
            new = new + "p" * (target - end) if target > end else new[:len(new) - (end - target)]
            if not new or new != new.strip():
                return None
            self.text[first] = key + ": " + new
        del self.vocab.tok[old]
        self.vocab.add_tok(new, self.lines[first]["t"])
        enc = [len((t + "\n").encode("utf-8")) for t in self.text]
        return sum(enc[:line_index + 1]) - 1


# ------------------------------------------------------------------ input forms / kinds of file objects

class ShortRaw(io.RawIOBase):
    """a raw stream that returns 1..7 bytes per read"""

    def __init__(self, data, rng):
        self.data, self.pos, self.rng = data, 0, rng

    def readable(self):
        return True

    def readinto(self, b):
        n = min(len(b), self.rng.randrange(1, 8), len(self.data) - self.pos)
        b[:n] = self.data[self.pos:self.pos + n]
        self.pos += n
        return n


STR_FORMS = ["str", "lines_str", "lines_str_noeol", "tuple_str", "gen_str", "StringIO", "file_text", "TextIOWrapper_short", "gzip_text"]
BYTE_FORMS = ["bytes", "lines_bytes", "lines_bytes_noeol", "gen_bytes", "BytesIO", "file_bin", "file_bin_unbuffered",
              "BufferedReader_short", "GzipFile", "BZ2File", "LZMAFile", "Spooled"]
FILE_FORMS = ["StringIO", "file_text", "TextIOWrapper_short", "gzip_text", "BytesIO", "file_bin", "file_bin_unbuffered",
              "BufferedReader_short", "GzipFile", "BZ2File", "LZMAFile", "Spooled"]
ALL_FORMS = STR_FORMS + BYTE_FORMS


def split_keep(text):
    """the lines of a text with their newline (split at newline only)"""
    parts = text.split("\n")
    out = [x + "\n" for x in parts[:-1]]
    if parts[-1]:
        out.append(parts[-1])
    return out


def make_input(form, text, enc, rng, workdir, keep):
    """-> the object to hand to the reader; file objects are appended to `keep` (closed by the caller)"""
    data = text.encode(enc)
    tenc = enc

    def tmp(content, mode):
        fd, path = tempfile.mkstemp(prefix="x16-", dir=workdir)
        os.close(fd)
        with open(path, "wb") as f:
            f.write(content)
        keep.append(path)
        return path

    if form == "str":
        return text
    if form == "bytes":
        return data
    if form == "lines_str":
        return split_keep(text)
    if form == "lines_str_noeol":
        parts = text.split("\n")
        return parts[:-1] if parts[-1] == "" else parts
    if form == "tuple_str":
        return tuple(make_input("lines_str", text, enc, rng, workdir, keep))
    if form == "gen_str":
        return (x for x in make_input("lines_str", text, enc, rng, workdir, keep))
    if form == "lines_bytes":
        return [x.encode(enc) for x in make_input("lines_str", text, enc, rng, workdir, keep)]
    if form == "lines_bytes_noeol":
        return [x.encode(enc) for x in make_input("lines_str_noeol", text, enc, rng, workdir, keep)]
    if form == "gen_bytes":
        return (x for x in make_input("lines_bytes", text, enc, rng, workdir, keep))
    if form == "StringIO":
        return io.StringIO(text, newline="\n")
    if form == "BytesIO":
        return io.BytesIO(data)
    if form == "file_text":
        f = open(tmp(data, "wb"), "r", encoding=tenc, newline="\n")
    elif form == "file_bin":
        f = open(tmp(data, "wb"), "rb")
    elif form == "file_bin_unbuffered":
        f = open(tmp(data, "wb"), "rb", buffering=0)
    elif form == "BufferedReader_short":
        f = io.BufferedReader(ShortRaw(data, rng), buffer_size=rng.choice([16, 8192]))
    elif form == "TextIOWrapper_short":
        f = io.TextIOWrapper(io.BufferedReader(ShortRaw(data, rng)), encoding=tenc, newline="\n")
    elif form == "GzipFile":
        f = gzip.GzipFile(fileobj=io.BytesIO(gzip.compress(data)))
    elif form == "gzip_text":
        f = gzip.open(tmp(gzip.compress(data), "wb"), "rt", encoding=tenc, newline="\n")
    elif form == "BZ2File":
        f = bz2.BZ2File(io.BytesIO(bz2.compress(data)))
    elif form == "LZMAFile":
        f = lzma.LZMAFile(io.BytesIO(lzma.compress(data)))
    elif form == "Spooled":
        f = tempfile.SpooledTemporaryFile(max_size=rng.choice([16, 1 << 20]), dir=workdir)
        f.write(data)
        f.seek(0)
    else:
        raise core.MachineryError("unknown input form %s" % form)
    keep.append(f)
    return f


def release(keep):
    for x in keep:
        try:
            if isinstance(x, str):
                os.unlink(x)
            else:
                x.close()
        except Exception:      # noqa: BLE001
            pass
    del keep[:]


# ------------------------------------------------------------------ readers

PLAIN_CLASSES = ["Deb822", "Deb822", "Release", "PdiffIndex", "Removals", "Dsc", "Changes", "BuildInfo"]
GPG_CLASSES = {"Dsc", "Changes", "BuildInfo", "Sources"}
LENIENT_CLASSES = ["Packages", "Sources"]


def get_class(name):
    from debian import deb822
    return getattr(deb822, name)


def strict_arg(sarg, rng=None):
    if sarg == "none":
        return None
    if sarg == "empty":
        return {}
    if sarg == "T":
        return {WS_KEY: True}
    if sarg == "F":
        return {WS_KEY: False}
    return {"x-unknown-strictness-key": True}


class Quiet(object):
    """calls into the library with warnings recorded instead of printed (main thread only)"""

    def __enter__(self):
        self.cm = warnings.catch_warnings(record=True)
        self.log = self.cm.__enter__()
        warnings.simplefilter("always")
        return self

    def __exit__(self, *a):
        return self.cm.__exit__(*a)

    def apt_warnings(self):
        return sum(1 for w in self.log if "apt_pkg" in str(w.message))


def call_iter(clsname, inp, fields, sarg, style, apt, shared, enc):
    """Cls.iter_paragraphs in one of the call styles.  apt / shared: None = omitted.  -> list of objects"""
    cls = get_class(clsname)
    st = strict_arg(sarg)
    encv = enc if enc is not None else "utf-8"
    if style == "pos":
        args = [inp, fields, apt if apt is not None else (clsname in LENIENT_CLASSES), bool(shared), encv, st]
        if sarg == "none" and enc is None:
            args = args[:4] if shared is not None else args[:3] if apt is not None else args[:2]
        return list(cls.iter_paragraphs(*args))
    kw = {}
    if fields is not None or style == "kwall":
        kw["fields"] = fields
    if apt is not None:
        kw["use_apt_pkg"] = apt
    if shared is not None:
        kw["shared_storage"] = shared
    if enc is not None:
        kw["encoding"] = enc
    if sarg != "none" or style == "kwall":
        kw["strict"] = st
    if style == "kwseq":
        return list(cls.iter_paragraphs(sequence=inp, **kw))
    return list(cls.iter_paragraphs(inp, **kw))


def call_ctor(clsname, inp, fields, sarg, style, enc):
    cls = get_class(clsname)
    st = strict_arg(sarg)
    encv = enc if enc is not None else "utf-8"
    if style == "pos":
        if sarg == "none" and enc is None:
            return cls(inp, fields) if fields is not None else cls(inp)
        return cls(inp, fields, None, encv, st)
    kw = {}
    if fields is not None or style == "kwall":
        kw["fields"] = fields
    if enc is not None:
        kw["encoding"] = enc
    if sarg != "none" or style == "kwall":
        kw["strict"] = st
    if style == "kwseq":
        return cls(sequence=inp, **kw)
    return cls(inp, **kw)


def call_split(inp_lines, sarg, style, which):
    """Deb822.split_gpg_and_payload / gpg_stripped_paragraph on an iterable of lines -> (pre, pay, post) or [pay]"""
    from debian.deb822 import Deb822, Dsc
    cls = Dsc if style.endswith("sub") else Deb822
    st = strict_arg(sarg)
    fn = cls.split_gpg_and_payload if which == "split" else cls.gpg_stripped_paragraph
    if sarg == "none" and not style.startswith("kw"):
        return fn(inp_lines)
    if style.startswith("kw"):
        return fn(inp_lines, strict=st)
    return fn(inp_lines, st)


# ------------------------------------------------------------------ renderings -> entries

def lex_dump(text, items, vocab):
    """project a rendering onto the entries of the specification, guided by the items of the object:
    -> [{s, v, g}] or None when the text is not `key ':' glue value newline` for the items in order"""
    pos = 0
    out = []
    for k, v in items:
        if not isinstance(v, str):
            return None
        head = k + ":"
        if not text.startswith(head, pos):
            return None
        pos += len(head)
        if text.startswith(v + "\n", pos):
            g = ""
            pos += len(v) + 1
        elif text.startswith(" " + v + "\n", pos):
            g = " "
            pos += len(v) + 2
        else:
            return None
        n, s = vocab.key_sym(k)
        out.append({"s": s, "v": vocab.val_sym(v), "g": g})
    return out if pos == len(text) else None


def lex_bytes(data, items, vocab):
    """-> (encodings under which the bytes are a rendering of the items, entries) -- ASCII-only text fits all"""
    encs, entries = [], None
    for enc in ("utf-8", "latin-1", "ascii"):
        try:
            t = data.decode(enc)
        except UnicodeDecodeError:
            continue
        e = lex_dump(t, items, vocab)
        if e is not None:
            encs.append(enc)
            entries = e
    return encs, entries


# ------------------------------------------------------------------ sinks

class Sink(object):
    """a long-lived file object that dump() writes to; `grown()` returns what was appended since the last look"""

    def __init__(self, kind, rng, workdir):
        self.kind = kind
        self.text = kind.startswith("t")
        self.path = None
        if kind == "t:StringIO":
            self.f = io.StringIO(newline="\n")
        elif kind == "b:BytesIO":
            self.f = io.BytesIO()
        elif kind in ("t:file", "b:file", "b:file0", "t:wrapper"):
            fd, self.path = tempfile.mkstemp(prefix="x16-sink-", dir=workdir)
            os.close(fd)
            if kind == "t:file":
                self.f = open(self.path, "w", encoding="utf-8", newline="\n")
            elif kind == "t:wrapper":
                self.f = io.TextIOWrapper(open(self.path, "wb"), encoding="utf-8", newline="\n", write_through=False)
            else:
                self.f = open(self.path, "wb", buffering=0 if kind == "b:file0" else -1)
        elif kind == "b:spooled":
            self.f = tempfile.SpooledTemporaryFile(max_size=64, dir=workdir)
        else:
            raise core.MachineryError("unknown sink %s" % kind)
        self.seen = self.content()
        if rng.random() < 0.5:            # something is already there: dump() appends
            self.f.write("# earlier content\n" if self.text else b"# earlier content\n")
            self.seen = self.content()

    def content(self):
        if self.f.closed:
            return None
        if self.path is not None:
            self.f.flush()
            with open(self.path, "rb") as g:
                data = g.read()
            return data.decode("utf-8") if self.text else data
        if self.kind == "b:spooled":
            pos = self.f.tell()
            self.f.seek(0)
            data = self.f.read()
            self.f.seek(pos)
            return data
        return self.f.getvalue()

    def grown(self):
        now = self.content()
        if now is None:
            return None                       # the library closed the caller's file object
        if not now.startswith(self.seen):
            self.seen = now
            return None
        delta = now[len(self.seen):]
        self.seen = now
        return delta

    def close(self):
        try:
            self.f.close()
        finally:
            if self.path:
                try:
                    os.unlink(self.path)
                except OSError:
                    pass


TEXT_SINKS = ["t:StringIO", "t:file", "t:wrapper"]
BIN_SINKS = ["b:BytesIO", "b:file", "b:file0", "b:spooled"]


# ------------------------------------------------------------------ calls on live objects

SENTINEL = object()


class Mapping2(collections.abc.Mapping):
    """a read-only mapping that is not a dict (right operand of ==)"""

    def __init__(self, pairs):
        self._d = dict(pairs)

    def __getitem__(self, k):
        return self._d[k]

    def __iter__(self):
        return iter(self._d)

    def __len__(self):
        return len(self._d)


def exc_result(ex):
    """an exception raised by a call is an observation"""
    name = type(ex).__name__
    if isinstance(ex, UnicodeEncodeError):
        name = "UnicodeEncodeError"
    return ("err", name)


def perform(objs, c, vocab, rng, sinks, key=None, value=None):
    """perform the model call c on the real objects -> (tag, x) in the vocabulary of the specification.
    key / value: the concrete payloads of c.n, c.s / c.v (chosen by the caller)"""
    p = objs[c["o"] - 1]
    op = c["op"]
    try:
        if op == "get":
            if c["d"] == "omit":
                r = rng.choice([lambda: p.get(key), lambda: p.get(key, None), lambda: type(p).get(p, key)])()
                if r is None:
                    return ("none", "")
            else:
                r = rng.choice([lambda: p.get(key, SENTINEL), lambda: p.get(key, default=SENTINEL)])()
                if r is SENTINEL:
                    return ("dflt", "")
            return ("val", vocab.val_sym(r))
        if op == "gas":
            return ("val", vocab.val_sym(p.get_as_string(key)))
        if op == "getitem":
            r = rng.choice([lambda: p[key], lambda: p.__getitem__(key), lambda: operator.getitem(p, key)])()
            return ("val", vocab.val_sym(r))
        if op == "has":
            r = rng.choice([lambda: key in p, lambda: p.__contains__(key), lambda: operator.contains(p, key), lambda: key in p.keys()])()
            return ("bool", "true" if r is True else "false" if r is False else "?%r" % (r,))
        if op == "setdefault":
            r = rng.choice([lambda: p.setdefault(key, value), lambda: p.setdefault(key, default=value)])()
            return ("val", vocab.val_sym(r))
        if op == "pop":
            if c["d"] == "omit":
                r = p.pop(key)
            else:
                r = p.pop(key, SENTINEL)
                if r is SENTINEL:
                    return ("dflt", "")
            return ("val", vocab.val_sym(r))
        if op == "set":
            how = rng.randrange(3)
            if how == 0:
                p[key] = value
            elif how == 1:
                p.__setitem__(key, value)
            else:
                p.update({key: value})
            return ("ok", "")
        if op == "del":
            if rng.random() < 0.5:
                del p[key]
            else:
                p.__delitem__(key)
            return ("ok", "")
        if op == "keys":
            r = rng.choice([lambda: list(p.keys()), lambda: list(p), lambda: [k for k in p], lambda: list(iter(p.keys()))])()
            return ("keys", [vocab.key_sym(k)[1] for k in r])
        if op == "values":
            return ("vals", [vocab.val_sym(v) for v in p.values()])
        if op == "items":
            return ("items", [{"s": vocab.key_sym(k)[1], "v": vocab.val_sym(v)} for k, v in p.items()])
        if op == "len":
            r = len(p) if rng.random() < 0.5 else p.__len__()
            return ("len", r)
        if op in ("eq", "ne"):
            k = c["k"]
            if k == "obj":
                other = objs[c["o2"] - 1]
            elif k == "dict":
                q = objs[c["o2"] - 1]
                pairs = [(kk, q[kk]) for kk in q]
                if rng.random() < 0.5:
                    rng.shuffle(pairs)
                other = rng.choice([dict, collections.OrderedDict, Mapping2])(pairs)
            elif k == "none":
                other = None
            elif k == "int":
                other = rng.choice([5, 0, 2 ** 63, 1.5])
            elif k == "emptyseq":
                other = rng.choice(["", [], (), b""])
            else:
                other = list(p)
            reflected = k != "obj" and rng.random() < 0.4
            if op == "eq":
                r = (other == p) if reflected else rng.choice([lambda: p == other, lambda: p.__eq__(other)])()
            else:
                r = (other != p) if reflected else (p != other)
            return ("bool", "true" if r is True else "false" if r is False else "?%r" % (r,))
        items = [(k, p[k]) for k in p]
        if op == "str":
            r = rng.choice([lambda: str(p), lambda: p.__str__(), lambda: "%s" % (p,), lambda: p.__unicode__(), lambda: format(p)])()
            e = lex_dump(r, items, vocab) if isinstance(r, str) else None
            return ("text", e if e is not None else "?%r" % (r,)[:200])
        if op == "bytes":
            r = bytes(p) if rng.random() < 0.5 else p.__bytes__()
            if not isinstance(r, bytes):
                return ("bytes", "?%r" % (r,)[:200])
            encs, e = lex_bytes(r, items, vocab)
            return ("bytes", {"k": "b", "encs": encs, "t": e} if encs else "?%r" % (r,)[:200])
        if op == "dump":
            form = c["k"]
            if form == "ret":
                enc = rng.choice([None, "latin-1", "ascii", "utf-8"])
                r = rng.choice([lambda: p.dump(), lambda: p.dump(None), lambda: p.dump(fd=None), lambda: p.dump(None, enc),
                                lambda: p.dump(None, enc, True), lambda: p.dump(text_mode=True), lambda: p.dump(encoding=enc, text_mode=False)])()
                e = lex_dump(r, items, vocab) if isinstance(r, str) else None
                return ("text", e if e is not None else "?%r" % (r,)[:200])
            if form == "fdt":
                sink = rng.choice([s for s in sinks if s.text])
                enc = rng.choice([None, "latin-1", "ascii"])
                r = rng.choice([lambda: p.dump(sink.f, text_mode=True), lambda: p.dump(sink.f, None, True), lambda: p.dump(sink.f, enc, True),
                                lambda: p.dump(fd=sink.f, encoding=enc, text_mode=True), lambda: p.dump(sink.f, text_mode=1)])()
                delta = sink.grown()
                if r is not None or delta is None:
                    return ("wrote", "?returned %r, sink %s" % (r, "damaged" if delta is None else "ok"))
                e = lex_dump(delta, items, vocab)
                return ("wrote", {"k": "t", "encs": [], "t": e} if e is not None else "?wrote %r" % (delta[:200],))
            sink = rng.choice([s for s in sinks if not s.text])
            enc = None if c["enc"] == "omit" else rng.choice({"utf-8": ["utf-8", "UTF-8", "utf8"], "latin-1": ["latin-1", "iso-8859-1", "latin1"],
                                                              "ascii": ["ascii", "us-ascii"]}[c["enc"]])
            if enc is None:
                r = rng.choice([lambda: p.dump(sink.f), lambda: p.dump(sink.f, None), lambda: p.dump(fd=sink.f), lambda: p.dump(sink.f, None, False),
                                lambda: p.dump(sink.f, text_mode=False)])()
            else:
                r = rng.choice([lambda: p.dump(sink.f, enc), lambda: p.dump(sink.f, encoding=enc), lambda: p.dump(fd=sink.f, encoding=enc, text_mode=False),
                                lambda: p.dump(sink.f, enc, False)])()
            delta = sink.grown()
            if r is not None or delta is None:
                return ("wrote", "?returned %r, sink %s" % (r, "damaged" if delta is None else "ok"))
            encs, e = lex_bytes(delta, items, vocab)
            return ("wrote", {"k": "b", "encs": encs, "t": e} if encs else "?wrote %r" % (delta[:200],))
    except Exception as ex:      # noqa: BLE001 -- whatever the call raises is an observation
        if op == "dump" and c["k"] != "ret":
            for s in sinks:
                s.grown()                  # a failed dump may have written part of the text: not specified
        return exc_result(ex)
    raise core.MachineryError("unknown call %r" % (c,))


def res_match(model, obs):
    """does the observed result (tag, x) fit the result of the specification? (encodings: membership)"""
    tag, x = obs
    if model["t"] != tag:
        return False
    mx = model["x"]
    if tag in ("wrote", "bytes"):
        if not isinstance(x, dict):
            return False
        if x["t"] != mx["t"]:
            return False
        if tag == "wrote" and mx["k"] != x["k"]:
            return False
        return mx.get("k") == "t" or mx["enc"] in x["encs"]
    return mx == x
