"""C07, history layer (spec/DebFileCache.tla): two real packages open at once -- same file names,
different contents and compression -- with interleaved, repeated queries, mutation of returned
dictionaries and rewrite + re-open of a path.

spec -> code: run_hist() drives a random history; the expected answer of every step is the HTAB
line TLC printed for (content generation of the two paths, query).
code -> spec: record_session() logs such a history of random packages for TraceDebFileCache."""
import hashlib
import random

import core
import c07_build as B
from c07_obs import (open_deb, drop, pick_how, obs_has, obs_get, obs_md5, obs_scripts, obs_ctl, mutate_result,
                     N_ACCESS, MD5_WAYS, HOWS_SHARED)

SPELLINGS = ["plain", "dot", "slash"]
PARTS = ["control", "data"]


def fmap(x):
    return x if isinstance(x, dict) else {}


class Session:
    """the real side: two DebFile objects; object o holds content generation g[o] of its path"""

    def __init__(self, work, mems, hows, styles):
        self.work, self.mems, self.hows, self.styles = work, mems, hows, styles
        self.deb = {}
        self.path = {1: None, 2: None}

    def open(self, o, conc):
        """(re)write the package of object o and open it; -> 'ok' or the failure class"""
        old = self.deb.get(o)
        if old is not None:
            try:
                old.close()
            except Exception:
                pass
        blob = B.build_deb(self.mems[o], conc, self.styles[o])
        deb, st, path = open_deb(blob, self.hows[o], self.work, self.path[o])
        self.deb[o] = deb
        self.path[o] = path
        return st

    def part(self, o, p):
        return self.deb[o].control if p == "control" else self.deb[o].data

    def disturber(self, o):
        other = self.deb.get(3 - o)

        def disturb():      # queries on the OTHER package and on the other part while a file is half read
            try:
                if other is not None:
                    other.control.get_content("control")
                    other.data.has_file("/control")
                self.deb[o].control.has_file("md5sums")
            except Exception:
                pass
        return disturb

    def close(self):
        for o in (1, 2):
            d = self.deb.get(o)
            if d is not None:
                try:
                    d.close()
                except Exception:
                    pass
            drop(self.path[o])


# ------------------------------------------------------------------ spec -> code

def load_table(lines):
    """HTAB lines -> (answers {(g1, g2): {(o, op, args): out}}, contents {(o, g): pkg}, parts {o: prts})"""
    tab, pkgs, prts = {}, {}, {}
    for t in lines:
        g = tuple(t["g"])
        tab.setdefault(g, {})[(t["o"], t["op"], tuple(t["args"] or ()))] = t["out"]
        pkgs[(t["o"], g[t["o"] - 1])] = t["pkg"]
        prts[t["o"]] = t["prts"]
    if len(tab) != 4 or len(pkgs) != 4:
        raise core.MachineryError("incomplete HTAB table: %d generations, %d contents" % (len(tab), len(pkgs)))
    return tab, pkgs, prts


def gen_hist(rnd, tab, pkgs, prts, nsteps, stress=0):
    """a random history over the model's queries with the answers TLC expects; JSON-able case.
    stress: size dimension of the concretisation (big blobs, many members, long names)"""
    qn = sorted({k[2][2] for k in tab[(0, 0)] if k[1] == "has"})
    names = B.gen_names(rnd, set(qn) | set(B.CTRL_NAMES), long_names=bool(stress))
    concs = {}
    for (o, g), pk in sorted(pkgs.items()):
        concs["%d,%d" % (o, g)] = B.Conc(rnd, pk, qn, names=names, stress=stress)
    mems, hows, styles = {}, {}, {}
    for o in (1, 2):
        m = [B.INFO, prts[o]["ctrl"], prts[o]["data"]]
        rnd.shuffle(m)
        mems[o] = m
        hows[o] = pick_how(rnd, 0.5)       # the two live objects are usually created in different ways
        styles[o] = "dpkg" if rnd.random() < 0.8 else "gnu"
    if stress and not any(x in HOWS_SHARED for x in hows.values()):
        hows[rnd.choice((1, 2))] = rnd.choice(HOWS_SHARED)
    queries = sorted(tab[(0, 0)])
    g = [0, 0]
    ops, prev = [], None
    for _ in range(nsteps):
        r = rnd.random()
        if prev is not None and r < 0.3:
            q = prev                                    # the same question again (other access path)
        elif r < 0.37:
            ops.append(["mutate"])
            continue
        elif r < 0.42:
            o = rnd.choice((1, 2))
            g[o - 1] ^= 1
            ops.append(["reopen", o, g[o - 1]])
            continue
        elif r < 0.55:
            q = (rnd.choice((1, 2)), rnd.choice(["scripts", "md5sums", "debcontrol"]), ())
        else:
            q = rnd.choice(queries)
        prev = q
        ops.append(["q", q[0], q[1], list(q[2]), rnd.randrange(N_ACCESS), rnd.choice(MD5_WAYS),
                    tab[tuple(g)][q], g[q[0] - 1]])
    return {"kind": "hist", "concs": concs, "mems": {str(k): v for k, v in mems.items()},
            "hows": {str(k): v for k, v in hows.items()}, "styles": {str(k): v for k, v in styles.items()},
            "pkgs": {"%d,%d" % k: v for k, v in pkgs.items()}, "ops": ops}


def hist_to_json(case):
    c = dict(case)
    c["concs"] = {k: (v.to_json() if isinstance(v, B.Conc) else v) for k, v in case["concs"].items()}
    return c


def run_hist(case, work, drift=None):
    """execute the history on two real packages; None or message"""
    concs = {k: (v if isinstance(v, B.Conc) else B.Conc.from_json(v)) for k, v in case["concs"].items()}
    sess = Session(work, {int(k): v for k, v in case["mems"].items()}, {int(k): v for k, v in case["hows"].items()},
                   {int(k): v for k, v in case["styles"].items()})
    try:
        for o in (1, 2):
            st = sess.open(o, concs["%d,0" % o])
            if st != "ok":
                return "package %d (members %r) could not be opened: %s" % (o, sess.mems[o], st)
        keep = []
        rnd = random.Random(len(case["ops"]))
        for i, op in enumerate(case["ops"]):
            where = "step %d of %d (two packages open, %s)" % (i + 1, len(case["ops"]), "/".join(sess.hows[o] for o in (1, 2)))
            if op[0] == "mutate":
                if keep:
                    mutate_result(keep[0])
                continue
            if op[0] == "reopen":
                _, o, g = op
                st = sess.open(o, concs["%d,%d" % (o, g)])
                if st != "ok":
                    return "%s: package %d rewritten and opened again: %s" % (where, o, st)
                continue
            _, o, q, args, variant, enc, out, g = op
            conc = concs["%d,%d" % (o, g)]
            if q in ("has", "get"):
                p, sp, n = args
                path = B.SPELL[sp] + conc.names[n]
                part = sess.part(o, p)
                if q == "has":
                    err, found = obs_has(part, path)
                    if err != out["err"] or (not err and found != out["found"]):
                        return "%s: package %d %s.has_file(%r) = %s, specification says %s" % (where, o, p, path, err or found, out["found"])
                else:
                    exp = conc.blob[out["blob"]] if out["found"] else None
                    err, data = obs_get(part, path, variant, sess.disturber(o), rnd, plain=conc.names[n],
                                        textok=exp is None or b"\r" not in exp)
                    if err == "DebError" and not out["found"]:
                        if drift is not None:
                            drift("get_content of an absent file raises DebError (KeyError expected)")
                        err, data = "", None
                    exp = conc.blob[out["blob"]] if out["found"] else None
                    if err != out["err"] or data != exp:
                        return "%s: package %d %s.get_content(%r) [access path %d] = %r, packed %r" % (
                            where, o, p, path, variant, err or (None if data is None else data[:80]), None if exp is None else exp[:80])
                continue
            deb = sess.deb[o]
            who = deb if rnd.random() < 0.5 else deb.control
            if q == "scripts":
                err, got = obs_scripts(who, keep)
                exp = {n: conc.blob[b] for n, b in fmap(out["map"]).items()}
            elif q == "md5sums":
                err, r = obs_md5(who, enc, keep)
                got = r[0] if r else None
                exp = {conc.names[n]: conc.sum[s] for n, s in fmap(out["map"]).items()}
            else:
                err, got = obs_ctl(who, keep)
                if conc.blob.get(out["blob"]) != B.render_control(conc.fields):
                    raise core.MachineryError("HTAB names control blob %r which is not the control file" % out["blob"])
                exp = dict(conc.fields)
            if err != out["err"] or (not err and got != exp):
                return "%s: package %d %s() = %r, packed %r" % (where, o, q, err or got, exp)
        return None
    finally:
        sess.close()


# ------------------------------------------------------------------ code -> spec

def sibling(rnd, conc, model):
    """another package with the SAME file names and different contents (a file dropped now and then)"""
    from props.c07 import random_package
    other, _ = random_package(rnd)                  # fresh fields / scripts; its data files are replaced
    keep = [m for m in model if rnd.random() < 0.85]
    dblob = {m: B.gen_blob(rnd) for m in keep}
    st = getattr(conc, "stress", 0)
    for m in keep[:6 if st == 1 else 2]:
        if st and rnd.random() < 0.5:
            dblob[m] = B.gen_big_blob(rnd, st)
    # (a top-level name with leading white space is outside NameDom of DebPayload.tla: never listed)
    md5 = [(conc.names[m], hashlib.md5(dblob[m]).hexdigest()) for m in keep
           if rnd.random() < 0.7 and B.name_listable(conc.names[m])]
    rnd.shuffle(md5)
    cfiles = [(n, b) for n, b in other.cfiles if n != "md5sums"] + [("md5sums", B.render_md5(md5))]
    rnd.shuffle(cfiles)
    dfiles = [(conc.names[m], dblob[m]) for m in keep]
    rnd.shuffle(dfiles)
    return B.Conc.concrete(conc.names, other.fields, cfiles, dfiles, md5, other.tarfmt)


def record_session(rnd, work, given=None):
    """two random packages with the same file names open at once; log what the real code answers"""
    from props.c07 import random_package, cname
    if given is None:
        c1, model = random_package(rnd)
        concs = {"1,0": c1, "2,0": sibling(rnd, c1, model)}
        mems, hows, styles = {}, {}, {}
        same = rnd.random() < 0.5                   # same member names in both packages (same compression)
        ext = (rnd.choice(B.EXTS), rnd.choice(B.EXTS))
        for o in (1, 2):
            e = ext if (same or o == 1) else (rnd.choice(B.EXTS), rnd.choice(B.EXTS))
            m = [B.INFO, cname(B.CTRL_BASE, e[0]), cname(B.DATA_BASE, e[1])]
            if rnd.random() < 0.3:
                m.append(rnd.choice(["_gpgorigin", "foo", "data.tar.gz.bak"]))
            rnd.shuffle(m)
            mems[o] = m
            hows[o] = pick_how(rnd, 0.5)
            styles[o] = "dpkg" if rnd.random() < 0.8 or any(len(x) > 15 for x in m) else "gnu"
        present_c = B.CTRL_NAMES
        calls, gens, prev = [], {1: 0, 2: 0}, None
        for _ in range(rnd.randint(15, 45)):
            r = rnd.random()
            if prev is not None and r < 0.3:
                calls.append(prev[:5] + [rnd.randrange(N_ACCESS)] if prev[0] in ("has", "get") else list(prev))
            elif r < 0.37:
                calls.append(["mutate"])
            elif r < 0.42:
                o = rnd.choice((1, 2))
                gens[o] += 1
                key = "%d,%d" % (o, gens[o])
                concs[key] = sibling(rnd, c1, model)
                calls.append(["reopen", o, key])
            elif r < 0.55:
                prev = [rnd.choice(["scripts", "md5sums", "debcontrol"]), rnd.choice((1, 2)), rnd.choice(MD5_WAYS)]
                calls.append(prev)
            else:
                p = rnd.choice(PARTS)
                r2 = rnd.random()
                n = (rnd.choice(model) if model and r2 < 0.55 else rnd.choice(present_c) if r2 < 0.85 else "absent")
                prev = [rnd.choice(["has", "get"]), rnd.choice((1, 2)), p, rnd.choice(SPELLINGS), n, rnd.randrange(N_ACCESS)]
                calls.append(prev)
    else:
        concs = {k: B.Conc.from_json(v) for k, v in given["concs"].items()}
        model, calls = given["model"], given["calls"]
        mems, hows, styles = ({int(k): v for k, v in given[x].items()} for x in ("mems", "hows", "styles"))
    names = concs["1,0"].names
    rev = {names[m]: m for m in model}
    table, sums = {}, {}

    def bid(b):
        return table.setdefault(b, len(table) + 1)

    def abstract(conc):
        c = {n: bid(b) for n, b in sorted(conc.cfiles)}
        d = {rev[n]: bid(b) for n, b in sorted(conc.dfiles)}
        m = {rev[n]: sums.setdefault(h, 1001 + len(sums)) for n, h in sorted(conc.md5)}
        return {"c": c, "d": d or [], "m": m or []}
    for k in sorted(concs):         # one table of distinct contents for the whole session
        abstract(concs[k])
    sess = Session(work, mems, hows, styles)
    cur = {1: concs["1,0"], 2: concs["2,0"]}
    objs = [{"mem": mems[o], "pkg": abstract(cur[o])} for o in (1, 2)]
    events = []
    try:
        for o in (1, 2):
            st = sess.open(o, cur[o])
            if st != "ok":          # reported by the single-package legs; nothing to record here
                return None
        keep = []
        for cl in calls:
            op = cl[0]
            if op == "mutate":
                if keep:
                    mutate_result(keep[0])
                events.append({"op": "mutate"})
            elif op == "reopen":
                _, o, key = cl
                cur[o] = concs[key]
                st = sess.open(o, cur[o])
                events.append({"op": "reopen", "o": o, "pkg": abstract(cur[o])})
                if st != "ok":
                    events.append({"op": "has", "o": o, "p": "control", "sp": "plain", "n": "control", "err": st, "found": False})
                    break
            elif op in ("has", "get"):
                _, o, p, sp, n, variant = cl
                path = B.SPELL[sp] + names[n]
                mn = n if n != "absent" else "f0"
                part = sess.part(o, p)
                if op == "has":
                    err, found = obs_has(part, path)
                    events.append({"op": "has", "o": o, "p": p, "sp": sp, "n": mn, "err": err, "found": bool(found)})
                else:
                    pb = dict(cur[o].cfiles if p == "control" else cur[o].dfiles).get(names[n])
                    err, data = obs_get(part, path, variant, sess.disturber(o), random.Random(len(events)), plain=names[n],
                                        textok=pb is None or b"\r" not in pb)
                    if err == "DebError" and obs_has(part, path)[0] == "":
                        err, data = "", None
                    events.append({"op": "get", "o": o, "p": p, "sp": sp, "n": mn, "err": err, "found": data is not None,
                                   "blob": 0 if data is None else table.get(data, 9999)})
            else:
                _, o, enc = cl
                deb = sess.deb[o]
                if op == "scripts":
                    err, sc = obs_scripts(deb, keep)
                    events.append({"op": op, "o": o, "err": err, "map": {k: table.get(v, 9999) for k, v in (sc or {}).items()} or []})
                elif op == "md5sums":
                    err, r = obs_md5(deb, enc, keep)
                    mp = {}
                    for i, (k, v) in enumerate(sorted((r[0] if r else {}).items())):
                        mp[rev.get(k, "unknown%d" % i)] = sums.get(v, 0)
                    events.append({"op": op, "o": o, "err": err, "map": mp or []})
                else:
                    err, fields = obs_ctl(deb, keep)
                    cid = table.get(B.render_control(cur[o].fields), 9998)
                    events.append({"op": op, "o": o, "err": err,
                                   "blob": cid if (not err and fields == dict(cur[o].fields)) else (0 if err else 9999)})
    finally:
        sess.close()
    return {"objs": objs, "events": events,
            "given": {"concs": {k: v.to_json() for k, v in concs.items()}, "model": model, "calls": calls,
                      "mems": {str(k): v for k, v in mems.items()}, "hows": {str(k): v for k, v in hows.items()},
                      "styles": {str(k): v for k, v in styles.items()}}}


def corrupt_session(t, how):
    import copy
    t = copy.deepcopy(t)
    for e in t["events"]:
        if how == "blob" and e["op"] == "get" and e["found"]:
            e["blob"] += 5000
            return t
        if how == "has" and e["op"] == "has" and e["err"] == "":
            e["found"] = not e["found"]
            return t
        if how == "dict" and e["op"] in ("scripts", "md5sums") and e["err"] == "":
            m = dict(fmap(e["map"]))
            m["junk"] = 0
            e["map"] = m
            return t
        if how == "ctl" and e["op"] == "debcontrol" and e["err"] == "":
            e["blob"] += 5000
            return t
    return None


def slim(t):
    return {"objs": t["objs"], "events": t["events"]}


def validate_sessions(ctx, sessions, java_opts=None, with_controls=True):
    """-> (rejected ids, progress info); controls count only when derived from an accepted trace"""
    sl = [slim(t) for t in sessions]
    ctl = []
    if with_controls:
        for how in ("blob", "has", "dict", "ctl"):
            n = 0
            for k, t in enumerate(sl):
                c = corrupt_session(t, how)
                if c:
                    ctl.append((k, c))
                    n += 1
                    if n == 4:
                        break
    acc, _, r = core.validate_traces(ctx, "TraceDebFileCache", "TraceDebFileCache.cfg", sl + [c for _, c in ctl],
                                     extra_env={"TRACE_DIAG": "0"}, java_opts=java_opts)
    effective = 0
    for j, (k, c) in enumerate(ctl):
        if (k + 1) in acc:
            if (len(sl) + j + 1) in acc:
                raise core.MachineryError("TraceDebFileCache accepted a corrupted control trace (derived from "
                                          "accepted trace %d): binding is vacuous" % (k + 1))
            effective += 1
    rejected = [i for i in range(1, len(sl) + 1) if i not in acc]
    if with_controls:
        if effective == 0 and not rejected:
            raise core.MachineryError("no effective negative control for two-package trace validation")
        ctx.extra["negative_controls_rejected"] = ctx.extra.get("negative_controls_rejected", 0) + effective
    info = {}
    if rejected:
        sub = [sl[i - 1] for i in rejected[:20]]
        _, prog, _ = core.validate_traces(ctx, "TraceDebFileCache", "TraceDebFileCache.cfg", sub,
                                          extra_env={"TRACE_DIAG": "1"}, java_opts=java_opts)
        for j, i in enumerate(rejected[:20]):
            info[i] = prog.get(j + 1, 0)
    return rejected, info
