"""C07, history layer (spec/DebFileCache.tla): two real packages open at once -- same file names,
different contents and compression -- with interleaved, repeated queries, mutation of returned
dictionaries and rewrite + re-open of a path.

spec -> code: run_hist() drives a random history; the expected answer of every step is the HTAB
line TLC printed for (content generation of the two paths, query).
code -> spec: record_session() logs such a history of random packages for TraceDebFileCache."""
import hashlib
import random

import core
import c07_build as B
from c07_obs import (open_deb, drop, pick_how, obs_has, obs_get, obs_md5, obs_scripts, obs_ctl, mutate_result,
                     N_ACCESS, MD5_WAYS, HOWS_SHARED, HOWS_FLAKY, FAULT_KINDS, FAULT_AT, AR_KINDS, AR_NAMED,
                     obs_ar, ar_glance, obs_read_begin, obs_read_end, obs_faulted, trigger_of, forget_trigger,
                     make_fault, classify, came_out, obs_close, CLOSE_WAYS)

SPELLINGS = ["plain", "dot", "slash"]
PARTS = ["control", "data"]
CLOSES = sorted(CLOSE_WAYS)             # close() / `with` exit / the parts' close(): ordinary steps (DebFileCache: Close)
HEADS = [0, 1, 2, 3, 7, 100, 511, 512, 1000, 4096, 8191, 8192, 8193]        # bytes read before the other steps


def member_of(mem, w):
    """the ar member an ArFile-level call names: the member of part w, debian-binary for 'info'"""
    if w == "info":
        return B.INFO
    for name in mem:
        k = B.part_of(name)
        if k and k[0] == w:
            return name
    raise core.MachineryError("member list %r has no %s part" % (mem, w))


def ext_of(mem, p):
    return B.part_of(member_of(mem, p))[1]


def fmap(x):
    return x if isinstance(x, dict) else {}


class Session:
    """the real side: two DebFile objects; object o holds content generation g[o] of its path"""

    def __init__(self, work, mems, hows, styles):
        self.work, self.mems, self.hows, self.styles = work, mems, hows, styles
        self.deb = {}
        self.path = {1: None, 2: None}
        self.hand = None        # the half-read file: [o, file object, head]

    def open(self, o, conc):
        """(re)write the package of object o and open it; -> 'ok' or the failure class"""
        old = self.deb.get(o)
        if self.hand is not None and self.hand[0] == o:
            self.drop_hand()
        if old is not None:
            forget_trigger(old)
            try:
                old.close()
            except Exception:
                pass
        blob = B.build_deb(self.mems[o], conc, self.styles[o])
        deb, st, path = open_deb(blob, self.hows[o], self.work, self.path[o])
        self.deb[o] = deb
        self.path[o] = path
        return st

    def part(self, o, p):
        return self.deb[o].control if p == "control" else self.deb[o].data

    def drop_hand(self):
        if self.hand is not None:
            try:
                self.hand[1].close()
            except Exception:
                pass
        self.hand = None

    def read_begin(self, o, p, path, k):
        """-> (err, found); a file found stays half read in self.hand"""
        err, f, head = obs_read_begin(self.part(o, p), path, k)
        if f is not None:
            self.hand = [o, f, head]
        return err, f is not None

    def read_end(self, fault=None):
        """the remainder of the half-read file -> (exc, err, data); with fault = (k, kind) the caller's file
        object is armed meanwhile: exc = what came out if the injected fault did ('' otherwise)"""
        o, f, head = self.hand[:3]
        self.hand = None
        trig = trigger_of(self.deb[o]) if fault else None
        if trig is None:
            err, data = obs_read_end(f, head)
            return "", err, data
        injected = make_fault(fault[1])
        trig.arm(fault[0], injected)
        try:
            rest = f.read()
        except Exception as e:
            fired = trig.fired
            trig.disarm()
            try:
                f.close()
            except Exception:
                pass
            exc = came_out(e, injected) if fired else ""
            return exc, ("" if exc else classify(e)), None
        trig.disarm()
        try:
            f.close()
        except Exception:
            pass
        return "", "", (head + rest) if isinstance(rest, bytes) else None

    def raw_query(self, o, q, args, enc, names):
        """the plain call of query q (no cross-checks): what is run while the file object is armed"""
        deb = self.deb[o]
        if q in ("has", "get"):
            p, sp, n = args
            part, path = self.part(o, p), B.SPELL[sp] + names[n]
            return (lambda: part.has_file(path)) if q == "has" else (lambda: part.get_content(path))
        if q == "scripts":
            return deb.scripts
        if q == "debcontrol":
            return deb.debcontrol
        return lambda: deb.md5sums(encoding="utf-8")

    def disturber(self, o):
        other = self.deb.get(3 - o)

        def disturb():      # queries on the OTHER package and on the other part while a file is half read
            try:
                if other is not None:
                    other.control.get_content("control")
                    other.data.has_file("/control")
                self.deb[o].control.has_file("md5sums")
            except Exception:
                pass
            ar_glance(self.deb[o])          # DebFile is an ArFile: looking at the member table is harmless
            if other is not None:
                ar_glance(other)
        return disturb

    def close(self):
        self.drop_hand()
        for o in (1, 2):
            d = self.deb.get(o)
            if d is not None:
                forget_trigger(d)
                try:
                    d.close()
                except Exception:
                    pass
            drop(self.path[o])


# ------------------------------------------------------------------ spec -> code

def load_table(lines):
    """HTAB lines -> (answers {(g1, g2): {(o, op, args): out}}, contents {(o, g): pkg}, parts {o: prts})"""
    tab, pkgs, prts = {}, {}, {}
    for t in lines:
        g = tuple(t["g"])
        tab.setdefault(g, {})[(t["o"], t["op"], tuple(t["args"] or ()))] = t["out"]
        pkgs[(t["o"], g[t["o"] - 1])] = t["pkg"]
        prts[t["o"]] = t["prts"]
    if len(tab) != 4 or len(pkgs) != 4:
        raise core.MachineryError("incomplete HTAB table: %d generations, %d contents" % (len(tab), len(pkgs)))
    return tab, pkgs, prts


def gen_hist(rnd, tab, pkgs, prts, nsteps, stress=0, fdom=None):
    """a random history over the model's queries with the answers TLC expects; JSON-able case.
    stress: size dimension of the concretisation (big blobs, many members, long names).
    fdom (the FDOM line): where a fault of the caller's file object is specified to leave no trace, given
    that the part's tarball is open, and what a faulted query may raise.  Steps besides the queries:
      ["rb", o, args, k, out, g]   get_file + read(k): `out` is the get answer of the table
      ["re", o, out, g]            the remainder: head + remainder = the blob of `out`
      ["ar", o, kind, w]           an ArFile-level call naming the member of part w / debian-binary
      ["close", o, way]            close() / `with` exit / a part's close(); the object is used on afterwards (more often
                                   while a file of that object is half read: streams obtained BEFORE the close)
      ["fault", o, q, args, enc, out, g, k, kind, dom, exc]   query q (or "re") with the file object armed"""
    qn = sorted({k[2][2] for k in tab[(0, 0)] if k[1] == "has"})
    names = B.gen_names(rnd, set(qn) | set(B.CTRL_NAMES), long_names=bool(stress))
    concs = {}
    for (o, g), pk in sorted(pkgs.items()):
        concs["%d,%d" % (o, g)] = B.Conc(rnd, pk, qn, names=names, stress=stress)
    mems, hows, styles = {}, {}, {}
    for o in (1, 2):
        m = [B.INFO, prts[o]["ctrl"], prts[o]["data"]]
        rnd.shuffle(m)
        mems[o] = m
        hows[o] = pick_how(rnd, 0.5)       # the two live objects are usually created in different ways
        styles[o] = "dpkg" if rnd.random() < 0.8 else "gnu"
    if stress and not any(x in HOWS_SHARED + HOWS_FLAKY for x in hows.values()):
        hows[rnd.choice((1, 2))] = rnd.choice(HOWS_SHARED)
    if fdom and rnd.random() < 0.6 and not any(x in HOWS_FLAKY for x in hows.values()):
        hows[rnd.choice((1, 2, 2))] = rnd.choice(HOWS_FLAKY)    # half of the histories have an object that can fail
    flaky = [o for o in (1, 2) if hows[o] in HOWS_FLAKY] if fdom else []
    queries = sorted(tab[(0, 0)])
    gets = [q for q in queries if q[1] == "get"]
    g = [0, 0]
    ops, prev = [], None
    opened = {1: set(), 2: set()}       # parts whose tarball an earlier successful query has opened (DebFileCache: THit)
    hand = None                         # the half-read file: (o, p)

    def part_of_query(q):
        return q[2][0] if q[1] in ("has", "get") else "control"

    def carry_on(o, p):
        """then the ordinary history continues: right after a fault, valid calls on the same part"""
        same = [q for q in queries if q[0] == o and q[1] in ("has", "get") and q[2][0] == p]
        there = [q for q in same if tab[tuple(g)][q]["found"]]
        for _ in range(rnd.choice([1, 2, 2, 3, 4])):
            q = rnd.choice(there if there and rnd.random() < 0.8 else same)
            if p == "control" and rnd.random() < 0.3:
                q = (o, rnd.choice(["scripts", "md5sums"]), ())
            ops.append(["q", o, q[1], list(q[2]), rnd.randrange(N_ACCESS), rnd.choice(MD5_WAYS), tab[tuple(g)][q], g[o - 1]])
            opened[o].add(p)

    def early_fault(o):
        """a fault early in the life of an object: the first membership query of a part, then the file
        object fails during the second one (another name of the same part)"""
        if o not in flaky or rnd.random() < 0.25:
            return
        p = rnd.choice([x for x in PARTS if fdom["dom"][o - 1][x]] or PARTS)
        has = [q for q in queries if q[0] == o and q[1] == "has" and q[2][0] == p]
        there = [q for q in has if tab[tuple(g)][q]["found"]]
        q1 = rnd.choice(there if there and rnd.random() < 0.85 else has)
        others = [q for q in has if q[2][2] != q1[2][2]]
        q2 = rnd.choice(others if rnd.random() < 0.85 else has)
        ops.append(["q", o, "has", list(q1[2]), rnd.randrange(N_ACCESS), None, tab[tuple(g)][q1], g[o - 1]])
        opened[o].add(p)
        dom = bool(fdom["dom"][o - 1][p])
        ops.append(["fault", o, "has", list(q2[2]), None, tab[tuple(g)][q2], g[o - 1], rnd.choice([1, 1, 1, 2, 3, 5]),
                    rnd.choice(FAULT_KINDS), dom, fdom["exc"]])
        if not dom:
            ops.append(["reopen", o, g[o - 1]])
            opened[o] = set()
        carry_on(o, p)
    for o in flaky:
        early_fault(o)
    for _ in range(nsteps):
        r = rnd.random()
        r2 = rnd.random()
        if rnd.random() < (0.22 if hand is not None else 0.09):
            # the object is closed and used on: the reader opens its file again on demand (Close leaves no trace)
            ops.append(["close", hand[0] if hand is not None and rnd.random() < 0.8 else rnd.choice((1, 2)), rnd.choice(CLOSES)])
            continue
        if hand is not None and r2 < 0.45:
            if r2 < 0.2:                # an ArFile-level look at the very member the half-read file lives in
                ops.append(["ar", hand[0], rnd.choice(AR_NAMED + AR_KINDS), hand[1]])
            elif r2 < 0.25:
                ops.append(["ar", rnd.choice((1, 2)), rnd.choice(AR_KINDS), rnd.choice(PARTS + ["info"])])
            elif r2 < 0.3 and hand[0] in flaky:
                o, p = hand[:2]
                dom = bool(fdom["dom"][o - 1][p]) and p in opened[o]
                ops.append(["fault", o, "re", [], None, hand[2], hand[3], rnd.choice(FAULT_AT), rnd.choice(FAULT_KINDS),
                            dom, fdom["exc"]])
                hand = None
                if not dom:
                    ops.append(["reopen", o, g[o - 1]])
                    opened[o] = set()
            else:
                ops.append(["re", hand[0], hand[2], hand[3]])
                hand = None
            continue
        if fdom and r2 < 0.12:
            ops.append(["ar", rnd.choice((1, 2)), rnd.choice(AR_KINDS), rnd.choice(PARTS + ["info"])])
            continue
        if fdom and hand is None and r2 < 0.24:
            q = rnd.choice(gets)
            if not tab[tuple(g)][q]["found"] and rnd.random() < 0.7:        # mostly files that are there
                q = rnd.choice([x for x in gets if tab[tuple(g)][x]["found"]])
            out = tab[tuple(g)][q]
            ops.append(["rb", q[0], list(q[2]), rnd.choice(HEADS), out, g[q[0] - 1]])
            if not out["err"]:
                opened[q[0]].add(q[2][0])
            if out["found"]:
                hand = (q[0], q[2][0], out, g[q[0] - 1])
                if rnd.random() < 0.4:      # head, a look at the ar member of that very part, (soon) the rest
                    ops.append(["ar", hand[0], rnd.choice(AR_NAMED), hand[1]])
                    if rnd.random() < 0.5:
                        ops.append(["re", hand[0], hand[2], hand[3]])
                        hand = None
            continue
        if flaky and r2 < 0.40:
            o = rnd.choice(flaky)
            cand = [q for q in queries if q[0] == o and part_of_query(q) in opened[o]]
            q = rnd.choice(cand) if cand and rnd.random() < 0.85 else rnd.choice([q for q in queries if q[0] == o])
            p = part_of_query(q)
            dom = bool(fdom["dom"][o - 1][p]) and p in opened[o]
            ops.append(["fault", o, q[1], list(q[2]), rnd.choice(MD5_WAYS), tab[tuple(g)][q], g[o - 1],
                        rnd.choice(FAULT_AT), rnd.choice(FAULT_KINDS), dom, fdom["exc"]])
            if not dom:                 # unspecified: the object is opened again (same content) before anything else
                ops.append(["reopen", o, g[o - 1]])
                opened[o] = set()
                if hand is not None and hand[0] == o:
                    hand = None
            carry_on(o, p)
            continue
        if prev is not None and r < 0.3:
            q = prev                                    # the same question again (other access path)
        elif r < 0.37:
            ops.append(["mutate"])
            continue
        elif r < 0.42:
            o = rnd.choice((1, 2))
            g[o - 1] ^= 1
            ops.append(["reopen", o, g[o - 1]])
            opened[o] = set()
            if hand is not None and hand[0] == o:
                hand = None
            early_fault(o)
            continue
        elif r < 0.55:
            q = (rnd.choice((1, 2)), rnd.choice(["scripts", "md5sums", "debcontrol"]), ())
        else:
            q = rnd.choice(queries)
        prev = q
        if not tab[tuple(g)][q]["err"] or q[1] in ("md5sums", "debcontrol"):
            opened[q[0]].add(part_of_query(q))
        ops.append(["q", q[0], q[1], list(q[2]), rnd.randrange(N_ACCESS), rnd.choice(MD5_WAYS),
                    tab[tuple(g)][q], g[q[0] - 1]])
    return {"kind": "hist", "concs": concs, "mems": {str(k): v for k, v in mems.items()},
            "hows": {str(k): v for k, v in hows.items()}, "styles": {str(k): v for k, v in styles.items()},
            "pkgs": {"%d,%d" % k: v for k, v in pkgs.items()}, "ops": ops}


def hist_to_json(case):
    c = dict(case)
    c["concs"] = {k: (v.to_json() if isinstance(v, B.Conc) else v) for k, v in case["concs"].items()}
    return c


def run_hist(case, work, drift=None):
    """execute the history on two real packages; None or message"""
    concs = {k: (v if isinstance(v, B.Conc) else B.Conc.from_json(v)) for k, v in case["concs"].items()}
    sess = Session(work, {int(k): v for k, v in case["mems"].items()}, {int(k): v for k, v in case["hows"].items()},
                   {int(k): v for k, v in case["styles"].items()})
    try:
        for o in (1, 2):
            st = sess.open(o, concs["%d,0" % o])
            if st != "ok":
                return "package %d (members %r) could not be opened: %s" % (o, sess.mems[o], st)
        keep = []
        rnd = random.Random(len(case["ops"]))
        for i, op in enumerate(case["ops"]):
            B.STATS["step:" + (op[0] if op[0] != "fault" else "fault-in-domain" if op[9] else "fault-unspecified")] += 1
            where = "step %d of %d (two packages open, %s)" % (i + 1, len(case["ops"]), "/".join(sess.hows[o] for o in (1, 2)))
            if op[0] == "mutate":
                if keep:
                    mutate_result(keep[0])
                continue
            if op[0] == "reopen":
                _, o, g = op
                st = sess.open(o, concs["%d,%d" % (o, g)])
                if st != "ok":
                    return "%s: package %d rewritten and opened again: %s" % (where, o, st)
                continue
            if op[0] == "ar":
                _, o, kind, w = op
                err = obs_ar(sess.deb[o], kind, member_of(sess.mems[o], w))
                if err:
                    return "%s: package %d: ArFile-level call %s(%r): %s" % (where, o, kind, member_of(sess.mems[o], w), err)
                continue
            if op[0] == "close":
                _, o, way = op
                err = obs_close(sess.deb[o], way)
                if err:
                    return "%s: package %d: close() [%s] on an object that is used on afterwards: %s" % (where, o, way, err)
                continue
            if op[0] == "rb":
                _, o, args, k, out, g = op
                p, sp, n = args
                path = B.SPELL[sp] + concs["%d,%d" % (o, g)].names[n]
                err, found = sess.read_begin(o, p, path, k)
                if err != out["err"] or found != out["found"]:
                    return "%s: package %d %s.get_file(%r).read(%d): %s, specification says found = %s" % (
                        where, o, p, path, k, err or ("found" if found else "absent"), out["found"])
                continue
            if op[0] == "re" or (op[0] == "fault" and op[2] == "re"):
                if sess.hand is None:
                    raise core.MachineryError("history reads the remainder of a file that was never begun")
                o = op[1]
                out, g = (op[2], op[3]) if op[0] == "re" else (op[5], op[6])
                exp = concs["%d,%d" % (o, g)].blob[out["blob"]]
                head = len(sess.hand[2])
                exc, err, data = sess.read_end((op[7], op[8]) if op[0] == "fault" else None)
                if exc:
                    if exc not in op[10]:
                        return "%s: package %d: the file object given to DebFile raised once while the rest of a file was read: %s came out" % (where, o, exc)
                    continue
                if op[0] == "fault" and not op[9]:
                    continue        # outside the fault domain: unspecified (the object is opened again next)
                if err or data != exp:
                    return "%s: package %d: a file read in two steps (%d bytes, other calls, the rest) = %r, packed %r" % (
                        where, o, head, err or (None if data is None else data[:80]), exp[:80])
                continue
            if op[0] == "fault":
                _, o, q, args, enc, out, g, k, kind, dom, allowed = op
                conc = concs["%d,%d" % (o, g)]
                exc = obs_faulted(sess.deb[o], k, kind, sess.raw_query(o, q, args, enc, conc.names))
                if exc:
                    if exc not in allowed:
                        return "%s: package %d: the file object given to DebFile raised %s once during %s%r: %s came out" % (
                            where, o, kind, q, tuple(args), exc)
                    continue
                if not dom:
                    continue        # (the object is opened again by the next step)
                variant = rnd.randrange(N_ACCESS)       # the fault did not come out: the answer is the ordinary one
            else:
                _, o, q, args, variant, enc, out, g = op
            conc = concs["%d,%d" % (o, g)]
            if q in ("has", "get"):
                p, sp, n = args
                path = B.SPELL[sp] + conc.names[n]
                part = sess.part(o, p)
                if q == "has":
                    err, found = obs_has(part, path)
                    if err != out["err"] or (not err and found != out["found"]):
                        return "%s: package %d %s.has_file(%r) = %s, specification says %s" % (where, o, p, path, err or found, out["found"])
                else:
                    exp = conc.blob[out["blob"]] if out["found"] else None
                    err, data = obs_get(part, path, variant, sess.disturber(o), rnd, plain=conc.names[n],
                                        textok=exp is None or b"\r" not in exp)
                    if err == "DebError" and not out["found"]:
                        if drift is not None:
                            drift("get_content of an absent file raises DebError (KeyError expected)")
                        err, data = "", None
                    exp = conc.blob[out["blob"]] if out["found"] else None
                    if err != out["err"] or data != exp:
                        return "%s: package %d %s.get_content(%r) [access path %d] = %r, packed %r" % (
                            where, o, p, path, variant, err or (None if data is None else data[:80]), None if exp is None else exp[:80])
                continue
            deb = sess.deb[o]
            who = deb if rnd.random() < 0.5 else deb.control
            if q == "scripts":
                err, got = obs_scripts(who, keep)
                exp = {n: conc.blob[b] for n, b in fmap(out["map"]).items()}
            elif q == "md5sums":
                err, r = obs_md5(who, enc, keep)
                got = r[0] if r else None
                exp = {conc.names[n]: conc.sum[s] for n, s in fmap(out["map"]).items()}
            else:
                err, got = obs_ctl(who, keep)
                if conc.blob.get(out["blob"]) != B.render_control(conc.fields):
                    raise core.MachineryError("HTAB names control blob %r which is not the control file" % out["blob"])
                exp = dict(conc.fields)
            if err != out["err"] or (not err and got != exp):
                return "%s: package %d %s() = %r, packed %r" % (where, o, q, err or got, exp)
        return None
    finally:
        sess.close()


# ------------------------------------------------------------------ code -> spec

def sibling(rnd, conc, model):
    """another package with the SAME file names and different contents (a file dropped now and then)"""
    from props.c07 import random_package
    other, _ = random_package(rnd)                  # fresh fields / scripts; its data files are replaced
    keep = [m for m in model if rnd.random() < 0.85]
    dblob = {m: B.gen_blob(rnd) for m in keep}
    st = getattr(conc, "stress", 0)
    for m in keep[:6 if st == 1 else 2]:
        if st and rnd.random() < 0.5:
            dblob[m] = B.gen_big_blob(rnd, st)
    # (a top-level name with leading white space is outside NameDom of DebPayload.tla: never listed)
    md5 = [(conc.names[m], hashlib.md5(dblob[m]).hexdigest()) for m in keep
           if rnd.random() < 0.7 and B.name_listable(conc.names[m])]
    rnd.shuffle(md5)
    cfiles = [(n, b) for n, b in other.cfiles if n != "md5sums"] + [("md5sums", B.render_md5(md5))]
    rnd.shuffle(cfiles)
    dfiles = [(conc.names[m], dblob[m]) for m in keep]
    rnd.shuffle(dfiles)
    return B.Conc.concrete(conc.names, other.fields, cfiles, dfiles, md5, other.tarfmt)


def record_session(rnd, work, given=None):
    """two random packages with the same file names open at once; log what the real code answers"""
    from props.c07 import random_package, cname
    if given is None:
        # (a quarter of the sessions: 30+ members, blobs of 8..64 KiB -- compressed parts beyond the read-ahead)
        c1, model = random_package(rnd, stress=1 if rnd.random() < 0.25 else None)
        concs = {"1,0": c1, "2,0": sibling(rnd, c1, model)}
        mems, hows, styles = {}, {}, {}
        same = rnd.random() < 0.5                   # same member names in both packages (same compression)
        ext = (rnd.choice(B.EXTS), rnd.choice(B.EXTS))
        for o in (1, 2):
            e = ext if (same or o == 1) else (rnd.choice(B.EXTS), rnd.choice(B.EXTS))
            hows[o] = pick_how(rnd, 0.5)
            if hows[o] in HOWS_FLAKY:
                # reads of an uncompressed part go straight to the caller's file object (a small compressed part
                # is slurped by the decompressor in one read): more of those where the object can fail
                e = tuple(x if rnd.random() < 0.6 else "" for x in e)
            m = [B.INFO, cname(B.CTRL_BASE, e[0]), cname(B.DATA_BASE, e[1])]
            if rnd.random() < 0.3:
                m.append(rnd.choice(["_gpgorigin", "foo", "data.tar.gz.bak"]))
            rnd.shuffle(m)
            mems[o] = m
            styles[o] = "dpkg" if rnd.random() < 0.8 or any(len(x) > 15 for x in m) else "gnu"
        present_c = B.CTRL_NAMES
        calls, gens, prev = [], {1: 0, 2: 0}, None
        flaky = [o for o in (1, 2) if hows[o] in HOWS_FLAKY]
        hand = None                 # (o, p) of the half-read file, as far as the generator can tell

        def pick_name(p):
            r3 = rnd.random()
            own = model if p == "data" else present_c
            return rnd.choice(own) if own and r3 < 0.8 else rnd.choice(present_c) if r3 < 0.9 else "absent"

        def carry_on(o, p):
            """then the ordinary history continues: right after a fault, valid calls on the same part"""
            for _ in range(rnd.choice([1, 2, 2, 3, 4])):
                if p == "control" and rnd.random() < 0.3:
                    calls.append([rnd.choice(["scripts", "md5sums"]), o, rnd.choice(MD5_WAYS)])
                else:
                    calls.append([rnd.choice(["has", "has", "get"]), o, p, rnd.choice(SPELLINGS), pick_name(p),
                                  rnd.randrange(N_ACCESS)])

        def early_fault(o):
            """a fault early in the life of an object: the first membership query of a part, then the
            file object fails during the second one (another name of the same part)"""
            if o not in flaky or rnd.random() < 0.25:
                return
            p = rnd.choice(PARTS)
            n1 = pick_name(p)
            n2 = pick_name(p)
            if n2 == n1:
                n2 = pick_name(p)
            calls.append(["has", o, p, rnd.choice(SPELLINGS), n1, 0])
            calls.append(["fault", o, "has", rnd.choice([1, 1, 1, 2, 3, 5]), rnd.choice(FAULT_KINDS), p, rnd.choice(SPELLINGS), n2])
            carry_on(o, p)
        for o in flaky:
            early_fault(o)
        for _ in range(rnd.randint(15, 45)):
            r = rnd.random()
            r2 = rnd.random()
            if rnd.random() < (0.22 if hand is not None else 0.09):
                calls.append(["close", hand[0] if hand is not None and rnd.random() < 0.8 else rnd.choice((1, 2)), rnd.choice(CLOSES)])
                continue
            if hand is not None and r2 < 0.45:
                if r2 < 0.2:
                    calls.append(["ar", hand[0], rnd.choice(AR_NAMED + AR_KINDS), hand[1]])
                elif r2 < 0.25:
                    calls.append(["ar", rnd.choice((1, 2)), rnd.choice(AR_KINDS), rnd.choice(PARTS + ["info"])])
                elif r2 < 0.3:
                    calls.append(["fault", hand[0], "re", rnd.choice(FAULT_AT), rnd.choice(FAULT_KINDS)])
                    hand = None
                else:
                    calls.append(["re"])
                    hand = None
                continue
            if r2 < 0.10:
                calls.append(["ar", rnd.choice((1, 2)), rnd.choice(AR_KINDS), rnd.choice(PARTS + ["info"])])
                continue
            if hand is None and r2 < 0.22:
                p = rnd.choice(PARTS)
                n = (rnd.choice(model) if model and p == "data" and rnd.random() < 0.8 else
                     rnd.choice(present_c) if rnd.random() < 0.8 else "absent")
                o = rnd.choice((1, 2))
                calls.append(["rb", o, p, rnd.choice(SPELLINGS), n, rnd.choice(HEADS)])
                hand = (o, p)       # (if the file is absent there is no file object: "re" is then skipped)
                if rnd.random() < 0.4:      # head, a look at the ar member of that very part, (soon) the rest
                    calls.append(["ar", o, rnd.choice(AR_NAMED), p])
                    if rnd.random() < 0.5:
                        calls.append(["re"])
                        hand = None
                continue
            if flaky and r2 < 0.40:
                o = rnd.choice(flaky)
                if rnd.random() < 0.3:
                    calls.append(["fault", o, rnd.choice(["scripts", "md5sums", "debcontrol"]), rnd.choice(FAULT_AT),
                                  rnd.choice(FAULT_KINDS)])
                    carry_on(o, "control")
                else:
                    p = rnd.choice(PARTS)
                    n2 = rnd.random()
                    n = (rnd.choice(model) if model and n2 < 0.55 else rnd.choice(present_c) if n2 < 0.85 else "absent")
                    calls.append(["fault", o, rnd.choice(["has", "get"]), rnd.choice(FAULT_AT), rnd.choice(FAULT_KINDS),
                                  p, rnd.choice(SPELLINGS), n])
                    carry_on(o, p)
                continue
            if prev is not None and r < 0.3:
                calls.append(prev[:5] + [rnd.randrange(N_ACCESS)] if prev[0] in ("has", "get") else list(prev))
            elif r < 0.37:
                calls.append(["mutate"])
            elif r < 0.42:
                o = rnd.choice((1, 2))
                gens[o] += 1
                key = "%d,%d" % (o, gens[o])
                concs[key] = sibling(rnd, c1, model)
                calls.append(["reopen", o, key])
                if hand is not None and hand[0] == o:
                    hand = None
                early_fault(o)
            elif r < 0.55:
                prev = [rnd.choice(["scripts", "md5sums", "debcontrol"]), rnd.choice((1, 2)), rnd.choice(MD5_WAYS)]
                calls.append(prev)
            else:
                p = rnd.choice(PARTS)
                r2 = rnd.random()
                n = (rnd.choice(model) if model and r2 < 0.55 else rnd.choice(present_c) if r2 < 0.85 else "absent")
                prev = [rnd.choice(["has", "get"]), rnd.choice((1, 2)), p, rnd.choice(SPELLINGS), n, rnd.randrange(N_ACCESS)]
                calls.append(prev)
    else:
        concs = {k: B.Conc.from_json(v) for k, v in given["concs"].items()}
        model, calls = given["model"], given["calls"]
        mems, hows, styles = ({int(k): v for k, v in given[x].items()} for x in ("mems", "hows", "styles"))
    names = concs["1,0"].names
    rev = {names[m]: m for m in model}
    table, sums = {}, {}

    def bid(b):
        return table.setdefault(b, len(table) + 1)

    def abstract(conc):
        c = {n: bid(b) for n, b in sorted(conc.cfiles)}
        d = {rev[n]: bid(b) for n, b in sorted(conc.dfiles)}
        m = {rev[n]: sums.setdefault(h, 1001 + len(sums)) for n, h in sorted(conc.md5)}
        return {"c": c, "d": d or [], "m": m or []}
    for k in sorted(concs):         # one table of distinct contents for the whole session
        abstract(concs[k])
    sess = Session(work, mems, hows, styles)
    cur = {1: concs["1,0"], 2: concs["2,0"]}
    curkey = {1: "1,0", 2: "2,0"}
    objs = [{"mem": mems[o], "pkg": abstract(cur[o])} for o in (1, 2)]
    events = []
    opened = {1: set(), 2: set()}       # parts a successful query has opened since the object was created

    def reopen_same(o):
        """after a fault the generator takes to be outside the fault domain (unopened or compressed part): the
        object is opened again on the same content before anything else is asked of it"""
        st = sess.open(o, cur[o])
        events.append({"op": "reopen", "o": o, "pkg": abstract(cur[o])})
        opened[o] = set()
        return st
    try:
        for o in (1, 2):
            st = sess.open(o, cur[o])
            if st != "ok":          # reported by the single-package legs; nothing to record here
                return None
        keep = []
        for cl in calls:
            op = cl[0]
            if op == "fault" and cl[2] != "re":
                # the query with the caller's file object armed; when the injected fault does not come out the
                # caller asks again (below) and that answer is the event
                o, q, k, kind = cl[1:5]
                args = cl[5:8]
                p = args[0] if args else "control"
                exc = obs_faulted(sess.deb[o], k, kind, sess.raw_query(o, q, args, "utf-8", names))
                if exc:
                    ev = {"op": "fault", "o": o, "q": q, "exc": exc}
                    if args:
                        ev.update({"p": args[0], "sp": args[1], "n": args[2] if args[2] != "absent" else "f0"})
                    events.append(ev)
                    if not (p in opened[o] and ext_of(mems[o], p) == "") and reopen_same(o) != "ok":
                        break
                    continue
                cl = [q, o] + list(args) + [(k + len(events)) % N_ACCESS] if args else [q, o, "utf-8"]
                op = q
            if op == "mutate":
                if keep:
                    mutate_result(keep[0])
                events.append({"op": "mutate"})
            elif op == "ar":
                _, o, kind, w = cl
                err = obs_ar(sess.deb[o], kind, member_of(mems[o], w))
                events.append({"op": "ar", "o": o, "kind": kind, "w": w, "err": err})
            elif op == "close":
                _, o, way = cl
                events.append({"op": "close", "o": o, "w": CLOSE_WAYS[way], "err": obs_close(sess.deb[o], way)})
            elif op == "rb":
                _, o, p, sp, n, k = cl
                if sess.hand is not None:
                    continue
                err, found = sess.read_begin(o, p, B.SPELL[sp] + names[n], k)
                if err == "DebError" and obs_has(sess.part(o, p), B.SPELL[sp] + names[n])[0] == "":
                    err = ""
                if not err:
                    opened[o].add(p)
                events.append({"op": "readbegin", "o": o, "p": p, "sp": sp, "n": n if n != "absent" else "f0",
                               "err": err, "found": found})
                if found:
                    sess.hand.append(p)
            elif op == "re" or (op == "fault" and cl[2] == "re"):
                if sess.hand is None:
                    continue
                o, p = sess.hand[0], sess.hand[3]
                if op == "fault" and o != cl[1]:
                    continue
                exc, err, data = sess.read_end((cl[3], cl[4]) if op == "fault" else None)
                if exc:
                    events.append({"op": "fault", "o": o, "q": "readend", "exc": exc})
                    if not (p in opened[o] and ext_of(mems[o], p) == "") and reopen_same(o) != "ok":
                        break
                else:
                    events.append({"op": "readend", "o": o, "err": err, "found": data is not None,
                                   "blob": 0 if data is None else table.get(data, 9999)})
            elif op == "reopen":
                _, o, key = cl
                cur[o] = concs[key]
                st = sess.open(o, cur[o])
                opened[o] = set()
                events.append({"op": "reopen", "o": o, "pkg": abstract(cur[o])})
                if st != "ok":
                    events.append({"op": "has", "o": o, "p": "control", "sp": "plain", "n": "control", "err": st, "found": False})
                    break
            elif op in ("has", "get"):
                _, o, p, sp, n, variant = cl
                path = B.SPELL[sp] + names[n]
                mn = n if n != "absent" else "f0"
                part = sess.part(o, p)
                if op == "has":
                    err, found = obs_has(part, path)
                    events.append({"op": "has", "o": o, "p": p, "sp": sp, "n": mn, "err": err, "found": bool(found)})
                    if not err:
                        opened[o].add(p)
                else:
                    pb = dict(cur[o].cfiles if p == "control" else cur[o].dfiles).get(names[n])
                    err, data = obs_get(part, path, variant, sess.disturber(o), random.Random(len(events)), plain=names[n],
                                        textok=pb is None or b"\r" not in pb)
                    if err == "DebError" and obs_has(part, path)[0] == "":
                        err, data = "", None
                    events.append({"op": "get", "o": o, "p": p, "sp": sp, "n": mn, "err": err, "found": data is not None,
                                   "blob": 0 if data is None else table.get(data, 9999)})
                    if not err:
                        opened[o].add(p)
            else:
                _, o, enc = cl
                deb = sess.deb[o]
                if op == "scripts":
                    err, sc = obs_scripts(deb, keep)
                    events.append({"op": op, "o": o, "err": err, "map": {k: table.get(v, 9999) for k, v in (sc or {}).items()} or []})
                elif op == "md5sums":
                    err, r = obs_md5(deb, enc, keep)
                    mp = {}
                    for i, (k, v) in enumerate(sorted((r[0] if r else {}).items())):
                        mp[rev.get(k, "unknown%d" % i)] = sums.get(v, 0)
                    events.append({"op": op, "o": o, "err": err, "map": mp or []})
                else:
                    err, fields = obs_ctl(deb, keep)
                    cid = table.get(B.render_control(cur[o].fields), 9998)
                    events.append({"op": op, "o": o, "err": err,
                                   "blob": cid if (not err and fields == dict(cur[o].fields)) else (0 if err else 9999)})
                if not err:
                    opened[o].add("control")
    finally:
        sess.close()
    for e in events:
        B.STATS["event:" + e["op"]] += 1
    return {"objs": objs, "events": events,
            "given": {"concs": {k: v.to_json() for k, v in concs.items()}, "model": model, "calls": calls,
                      "mems": {str(k): v for k, v in mems.items()}, "hows": {str(k): v for k, v in hows.items()},
                      "styles": {str(k): v for k, v in styles.items()}}}


def corrupt_session(t, how):
    import copy
    t = copy.deepcopy(t)
    for e in t["events"]:
        if how == "blob" and e["op"] == "get" and e["found"]:
            e["blob"] += 5000
            return t
        if how == "has" and e["op"] == "has" and e["err"] == "":
            e["found"] = not e["found"]
            return t
        if how == "dict" and e["op"] in ("scripts", "md5sums") and e["err"] == "":
            m = dict(fmap(e["map"]))
            m["junk"] = 0
            e["map"] = m
            return t
        if how == "ctl" and e["op"] == "debcontrol" and e["err"] == "":
            e["blob"] += 5000
            return t
        if how == "readend" and e["op"] == "readend" and e["found"]:
            e["blob"] += 5000
            return t
        if how == "faultexc" and e["op"] == "fault":
            e["exc"] = "EXC:RuntimeError"        # something else than the caller's exception came out
            return t
        if how == "ar" and e["op"] == "ar" and e["err"] == "":
            e["err"] = "EXC:KeyError"
            return t
        if how == "close" and e["op"] == "close" and e["err"] == "":
            e["err"] = "EXC:ValueError"
            return t
    return None


def slim(t):
    return {"objs": t["objs"], "events": t["events"]}


def validate_sessions(ctx, sessions, java_opts=None, with_controls=True):
    """-> (rejected ids, progress info); controls count only when derived from an accepted trace"""
    sl = [slim(t) for t in sessions]
    ctl = []
    if with_controls:
        for how in ("blob", "has", "dict", "ctl", "readend", "faultexc", "ar", "close"):
            n = 0
            for k, t in enumerate(sl):
                c = corrupt_session(t, how)
                if c:
                    ctl.append((k, c))
                    n += 1
                    if n == 4:
                        break
    acc, _, r = core.validate_traces(ctx, "TraceDebFileCache", "TraceDebFileCache.cfg", sl + [c for _, c in ctl],
                                     extra_env={"TRACE_DIAG": "0"}, java_opts=java_opts)
    effective = 0
    for j, (k, c) in enumerate(ctl):
        if (k + 1) in acc:
            if (len(sl) + j + 1) in acc:
                raise core.MachineryError("TraceDebFileCache accepted a corrupted control trace (derived from "
                                          "accepted trace %d): binding is vacuous" % (k + 1))
            effective += 1
    rejected = [i for i in range(1, len(sl) + 1) if i not in acc]
    if with_controls:
        if effective == 0 and not rejected:
            raise core.MachineryError("no effective negative control for two-package trace validation")
        ctx.extra["negative_controls_rejected"] = ctx.extra.get("negative_controls_rejected", 0) + effective
    info = {}
    if rejected:
        sub = [sl[i - 1] for i in rejected[:20]]
        _, prog, _ = core.validate_traces(ctx, "TraceDebFileCache", "TraceDebFileCache.cfg", sub,
                                          extra_env={"TRACE_DIAG": "1"}, java_opts=java_opts)
        for j, i in enumerate(rejected[:20]):
            info[i] = prog.get(j + 1, 0)
    return rejected, info
