"""X12 helper: concretization and driving of debian.debtags (query and I/O layer).

Nothing here decides a verdict: it generates inputs inside the lexical domain of the tag database format,
spells abstract lines as text in the ways the format allows, calls the library through every public entry
point / variant (notes/API_SURFACE.md), and projects what came back (dictionaries, sets, printed text) into
the vocabulary of spec/TagRel.tla.  Expectations come from TLC.

Lexical domain of a name (package, facet, tag): non-empty; no "\\n" and no "\\r"; no ", " inside (the list
separator); first and last character are not white space (str.isspace: parse_tags strips \\s around the lists);
no ':' followed by white space and no final ':' (the package/tag separator).  Facets hold no ':'; a tag is
facet + '::' + rest.  Everything else is allowed and generated: ',' and ':' and blanks INSIDE names, NBSP and
other Unicode spaces inside, the characters str.splitlines() treats as line ends (\\x0b \\x0c \\x1c-\\x1e \\x85
U+2028 U+2029) inside, non-NFC/NFKC-stable text next to its precomposed twin as DIFFERENT names, case-mapping
hazards, BOM / zero-width / bidi marks, non-BMP, every UTF-8 trailing byte as last byte of a name, lengths
1..8193 (notes/SIZE_STRESS.md).
"""
import contextlib
import functools
import io
import os
import re
import tempfile
import warnings

BOUNDARY = [1, 2, 7, 8, 9, 15, 16, 17, 31, 32, 33, 63, 64, 65, 71, 72, 73, 79, 80, 81, 127, 128, 129, 255, 256, 257,
            1023, 1024, 1025, 4095, 4096, 4097, 8191, 8192, 8193]
COUNTS = [0, 1, 2, 3, 9, 10, 11, 16, 17, 31, 32, 33, 99, 100, 101, 255, 256, 257]
TAME = "abcdefghijklmnopqrstuvwxyz0123456789-+."
# groups of strings that a normalising / case-folding / white-space-collapsing implementation would merge
TWINS = [
    ["\u00e9", "e\u0301"], ["\u00c5", "A\u030a", "\u212b"], ["\u03a9", "\u2126"], ["\uf9d0", "\u985e"], ["\ufb01", "fi"],
    ["\uff21", "A"], ["\uac00", "\u1100\u1161"], ["\u00df", "ss", "\u1e9e"], ["\u0130", "I", "i", "\u0131"], ["\u017f", "s", "S"],
    ["\u03c2", "\u03c3", "\u03a3"], ["\U00010400", "\U00010428"], ["K", "k", "\u212a"], ["x", "\ufeffx", "x\ufeff"],
    ["ab", "a\u200db", "a\u200cb", "a\u00adb", "a\u200fb", "a\u200bb"], ["a b", "a\u00a0b", "a\u2003b", "a\u3000b", "a\tb", "a  b"],
    ["a,b", "a, b".replace(", ", ",\u00a0"), "a;b"], ["a:b", "a::b", "a\uff1ab"],
    ["a\x0bb", "a\x0cb", "a\x1cb", "a\x1db", "a\x1eb", "a\x85b", "a\u2028b", "a\u2029b"],
    ["\U0001F600", "\U0001F601"], ["\U0010FFFF", "\U0010FFFE"], ["o\u0302\u0323", "o\u0323\u0302", "\u1ed9"],
]
ODD_EDGE = "\u00e9\u0301\u212b\u2126\uf9d0\ufb01\uff21\u1161\u00df\u0130\u0131\u017f\u03c2\U00010428\ufeff\u200d\u00ad\u200f\u200b\U0001F600\U0010FFFF\u0300"
TRAIL = [chr(c) for c in range(0x400, 0x440)]      # UTF-8 D0 80 .. D0 BF: every trailing byte as the last byte
LEAD = ["\u00e9", "\u0416", "\u0939", "\u4e2d", "\U0001F600", "\u07ff", "\u0800", "\uffff", "\U00010000"]


def valid_name(s, facet=False):
    """the lexical domain of the format (see the module docstring)"""
    if not s or "\n" in s or "\r" in s or ", " in s:
        return False
    if s[0].isspace() or s[-1].isspace() or s[-1] == ":":
        return False
    if re.search(r":\s", s):
        return False
    if facet and ":" in s:
        return False
    return True


class Namer(object):
    """injective map abstract name -> real name.  Abstract names: 'f::n' (tag of facet f), anything else is a
    plain name; a facet on its own ('f') is the facet part of its tags.  stress: 0 tame, 1 characters, 2 sizes."""

    def __init__(self, rng, stress=0):
        self.rng, self.stress = rng, stress
        self.fwd, self.back = {}, {}
        self.used = set()
        self.count = 0
        self.twin_queue = []

    def _fresh(self, facet=False):
        rng = self.rng
        for _ in range(200):
            self.count += 1
            if self.stress == 0:
                s = "".join(rng.choice(TAME) for _ in range(rng.choice([1, 1, 2, 3, 5, 8])))
                if facet:
                    s = s.replace(":", "")
            elif self.stress == 1:
                if not self.twin_queue:
                    g = list(rng.choice(TWINS))
                    rng.shuffle(g)
                    pre = rng.choice(["", "", "w", "\u4e2d", "Z"])
                    post = rng.choice(["", "", "q", rng.choice(TRAIL), rng.choice(LEAD)])
                    self.twin_queue = [pre + x + post for x in g]
                s = self.twin_queue.pop()
                r = rng.random()
                if r < 0.25:
                    s = s + rng.choice(TRAIL)
                elif r < 0.4:
                    s = rng.choice(ODD_EDGE) + s
                elif r < 0.5:
                    s = s + rng.choice(ODD_EDGE)
                if facet:
                    s = s.replace(":", "\uff1a")
            else:
                ln = rng.choice(BOUNDARY if rng.random() < 0.15 else BOUNDARY[:29])      # > 1025 characters: now and then
                fill = rng.choice(["x", "ab", "\u00e9", "\u0416", ",", "a b ", "\U0001F600", "-"])   # (runs of blanks make parse_tags' regex quadratic)
                head = "%s%d" % (rng.choice("pqt"), self.count)
                body = (fill * ln)[:max(0, ln - len(head) - 1)]
                s = (head + body + rng.choice(["z", rng.choice(TRAIL)]))[:max(1, ln)]
                if len(s) < ln:
                    s = s + "z" * (ln - len(s))
                if s[-1].isspace() or s[-1] in ",:":
                    s = s[:-1] + "z"
                s = s.replace(", ", ",,")
            if valid_name(s, facet) and s not in self.used:
                self.used.add(s)
                return s
        # fall back to a counter (always valid, always new)
        s = "n%d" % self.count
        while s in self.used:
            self.count += 1
            s = "n%d" % self.count
        self.used.add(s)
        return s

    def _bind(self, a, s):
        self.fwd[a] = s
        self.back[s] = a
        self.used.add(s)
        return s

    def real(self, a):
        s = self.fwd.get(a)
        if s is not None:
            return s
        if "::" in a:
            f, n = a.split("::", 1)
            for _ in range(50):
                s = self.real(f) + "::" + self._fresh()
                if valid_name(s) and s not in self.back:
                    return self._bind(a, s)
            return self._bind(a, self.real(f) + "::n%d" % len(self.fwd))
        return self._bind(a, self._fresh(facet=True) if a.startswith("F:") or len(a) == 1 else self._fresh())

    def facet(self, a):
        """abstract facet names are single letters or 'F:<x>' (never tags)"""
        return self.real(a)

    def clone(self, a, i):
        """the i-th copy of package a (i = 0: a itself)"""
        if i == 0:
            return self.real(a)
        key = "%s#%d" % (a, i)
        s = self.fwd.get(key)
        if s is None:
            s = self.real(a) + "~%d" % i
            while s in self.back:
                s += "'"
            self._bind(key, s)
        return s

    def abstract(self, s):
        """real -> abstract ('?<repr>' for a name the case never introduced); clones map to 'a#i'"""
        return self.back.get(s, "?" + repr(s)[:60])


# ------------------------------------------------------------------ text of the tag database

COLON_WS = [" ", " ", " ", "  ", "\t", " \t", "\t ", "   "]
TRAIL_WS = ["", "", "", " ", "\t", "\r", " \r", "  "]
UNTAGGED = ["%s", "%s:", "%s: ", "%s:\t", "%s  ", "%s:  "]


def spell_line(rng, pkgs, tags, plain=False):
    """one data line [pkgs, tags] (lists of real names, repetitions allowed) as text without the newline"""
    p = ", ".join(pkgs)
    if not tags:
        return (UNTAGGED[0] if plain else rng.choice(UNTAGGED)) % p
    if plain:
        return p + ": " + ", ".join(tags)
    return p + ":" + rng.choice(COLON_WS) + ", ".join(tags) + rng.choice(TRAIL_WS)


def spell_text(rng, lines, plain=False):
    """abstract lines ([pkgs, tags] of real names; pkgs == [] is a blank line) -> list of text lines, each with its
    newline except possibly the last"""
    out = []
    for pk, tg in lines:
        out.append(("" if not pk else spell_line(rng, pk, tg, plain)) + "\n")
    if out and not plain and rng.random() < 0.3 and out[-1] != "\n":
        out[-1] = out[-1][:-1]                     # no newline at the end of the file
    return out


INPUT_FORMS = ["list", "tuple", "iter", "gen", "stringio", "file", "nonl", "split", "deque"]


class Inputs(object):
    """hands a text (list of lines) to a reader in one of the documented input forms; keeps real files in a scratch
    directory and closes / removes them"""

    def __init__(self, workdir=None):
        self.dir = workdir
        self.open = []

    def form(self, rng, lines, form=None):
        form = form or rng.choice(INPUT_FORMS)
        if form == "list":
            return list(lines)
        if form == "tuple":
            return tuple(lines)
        if form == "iter":
            return iter(list(lines))
        if form == "gen":
            return (x for x in list(lines))
        if form == "stringio":
            return io.StringIO("".join(lines), newline="\n")
        if form == "nonl":          # the lines without their newline (an element == '' is a blank line)
            return [x[:-1] if x.endswith("\n") else x for x in lines]
        if form == "split":         # text.split('\n') with the newlines put back by the caller
            txt = "".join(lines)
            parts = txt.split("\n")
            return [x + "\n" for x in parts[:-1]] + ([parts[-1]] if parts[-1] else [])
        if form == "deque":
            import collections
            return collections.deque(lines)
        if form == "file":
            fd, path = tempfile.mkstemp(prefix="x12-", suffix=".tags", dir=self.dir)
            with os.fdopen(fd, "w", encoding="utf-8", newline="\n", errors="surrogatepass") as f:
                f.write("".join(lines))
            f = open(path, "r", encoding="utf-8", newline="\n", errors="surrogatepass")
            self.open.append((f, path))
            return f
        raise ValueError(form)

    def close(self):
        for f, path in self.open:
            try:
                f.close()
                os.unlink(path)
            except OSError:
                pass
        self.open = []


def tag_filter_for(rng, drop):
    """a tag_filter rejecting exactly `drop` (a set of real tags) -> (args, kwargs) to append to the reader call"""
    drop = frozenset(drop)
    if not drop and rng.random() < 0.5:
        return rng.choice([((), {}), ((None,), {}), ((), {"tag_filter": None})])
    k = rng.randrange(4)
    if k == 0:
        fn = lambda t: t not in drop                       # noqa: E731
    elif k == 1:
        def fn(t):
            return not drop.__contains__(t)
    elif k == 2:
        fn = functools.partial(lambda d, t: t not in d, drop)
    else:
        class Keep(object):
            def __call__(self, t):
                return 0 if t in drop else 1               # truthy / falsy, not bool
        fn = Keep()
    return rng.choice([((fn,), {}), ((), {"tag_filter": fn})])


# ------------------------------------------------------------------ calling the library

def quiet():
    warnings.filterwarnings("ignore", category=DeprecationWarning)


def capture(fn, *a, **kw):
    """what fn prints to sys.stdout"""
    buf = io.StringIO()
    with contextlib.redirect_stdout(buf):
        r = fn(*a, **kw)
    return buf.getvalue(), r


def lex_output(text):
    """text of output() -> (entries [(key, [values])], faithful): faithful = the text is EXACTLY the entries written
    as  key ': ' v1 ', ' v2 ... '\\n'  (lexing cannot hide a deviation of the format)"""
    if text == "":
        return [], True
    parts = text.split("\n")
    ok = parts[-1] == ""
    ents = []
    for ln in parts[:-1] if ok else parts:
        i = ln.find(": ")
        if i < 0:
            ents.append((ln, []))
            ok = False
            continue
        k, rest = ln[:i], ln[i + 2:]
        ents.append((k, rest.split(", ") if rest != "" else []))
    again = "".join("%s: %s\n" % (k, ", ".join(v)) for k, v in ents)
    return ents, ok and again == text


def as_seq(rng, names, kind=None):
    kind = kind or rng.choice(["list", "tuple", "iter", "gen", "set", "dictkeys"])
    names = list(names)
    if kind == "list":
        return names
    if kind == "tuple":
        return tuple(names)
    if kind == "iter":
        return iter(names)
    if kind == "gen":
        return (x for x in names)
    if kind == "set":
        return set(names)
    return dict.fromkeys(names).keys()


def member_pred(rng, accept):
    accept = frozenset(accept)
    k = rng.randrange(4)
    if k == 0:
        return lambda x: x in accept
    if k == 1:
        return accept.__contains__
    if k == 2:
        return functools.partial(lambda s, x: 1 if x in s else 0, accept)

    def fn(x):
        return x in accept
    return fn


def pt_pred(pred):
    """predicate of filter_packages_tags from its specification record (real names inside)"""
    k, s, n = pred["k"], pred.get("s") or [], pred.get("n", 0)
    if k == "has":
        return lambda pt: s[0] in pt[1]
    if k == "hasnt":
        return lambda pt: s[0] not in pt[1]
    if k == "sup":
        q = set(s)
        return lambda pt: q.issubset(pt[1])
    if k == "pkgin":
        q = set(s)
        return lambda pt: pt[0] in q
    if k == "atleast":
        return lambda pt: len(pt[1]) >= n
    raise ValueError(k)


def call_variant(rng, obj, snake, camel, args, kwname=None):
    """obj.snake(*args) through the method, its deprecated camelCase alias, or with the (single) argument by keyword"""
    r = rng.random()
    if camel and r < 0.3:
        return getattr(obj, camel)(*args)
    if kwname and len(args) == 1 and r < 0.5:
        return getattr(obj, snake)(**{kwname: args[0]})
    return getattr(obj, snake)(*args)


DERIVE_API = {
    # op: (snake, camel, keyword of the argument)
    "reverse": ("reverse", None, None), "reverse_copy": ("reverse_copy", "reverseCopy", None), "copy": ("copy", None, None),
    "choose": ("choose_packages", "choosePackages", "package_iter"),
    "choose_copy": ("choose_packages_copy", "choosePackagesCopy", "package_iter"),
    "filter_p": ("filter_packages", "filterPackages", "package_filter"),
    "filter_p_copy": ("filter_packages_copy", "filterPackagesCopy", "filter_data"),
    "filter_pt": ("filter_packages_tags", "filterPackagesTags", "package_tag_filter"),
    "filter_pt_copy": ("filter_packages_tags_copy", "filterPackagesTagsCopy", "package_tag_filter"),
    "filter_t": ("filter_tags", "filterTags", "tag_filter"),
    "filter_t_copy": ("filter_tags_copy", "filterTagsCopy", "tag_filter"),
    "facet": ("facet_collection", "facetCollection", None),
}


def text_lines(text):
    """the printed text as the lines a reader gets (split at '\\n' ONLY: names may hold other line-end look-alikes)"""
    parts = text.split("\n")
    return [x + "\n" for x in parts[:-1]] + ([parts[-1]] if parts[-1] else [])


def derive(rng, D, db, op, s=None, pred=None, inputs=None):
    """the derivation `op` on the real collection db -> new collection (exceptions propagate)"""
    if op in ("dump_read", "rdump_read"):
        if op == "dump_read":
            text, _ = capture(db.dump) if rng.random() < 0.6 else capture(D.output, db.db)
        else:
            text, _ = capture(call_variant, rng, db, "dump_reverse", "dumpReverse", ()) if rng.random() < 0.6 else capture(D.output, db.rdb)
        new = D.DB()
        src = (inputs or Inputs()).form(rng, text_lines(text))
        new.read(src)
        return new
    snake, camel, kw = DERIVE_API[op]
    if op in ("reverse", "reverse_copy", "copy", "facet"):
        return call_variant(rng, db, snake, camel, ())
    if op in ("choose", "choose_copy"):
        return call_variant(rng, db, snake, camel, (as_seq(rng, s),), kw)
    if op in ("filter_p", "filter_p_copy", "filter_t", "filter_t_copy"):
        return call_variant(rng, db, snake, camel, (member_pred(rng, s),), kw)
    if op in ("filter_pt", "filter_pt_copy"):
        return call_variant(rng, db, snake, camel, (pt_pred(pred),), kw)
    raise ValueError(op)


QUERY_API = {
    "has_package": ("has_package", "hasPackage", "pkg"), "has_tag": ("has_tag", "hasTag", "tag"),
    "tags_of_package": ("tags_of_package", "tagsOfPackage", "pkg"), "packages_of_tag": ("packages_of_tag", "packagesOfTag", "tag"),
    "tags_of_packages": ("tags_of_packages", "tagsOfPackages", "pkgs"), "packages_of_tags": ("packages_of_tags", "packagesOfTags", "tags"),
    "card": ("card", None, "tag"), "discriminance": ("discriminance", None, "tag"),
    "package_count": ("package_count", "packageCount", None), "tag_count": ("tag_count", "tagCount", None),
    "iter_packages": ("iter_packages", "iterPackages", None), "iter_tags": ("iter_tags", "iterTags", None),
    "iter_packages_tags": ("iter_packages_tags", "iterPackagesTags", None), "iter_tags_packages": ("iter_tags_packages", "iterTagsPackages", None),
    "ideal_tagset": ("ideal_tagset", "idealTagset", "tags"),
}
ONE_NAME = ("has_package", "has_tag", "tags_of_package", "packages_of_tag", "card", "discriminance")


def typed(v):
    """a raw answer -> (type tag, payload of real names / numbers); unexpected types are reported, never hidden"""
    if v is True or v is False:
        return ("bool", v)
    if isinstance(v, int):
        return ("int", v)
    if isinstance(v, (set, frozenset)):
        if all(isinstance(x, str) for x in v):
            return ("set", sorted(v))
        return ("other", repr(v)[:200])
    return ("other", "%s %s" % (type(v).__name__, repr(v)[:200]))


def spoiled(v, spoil):
    """mutate-results probe: the caller scribbles into a set that must be a NEW object (answer recorded first)"""
    r = typed(v)
    if spoil is not None and isinstance(v, set):
        v.add(spoil)
        v.discard(next(iter(v)))
    return r


def ask(rng, D, db, op, s=None, spoil=None):
    """the query `op` on the real collection -> (type tag, payload); exceptions propagate.
    spoil: a name the caller adds to the returned set afterwards (only where the answer must be a new set: the
    multi-name queries, ideal_tagset, and -- decided by the caller -- the set handed out for an unknown key)"""
    if op in ONE_NAME:
        snake, camel, kw = QUERY_API[op]
        return spoiled(call_variant(rng, db, snake, camel, (s[0],), kw), spoil)
    if op in ("tags_of_packages", "packages_of_tags"):
        snake, camel, kw = QUERY_API[op]
        return spoiled(call_variant(rng, db, snake, camel, (as_seq(rng, s, rng.choice(["list", "tuple", "iter", "gen"])),), kw), spoil)
    if op in ("package_count", "tag_count"):
        snake, camel, kw = QUERY_API[op]
        return typed(call_variant(rng, db, snake, camel, ()))
    if op in ("iter_packages", "iter_tags"):
        snake, camel, kw = QUERY_API[op]
        v = call_variant(rng, db, snake, camel, ())
        ks = list(v) if rng.random() < 0.7 else [x for x in v]
        if not all(isinstance(x, str) for x in ks):
            return ("other", repr(ks)[:200])
        return ("keys", ks)
    if op in ("iter_packages_tags", "iter_tags_packages"):
        snake, camel, kw = QUERY_API[op]
        items = list(call_variant(rng, db, snake, camel, ()))
        if not all(isinstance(it, tuple) and len(it) == 2 and isinstance(it[0], str) and isinstance(it[1], (set, frozenset)) for it in items):
            return ("other", repr(items)[:200])
        return ("entries", [(k, sorted(v)) for k, v in items])
    if op in ("dump", "dump_reverse"):
        if op == "dump":
            text, r = capture(db.dump) if rng.random() < 0.6 else capture(D.output, db.db)
        else:
            text, r = capture(call_variant, rng, db, "dump_reverse", "dumpReverse", ()) if rng.random() < 0.6 else capture(D.output, db.rdb)
        ents, faithful = lex_output(text)
        if r is not None or not faithful:
            return ("other", "output text %r (returned %r) is not of the form key': 'v1', 'v2...'\\n' per line" % (text[:300], r))
        return ("entries", ents)
    if op == "ideal_tagset":
        snake, camel, kw = QUERY_API[op]
        arg = list(s) if rng.random() < 0.7 else tuple(s)
        return spoiled(call_variant(rng, db, snake, camel, (arg,), kw), spoil)
    if op == "correlations":
        rows = list(db.correlations())
        if not all(isinstance(r, tuple) and len(r) == 3 and isinstance(r[2], float) for r in rows):
            return ("other", repr(rows)[:200])
        return ("corr", rows)
    raise ValueError(op)


def relevance(rng, D, full, sub, tag):
    fn = D.relevance_index_function if rng.random() < 0.6 else D.relevanceIndexFunction
    f = fn(full, sub) if rng.random() < 0.7 else fn(full=full, sub=sub)
    v = f(tag)
    if not isinstance(v, float):
        return ("other", repr(v)[:100])
    return ("float", v)


def handed_set(rng, db, side, key):
    """the set object a caller is handed for `key` (tags of a package: side 'f'; packages of a tag: side 'b')"""
    r = rng.random()
    if side == "f":
        if r < 0.5:
            return call_variant(rng, db, "tags_of_package", "tagsOfPackage", (key,), "pkg")
        for k, v in call_variant(rng, db, "iter_packages_tags", "iterPackagesTags", ()):
            if k == key:
                return v
        return db.tags_of_package(key)
    if r < 0.5:
        return call_variant(rng, db, "packages_of_tag", "packagesOfTag", (key,), "tag")
    for k, v in call_variant(rng, db, "iter_tags_packages", "iterTagsPackages", ()):
        if k == key:
            return v
    return db.packages_of_tag(key)


def mutate_set(rng, s, how, e):
    if how == "add":
        rng.choice([lambda: s.add(e), lambda: s.update([e]), lambda: s.__ior__({e})])()
    elif how == "discard":
        rng.choice([lambda: s.discard(e), lambda: s.difference_update([e]), lambda: s.__isub__({e})])()
    elif how == "clear":
        s.clear()
    else:
        raise ValueError(how)


def project(db):
    """the two dictionaries of a collection as {key: frozenset} (raises TypeError when they are not dict-of-sets)"""
    out = []
    for d in (db.db, db.rdb):
        if not isinstance(d, dict):
            raise TypeError("attribute is a %s, not a dict" % type(d).__name__)
        m = {}
        for k, v in d.items():
            if not isinstance(k, str) or not isinstance(v, (set, frozenset)) or not all(isinstance(x, str) for x in v):
                raise TypeError("entry %r -> %r is not str -> set of str" % (k, v))
            m[k] = frozenset(v)
        out.append(m)
    return out[0], out[1]


def project_map(d):
    if not isinstance(d, dict):
        raise TypeError("result is a %s, not a dict" % type(d).__name__)
    m = {}
    for k, v in d.items():
        if not isinstance(k, str) or not isinstance(v, (set, frozenset)) or not all(isinstance(x, str) for x in v):
            raise TypeError("entry %r -> %r is not str -> set of str" % (k, v))
        m[k] = frozenset(v)
    return m


def boundary_count(rng, big=False):
    c = rng.choice(COUNTS + ([1000, 1001] if big else []))
    return c
