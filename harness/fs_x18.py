"""X18 helper: the file-system leg (spec/AtomicPublish.tla).  Builds concrete scenarios for replace_file /
download_file / download_gunzip_lines from abstract inputs, executes them on the real functions with
implementation-agnostic observation and fault injection, and projects what happened onto the model's classes.

observation   one audit hook per process (sys.addaudithook; PEP 578) sees every open / rename / remove / ... the
              interpreter performs, whatever Python API the code under test uses; at each event that concerns the
              directory of `local` or the temporary directory the recorder takes a snapshot
              [l: class of `local`, n: any other new entry next to it, t: any entry in the temporary directory].
faults        hook:   the audit hook raises OSError for the first creating open next to `local` ("open"), for
                      os.rename / os.replace ("rename"), for the first creating open in the temporary directory
                      ("mktemp"), for the second one ("fetchopen": urlretrieve re-opens the file) -- the operation does
                      not take place;
              rlimit: RLIMIT_FSIZE = k bytes with SIGXFSZ ignored in a forked child: whichever write / flush / close
                      gets beyond k bytes fails with EFBIG ("anywrite" for the model);
              wrap:   only where a byte limit cannot express the fault (nothing to write; close after a complete
                      write): debian_support.open is shadowed by a proxy whose i-th write / close fails; a call in
                      which the proxy never fired is reported as skipped;
              natural: `local` is a directory (os.rename fails), the iterable of lines raises, an item cannot be
                      encoded / is no str, the remote file is missing or damaged, the temporary directory is missing.
"""
import errno
import gzip
import io
import os
import pickle
import random
import shutil
import stat
import sys
import tempfile
import warnings

import vals_x18 as V

NAME = "Packages"
EVENTS = {"open", "os.rename", "os.remove", "os.rmdir", "os.truncate", "os.link", "os.symlink", "os.mkdir", "tempfile.mkstemp",
          "shutil.move", "shutil.copyfile"}
_STATE = {"rec": None, "installed": False}
_WR = os.O_WRONLY | os.O_RDWR | os.O_CREAT | os.O_TRUNC | os.O_APPEND


def _hook(event, args):
    rec = _STATE["rec"]
    if rec is None or rec.busy or event not in EVENTS:
        return
    rec.on_event(event, args)


def install():
    if not _STATE["installed"]:
        sys.addaudithook(_hook)
        _STATE["installed"] = True


class SourceError(Exception):
    """raised by the iterable of lines the harness hands to replace_file"""


class Classifier(object):
    def __init__(self, old, new):
        self.old, self.new = old, new
        self.cache = {}

    def of_bytes(self, b):
        if b == b"":
            return "empty"
        if self.old is not None and b == self.old:
            return "old"
        if self.new is not None and b == self.new:
            return "new"
        if self.new is not None and self.new.startswith(b):
            return "part"
        return "other"

    def of_path(self, path):
        try:
            st = os.stat(path)
        except OSError:
            return "absent"
        if stat.S_ISDIR(st.st_mode):
            return "dir"
        key = (st.st_ino, st.st_size, st.st_mtime_ns)
        if key not in self.cache:
            try:
                with open(path, "rb") as f:
                    self.cache = {key: self.of_bytes(f.read())}
            except OSError:
                return "absent"
        return self.cache[key]


class Recorder(object):
    def __init__(self, ldir, tmpd, base, known, cls, inject):
        self.ldir, self.tmpd = os.path.realpath(ldir), os.path.realpath(tmpd)
        self.base = base
        self.local = os.path.join(self.ldir, base)
        self.known = set(known)
        self.cls = cls
        self.inject = inject if inject and inject.get("how") == "hook" else {}
        self.obs = []
        self.fired = False
        self.busy = False
        self.creat = {"ldir": 0, "tmp": 0}
        self.events = 0

    def where(self, p):
        try:
            if isinstance(p, int) or p is None:
                return None
            p = os.fspath(p)
            if isinstance(p, bytes):
                p = os.fsdecode(p)
            d = os.path.realpath(os.path.dirname(os.path.abspath(p)))
        except Exception:
            return None
        if d == self.ldir:
            return "ldir"
        if d == self.tmpd:
            return "tmp"
        return None

    def snap(self):
        self.busy = True
        try:
            s = {"l": self.cls.of_path(self.local),
                 "n": "present" if any(e != self.base and e not in self.known for e in os.listdir(self.ldir)) else "absent",
                 "t": "present" if os.listdir(self.tmpd) else "absent"}
        finally:
            self.busy = False
        if not self.obs or self.obs[-1] != s:
            self.obs.append(s)
        return s

    def fire(self, code, path):
        self.fired = True
        raise OSError(code, "injected fault (X18): " + os.strerror(code), str(path))

    def on_event(self, event, args):
        what = self.inject.get("what")
        if event == "open":
            p, flags = args[0], args[2] if len(args) > 2 else 0
            loc = self.where(p)
            if loc is None:
                return
            self.events += 1
            self.snap()
            if flags is not None and flags & _WR:
                base = os.path.basename(os.fsdecode(os.fspath(p)))
                if loc == "ldir" and base in self.known:
                    return
                self.creat[loc] += 1
                if loc == "ldir" and what == "open" and not self.fired:
                    self.fire(errno.EACCES, p)
                if loc == "tmp" and what == "mktemp" and self.creat["tmp"] == 1:
                    self.fire(errno.ENOSPC, p)
                if loc == "tmp" and what == "fetchopen" and self.creat["tmp"] == 2:
                    self.fire(errno.EIO, p)
        elif event in ("os.rename", "os.link", "os.symlink", "shutil.move", "shutil.copyfile"):
            if self.where(args[0]) or self.where(args[1]):
                self.events += 1
                self.snap()
                if what == "rename" and event == "os.rename" and (self.where(args[0]) == "ldir" or self.where(args[1]) == "ldir"):
                    self.fire(errno.EXDEV, args[0])
        elif self.where(args[0]):
            self.events += 1
            self.snap()


class WriteProxy(object):
    """proxy for a file the code under test opened for writing next to `local` (wrap mode)"""

    def __init__(self, f, box):
        self._f, self._box, self._closed = f, box, False

    def write(self, s):
        b = self._box
        b["nwrites"] += 1
        if b["what"] == "write" and b["nwrites"] == b["at"]:
            b["fired"] = True
            if len(s) > 1:
                self._f.write(s[:len(s) // 2])
                self._f.flush()
            raise OSError(errno.ENOSPC, "injected fault (X18): no space left on device")
        return self._f.write(s)

    def writelines(self, ls):
        for x in ls:
            self.write(x)

    def close(self):
        if self._closed:
            return
        self._closed = True
        b = self._box
        if b["what"] == "close" and not b["fired"]:
            b["fired"] = True
            try:
                self._f.flush()
                os.ftruncate(self._f.fileno(), max(0, os.fstat(self._f.fileno()).st_size // 2))
            except (OSError, ValueError):
                pass
            try:
                self._f.close()
            except (OSError, ValueError):
                pass
            raise OSError(errno.EIO, "injected fault (X18): close failed")
        self._f.close()

    def __enter__(self):
        return self

    def __exit__(self, *exc):
        self.close()
        return False

    def __getattr__(self, name):
        return getattr(self._f, name)


# ---------------------------------------------------------------------- scenarios

ENCODINGS = [None, "UTF-8", "utf-8", "latin-1", "utf-16", "ascii", "utf-16-le", "cp1252", "utf-8-sig", "utf-32-be"]
BOM_ENCODINGS = ("utf-16", "utf-8-sig")
CONTAINERS = ("list", "tuple", "gen", "iter", "deque", "custom")
ENTRY_FNS = {"replace_file": ("replace_file", "replaceFile"), "download_file": ("download_file", "downloadFile"),
             "download_gunzip_lines": ("download_gunzip_lines", "downloadGunzipLines")}
LOCAL_FORMS = ("abs", "rel", "reldot")
BYSTANDERS = [(NAME + ".new.bak", b"backup of a temp\n"), (NAME[:-1], b"shorter name\n"), (NAME + "x", b"longer name\n"),
              (".new", b"just the suffix\n"), (NAME + ".old", b"older\n"), ("sub", None), (NAME + ".newer", b"")]
ASCII_LINES = ["Package: foo\n", "Version: 1.0-1\n", "\n", " continued line\n", "a\x0bb\n", "\x0c\n", "x\x1c\x1d\x1e\n", "a\rb\n", "crlf\r\n",
               "tab\t\n", ".\n", "no newline at the end"]
LATIN_LINES = ["caf\u00e9\n", "\u00df\u00e5\u00c5\n", "\u00a0nbsp\n", "\u00adshy\n", "x\u00ffy\n"]
WIDE_LINES = ["\u0130\u0131\u017f\n", "\u00e9 e\u0301\n", "\u212b\u2126\uf9d0\ufb01\uff21\n", "\ufeffbom\n", "a\u2028b\u2029c\n", "\u0085\n",
              "\U0001f600\U0010ffff\n", "\u200b\u200d\u3000\n", "\u0434\u0435\u043d\u044c\n"] + ["x" + chr(c) + "\n" for c in range(0x400, 0x440, 9)]


def line_pool(encoding):
    e = (encoding or "utf-8").lower()
    if e == "ascii":
        return ASCII_LINES
    if e in ("latin-1", "cp1252"):
        return ASCII_LINES + LATIN_LINES
    return ASCII_LINES + LATIN_LINES + WIDE_LINES


def rand_items(rng, n, encoding, stress):
    pool = line_pool(encoding)
    items = []
    for j in range(min(n, 60)):
        t = rng.choice(pool)
        if stress and rng.random() < 0.3:
            c = rng.choice([x for x in pool if x.endswith("\n") and len(x) > 1])[:-1]
            t = (c * (V.heavy(rng, stress >= 2) // max(1, len(c)) + 1))[:V.heavy(rng, stress >= 2)] + "\n"
        items.append(t)
    if n > 60:
        items = (items * (n // 60 + 1))[:n]
    if encoding in BOM_ENCODINGS:
        items = [x or "x\n" for x in items]
    return items


def encode(items, encoding):
    return "".join(items).encode(encoding or "UTF-8")


def concrete_n(rng, nw, stress):
    if nw < 2:
        return nw
    if stress == 0:
        return rng.randint(2, 5)
    if stress == 1:
        return rng.choice([2, 3, 9, 10, 11, 16, 17, 31, 32, 33, 99, 100, 101, 255, 256, 257])
    return rng.choice([1000, 4097, 20000])


def bad_item(rng, encoding):
    e = (encoding or "utf-8").lower()
    kinds = ["bytes", "none", "int", "unenc"]
    k = rng.choice(kinds)
    if k == "bytes":
        return k, b"bytes line\n"
    if k == "none":
        return k, None
    if k == "int":
        return k, 7
    if e == "ascii":
        return k, "caf\u00e9\n"
    if e in ("latin-1",):
        return k, "price \u20ac\n"
    if e == "cp1252":
        return k, "\u0434\n"
    return k, "lone surrogate \udc80\n"


def build(rng, inp, gpick, stress=0, inject_pref=None, variant=0, fixed_old=None):
    """abstract input record -> concrete scenario (a dict of plain values; bytes allowed).
    gpick(kind, nlines, stress) -> concretized G case (download entries).
    fixed_old: ("keep", bytes or None) in a history: `local` is left as it is (its bytes given)"""
    entry = inp["entry"]
    sc = {"entry": entry, "in": dict(inp), "stress": stress}
    sc["fn"] = ENTRY_FNS[entry][variant % 2]
    sc["kw"] = (variant // 2) % 2 == 1
    sc["local_form"] = LOCAL_FORMS[(variant // 3) % 3]
    sc["url_form"] = V.URL_FORMS[(variant // 5) % 3]
    sc["encoding"] = None
    sc["enc_kw"] = False
    enc = None
    if entry == "replace_file":
        enc = rng.choice(ENCODINGS) if stress or variant % 3 else None
        if inp["newc"] == "empty" and enc in BOM_ENCODINGS:
            enc = "utf-16-le"
        sc["encoding"] = enc
        sc["enc_kw"] = rng.random() < 0.5
    # ---- what is there
    old0 = inp["old0"]
    old_items = rand_items(rng, rng.randint(1, 6), enc, 0)
    if fixed_old is not None:
        old = fixed_old[1]
    elif old0 == "old":
        old = encode(old_items, enc)
    elif old0 == "empty":
        old = b""
    else:
        old = None
    sc["olddir"] = old0 == "dir"
    sc["keep_local"] = fixed_old is not None
    sc["oldmode"] = rng.choice([0o644, 0o600, 0o640, 0o444, 0o755])
    sc["stale"] = (b"left over by an earlier run\n" * rng.randint(1, 3)) if inp["stale"] else None
    k = rng.randint(1, len(BYSTANDERS))
    sc["bystanders"] = rng.sample(BYSTANDERS, k)
    sc["umask"] = rng.choice([0o022, 0o022, 0o077, 0o002])
    # ---- what is written
    newc = inp["newc"]
    sc["lines"], sc["container"], sc["srcfail"] = None, "list", None
    sc["gz"], sc["explines"], sc["remote_kind"] = None, None, None
    if entry == "replace_file":
        n = concrete_n(rng, inp["nw"], stress)
        if newc == "empty":
            items = [""] * n
        elif newc == "old" and fixed_old is None:
            # the same bytes, cut into n items at random places
            text = "".join(old_items)
            cuts = sorted(rng.sample(range(1, len(text)), min(n - 1, len(text) - 1))) if n > 1 else []
            items = [text[a:b] for a, b in zip([0] + cuts, cuts + [len(text)])]
            while len(items) < n:
                items.append("")
        elif newc == "old":
            raise ValueError("newc = old needs a decodable old content")
        else:
            items = rand_items(rng, n, enc, stress)
            if all(x == "" for x in items):
                items[0] = "x\n"
            if old is not None and encode(items, enc) == old:
                items[0] = "changed " + items[0]
        sc["container"] = rng.choice(CONTAINERS)
        new = encode(items, enc)
        if inp["srcfail"]:
            p_abs = inp["srcfail"]
            if p_abs == inp["nw"] + 1:
                pos, kind, bad = len(items) + 1, "raise", None
            else:
                pos = 1 if p_abs == 1 else rng.randint(2, len(items))
                kind, bad = ("raise", None) if rng.random() < 0.4 else bad_item(rng, enc)
                if kind != "raise":
                    items = items[:pos - 1] + [bad] + items[pos:]
            sc["srcfail"] = {"at": pos, "kind": kind}
            if kind == "raise":
                sc["container"] = "gen"
        sc["lines"] = items
        sc["old"], sc["new"] = old, new
    else:
        sc["old"] = old
        kind = {"ok": "lines", "bad": "raise", "missing": "missing"}[inp["remote"]] if inp["remote"] in ("ok", "bad", "missing") else inp["remote"]
        sc["remote_kind"] = kind
        if kind == "missing":
            sc["new"] = None
        else:
            want_n = None if kind != "lines" else inp["nw"]
            g = gpick(kind, want_n, stress if newc != "old" else 0, newc)
            sc["gz"], sc["explines"], sc["gcase"] = g["gz"], g["lines"], g["case"]
            sc["new"] = g["content"] if kind == "lines" else None
            if newc == "old" and kind == "lines" and fixed_old is None and entry == "download_file":
                sc["old"] = g["content"]
            elif kind == "lines" and old0 == "old" and sc["old"] == g["content"] and newc != "old" and fixed_old is None:
                sc["old"] = sc["old"] + b"older\n"
    # ---- the fault
    f = inp["fault"]
    inj = {"how": "none"}
    if f["k"] in ("open", "rename"):
        inj = {"how": "hook", "what": f["k"]}
    elif f["k"] == "mktemp":
        inj = {"how": "hook", "what": "mktemp"} if rng.random() < 0.6 else {"how": "natural", "what": "tmpdir-missing"}
    elif f["k"] == "fetchwrite":
        n = len(sc["gz"] or b"")
        if n and rng.random() < 0.7:
            inj = {"how": "rlimit", "limit": rng.choice([0, 1, n // 2, n - 1])}
        else:
            inj = {"how": "hook", "what": "fetchopen"}
    elif f["k"] in ("write", "close"):
        new = sc["new"] or b""
        lo_total = len(sc["gz"]) if entry == "download_file" else 0
        if entry == "replace_file":
            sizes = [len(("" if not isinstance(x, str) else x).encode(enc or "UTF-8", "replace")) for x in sc["lines"]]
        else:
            sizes = [len(x.encode("utf-8")) for x in (sc["explines"] or [])]
        lim = None
        if f["k"] == "write" and sizes:
            i = 1 if f["i"] == 1 else rng.randint(2, len(sizes))
            before, upto = sum(sizes[:i - 1]), sum(sizes[:i])
            if enc in BOM_ENCODINGS:
                before, upto = before + 2, upto + 2
            if upto > before and before >= lo_total and len(new) > before:
                lim = rng.randint(max(before, lo_total), min(upto, len(new)) - 1)
            elif len(new) > lo_total:
                lim = rng.randint(lo_total, len(new) - 1)       # compressed download bigger than the prefix: any later byte
            sc["fault_item"] = i
        elif f["k"] == "close" and len(new) > lo_total:
            lim = rng.randint(max(lo_total, len(new) - 4096), len(new) - 1)
        if lim is not None and not (inject_pref == "wrap" and rng.random() < 0.5):
            inj = {"how": "rlimit", "limit": lim}
        elif not new and f["k"] == "write":
            inj = {"how": "unrealisable"}       # nothing is written: no byte can fail
        else:
            at = 1
            if f["k"] == "write":
                at = 1 if f["i"] == 1 else rng.randint(2, max(2, len(sizes)))
            inj = {"how": "wrap", "what": f["k"], "at": at}
    sc["inject"] = inj
    return sc


# ---------------------------------------------------------------------- execution

def wipe(d):
    if os.path.isdir(d):
        for e in os.scandir(d):
            if e.is_dir(follow_symlinks=False):
                shutil.rmtree(e.path)
            else:
                os.unlink(e.path)
    else:
        os.makedirs(d)


def materialize(base, sc):
    ldir, tmpd, repo = os.path.join(base, "local dir"), os.path.join(base, "tmp"), os.path.join(base, "repo sp+\u00e9~")
    for d in (tmpd, repo) + (() if sc.get("keep_local") else (ldir,)):
        wipe(d)
    if not os.path.isdir(ldir):
        os.makedirs(ldir)
    local = os.path.join(ldir, NAME)
    if not sc.get("keep_local"):
        if sc["olddir"]:
            os.mkdir(local)
            with open(os.path.join(local, "child"), "wb") as f:
                f.write(b"a file inside\n")
        elif sc["old"] is not None:
            with open(local, "wb") as f:
                f.write(sc["old"])
            os.chmod(local, sc["oldmode"])
        for name, data in sc["bystanders"]:
            p = os.path.join(ldir, name)
            if data is None:
                os.mkdir(p)
            else:
                with open(p, "wb") as f:
                    f.write(data)
    new = local + ".new"
    if sc["stale"] is not None:
        with open(new, "wb") as f:
            f.write(sc["stale"])
    elif os.path.lexists(new) and not sc.get("keep_local"):
        os.unlink(new)
    remote = os.path.join(repo, NAME)
    if sc["gz"] is not None:
        with open(remote + ".gz", "wb") as f:
            f.write(sc["gz"])
    return ldir, tmpd, local, remote


def lines_arg(sc):
    items = list(sc["lines"])
    sf = sc["srcfail"]
    if sf and sf["kind"] == "raise":
        at = sf["at"]

        def gen():
            for j, x in enumerate(items, 1):
                if j == at:
                    raise SourceError("the iterable of lines failed at item %d" % j)
                yield x
            if at == len(items) + 1:
                raise SourceError("the iterable of lines failed at its end")
        return gen()
    return V.contain(sc["container"], items)


def do_call(sc, local, remote):
    """the call under test through the scenario's entry point / spelling; every exception is an observation"""
    fn = V.api(sc["fn"])
    entry = sc["entry"]
    cwd = os.getcwd()
    try:
        form = sc["local_form"]
        if form != "abs" and entry != "download_gunzip_lines":
            os.chdir(os.path.dirname(os.path.dirname(local)))
            local = os.path.join(os.path.basename(os.path.dirname(local)), os.path.basename(local))
            if form == "reldot":
                local = "./" + local
        url = V.file_url(remote, sc["url_form"])
        with warnings.catch_warnings():
            warnings.simplefilter("ignore")
            if entry == "replace_file":
                arg = lines_arg(sc)
                enc = sc["encoding"]
                if sc["kw"]:
                    ret = fn(lines=arg, local=local) if enc is None else fn(lines=arg, local=local, encoding=enc)
                elif enc is None:
                    ret = fn(arg, local)
                else:
                    ret = fn(arg, local, encoding=enc) if sc["enc_kw"] else fn(arg, local, enc)
            elif entry == "download_file":
                ret = fn(remote=url, local=local) if sc["kw"] else fn(url, local)
            else:
                ret = fn(remote=url + ".gz") if sc["kw"] else fn(url + ".gz")
        return {"outcome": "returned", "exc": "none", "msg": "", "ret": ret if isinstance(ret, list) else (None if ret is None else repr(ret)[:200])}
    except KeyboardInterrupt:
        raise
    except BaseException as e:          # noqa: B036 -- an observation, whatever it is
        return {"outcome": "raised", "exc": type(e).__name__, "msg": str(e)[:200], "ret": None}
    finally:
        os.chdir(cwd)


def _run_recorded(sc, ldir, tmpd, local, remote, cls):
    install()
    known = [n for n, _ in sc["bystanders"]] if not sc.get("keep_local") else sc["known"]
    rec = Recorder(ldir, tmpd, NAME, known, cls, sc["inject"])
    box = None
    ds = V.ds()
    inj = sc["inject"]
    old_tmp, old_umask = tempfile.tempdir, os.umask(sc["umask"])
    tempfile.tempdir = tmpd if inj.get("what") != "tmpdir-missing" else os.path.join(tmpd, "missing")
    if inj["how"] == "wrap":
        box = {"what": inj["what"], "at": inj.get("at", 1), "nwrites": 0, "fired": False}
        real_open = open

        def w_open(file, mode="r", *a, **kw):
            f = real_open(file, mode, *a, **kw)
            if any(c in mode for c in "wax+") and rec.where(file) == "ldir":
                return WriteProxy(f, box)
            return f
        ds.open = w_open
    rec.snap()
    _STATE["rec"] = rec
    try:
        res = do_call(sc, local, remote)
    finally:
        _STATE["rec"] = None
        tempfile.tempdir = old_tmp
        os.umask(old_umask)
        if box is not None:
            try:
                del ds.open
            except AttributeError:
                pass
    rec.snap()
    res["obs"] = rec.obs
    res["fired"] = rec.fired or bool(box and box["fired"]) or inj["how"] in ("rlimit", "natural")
    res["events"] = rec.events
    return res


def _run_rlimited(sc, ldir, tmpd, local, remote, cls):
    """implementation-agnostic write fault: the call runs in a forked child whose RLIMIT_FSIZE is `limit` bytes with
    SIGXFSZ ignored; the child reports through a pipe"""
    import resource
    import signal
    r, w = os.pipe()
    pid = os.fork()
    if pid == 0:
        code = 0
        try:
            os.close(r)
            soft, hard = resource.getrlimit(resource.RLIMIT_FSIZE)
            signal.signal(signal.SIGXFSZ, signal.SIG_IGN)
            resource.setrlimit(resource.RLIMIT_FSIZE, (sc["inject"]["limit"], hard))
            try:
                res = _run_recorded(sc, ldir, tmpd, local, remote, cls)
            finally:
                resource.setrlimit(resource.RLIMIT_FSIZE, (soft, hard))
            data = pickle.dumps(res)
            while data:
                n = os.write(w, data)
                data = data[n:]
        except BaseException:           # noqa: B036
            code = 3
        finally:
            os._exit(code)
    os.close(w)
    chunks = []
    while True:
        b = os.read(r, 1 << 16)
        if not b:
            break
        chunks.append(b)
    os.close(r)
    _, status = os.waitpid(pid, 0)
    if status != 0 or not chunks:
        raise RuntimeError("rlimit child failed (status %r)" % status)
    return pickle.loads(b"".join(chunks))


def dir_state(ldir, skip=()):
    out = {}
    for e in sorted(os.listdir(ldir)):
        if e in skip:
            continue
        p = os.path.join(ldir, e)
        st = os.lstat(p)
        if stat.S_ISDIR(st.st_mode):
            out[e] = ("dir", st.st_ino, tuple(sorted(os.listdir(p))))
        else:
            with open(p, "rb") as f:
                out[e] = ("file", st.st_ino, f.read())
    return out


def execute(base, sc):
    """materialize, call, observe -> observation dict (plain values)"""
    ldir, tmpd, local, remote = materialize(base, sc)
    cls = Classifier(sc["old"], sc["new"])
    before = dir_state(ldir, skip=(NAME, NAME + ".new"))
    st0 = None
    held = None
    if not sc["olddir"] and os.path.exists(local):
        st0 = os.stat(local)
        held = open(local, "rb")
    try:
        if sc["inject"]["how"] == "rlimit":
            res = _run_rlimited(sc, ldir, tmpd, local, remote, cls)
        else:
            res = _run_recorded(sc, ldir, tmpd, local, remote, cls)
    finally:
        heldb = None
        if held is not None:
            heldb = held.read()
            held.close()
    obs = dict(res)
    obs["loc"] = cls.of_path(local)
    obs["held"] = ("dir" if sc["olddir"] else "absent") if heldb is None else cls.of_bytes(heldb)
    after = dir_state(ldir, skip=(NAME, NAME + ".new"))
    obs["bystanders_same"] = after == before
    obs["extra_entries"] = sorted(set(after) - set(before))
    obs["missing_entries"] = sorted(set(before) - set(after))
    obs["dotnew"] = os.path.lexists(local + ".new")
    if obs["dotnew"]:
        with open(local + ".new", "rb") as f:
            obs["dotnew_stale"] = sc["stale"] is not None and f.read() == sc["stale"]
    obs["tmp_left"] = sorted(os.listdir(tmpd))
    ino = "orig"
    untouched = True
    if st0 is not None:
        try:
            st1 = os.stat(local)
            if st1.st_ino != st0.st_ino:
                ino = "fresh"
            untouched = (st1.st_ino, st1.st_mode, st1.st_mtime_ns, st1.st_size) == (st0.st_ino, st0.st_mode, st0.st_mtime_ns, st0.st_size)
            obs["mode_kept"] = stat.S_IMODE(st1.st_mode) == stat.S_IMODE(st0.st_mode)
        except OSError:
            ino, untouched = "fresh", False
    elif sc["olddir"]:
        untouched = os.path.isdir(local) and os.listdir(local) == ["child"]
    elif os.path.lexists(local):
        ino, untouched = "fresh", False
    obs["ino"], obs["untouched"] = ino, untouched
    if os.path.isfile(local):
        obs["mode"] = oct(stat.S_IMODE(os.stat(local).st_mode))
        obs["size"] = os.path.getsize(local)
    return obs


def took_effect(sc, obs):
    """False when the injected fault evidently never happened: a hook / proxy that did not fire; a byte limit aimed at the
    download's temporary file while the call never had one (an implementation may stream the download); a missing
    temporary directory that nobody needed"""
    inj = sc["inject"]
    if inj["how"] in ("wrap", "hook"):
        return bool(obs["fired"])
    if inj["how"] == "natural":
        return obs["outcome"] == "raised"
    if inj["how"] == "rlimit" and sc["in"]["fault"]["k"] == "fetchwrite":
        return any(s["t"] == "present" for s in obs["obs"])
    return True


def abstract_in(sc, obs):
    """the input record the trace module gets.  fault.k = "anywrite": a byte limit was in force -- some write / flush /
    close of the call failed, or none did (TLC finds out which); "maybe": the fault fault.c was aimed at an operation
    the implementation may not perform (it happened or it did not); a hook / proxy that did not fire is no fault;
    damage of unspecified consequence is remote = "any" """
    i = dict(sc["in"])
    how = sc["inject"]["how"]
    if how == "rlimit":
        i["fault"] = {"k": "anywrite", "i": 0}
    elif how == "natural":
        i["fault"] = {"k": "maybe", "i": 0, "c": dict(sc["in"]["fault"])}
    elif how in ("hook", "wrap") and not obs["fired"]:
        i["fault"] = {"k": "none", "i": 0}
    if sc.get("remote_kind") == "any":
        i["remote"] = "any"
    return i


def trace_of(sc, obs):
    return {"in": abstract_in(sc, obs), "obs": obs["obs"], "out": {"out": obs["outcome"], "ino": obs["ino"]}}


def describe(sc):
    inj = sc["inject"]
    how = {"none": "no fault", "unrealisable": "-", "hook": "audit hook fails %s" % inj.get("what"), "rlimit": "RLIMIT_FSIZE=%s" % inj.get("limit"),
           "wrap": "proxy fails %s #%s" % (inj.get("what"), inj.get("at")), "natural": inj.get("what")}[inj["how"]]
    if sc["entry"] == "replace_file":
        sf = sc["srcfail"]
        what = "%s(%s of %d items%s, local=%s%s)" % (sc["fn"], "generator" if sf and sf["kind"] == "raise" else sc["container"], len(sc["lines"]),
                                                    (", item %d is %s" % (sf["at"], {"raise": "where the iterable raises"}.get(sf["kind"], "a %s item" % sf["kind"]))) if sf else "",
                                                    sc["local_form"], "" if sc["encoding"] is None else ", encoding=%r" % sc["encoding"])
    else:
        what = "%s(file:// URL [%s], remote %s%s)" % (sc["fn"], sc["url_form"], sc["remote_kind"],
                                                      "" if sc["gz"] is None else ", %d bytes of gzip" % len(sc["gz"]))
    there = "a directory" if sc["olddir"] else ("absent" if sc["old"] is None else "%d bytes" % len(sc["old"]))
    return "%s; local is %s%s; %s" % (what, there, ", stale '.new' present" if sc["stale"] is not None else "", how)


def judge(case, sc, obs):
    """compare an observation with TLC's terminal state for the case -> (status, message)
    status: ok | violation | skipped | diag"""
    inj = sc["inject"]
    if not took_effect(sc, obs):
        if obs["outcome"] == "returned" and obs["loc"] == (case["in"]["newc"] if sc["entry"] != "download_gunzip_lines" else obs["loc"]):
            return "skipped", "injected fault (%s %s) never took effect: the code does not go through the operation that was to fail" % (inj["how"], inj.get("what", ""))
    msgs = []
    if obs["outcome"] != case["out"]:
        msgs.append("the call %s%s; specification: it must have %s" % (
            obs["outcome"], " %s: %s" % (obs["exc"], obs["msg"][:120]) if obs["outcome"] == "raised" else "", case["out"]))
    if obs["loc"] != case["loc"]:
        msgs.append("`local` is afterwards %s (%s); specification: %s" % (
            {"old": "the old content", "new": "the complete new content", "part": "a PART of the new content", "other": "something else",
             "absent": "absent", "empty": "empty", "dir": "a directory"}[obs["loc"]],
            "%s bytes" % obs.get("size", "no"), {"old": "the old content", "new": "the new content", "absent": "absent", "empty": "an empty file", "dir": "the directory"}[case["loc"]]))
    if obs["dotnew"] and not obs.get("dotnew_stale"):
        msgs.append("`local`.new exists afterwards (and is not the left-over of the earlier run); specification: no temporary file of the call survives")
    if obs["extra_entries"]:
        msgs.append("new entries next to `local` after the call: %r; specification: no temporary file survives" % obs["extra_entries"])
    if obs["tmp_left"]:
        msgs.append("left in the temporary directory: %r; specification: the download's temporary file is removed on every path" % obs["tmp_left"])
    if not obs["bystanders_same"]:
        msgs.append("other files next to `local` were changed / removed (%r)" % (obs["missing_entries"] or "content or inode differs"))
    if case["out"] == "raised" and obs["outcome"] == "raised" and not obs["untouched"]:
        msgs.append("the call raised but `local` is not the file it was (inode / mode / mtime / size changed); specification: a failed call leaves it untouched")
    if case["ino"] == "orig" and obs["ino"] != "orig" and case["out"] == "returned" and obs["outcome"] == "returned":
        msgs.append("`local` was replaced by another file; specification: this call publishes nothing")
    if obs["held"] != case["held"]:
        msgs.append("a reader that opened `local` before the call now reads %s; specification: %s (the old file is replaced, never rewritten)" % (obs["held"], case["held"]))
    if not msgs and obs["outcome"] == "returned" and sc["entry"] != "replace_file":
        if obs["ret"] != sc["explines"]:
            msgs.append("returned %s; specification: the lines of the decompressed file %s" % (V.short(obs["ret"], 120), V.short(sc["explines"], 120)))
    if msgs:
        return "violation", "%s: %s" % (describe(sc), "; ".join(msgs))
    if sc["entry"] == "replace_file" and obs["outcome"] == "returned" and obs["ret"] is not None:
        return "diag", "replace_file returned %s" % obs["ret"]
    return "ok", ""


# ---------------------------------------------------------------------- pool workers

def _gpicker(gcases, rng):
    """G cases grouped for the download scenarios: by expectation and number of lines"""
    groups = {}
    for c in gcases:
        if c["hascr"]:
            continue
        if c["expect"] == "lines":
            key = ("lines", min(len(c["lines"]), 2), len(c["content"]) == 0)
        else:
            key = (c["expect"], None, None)
        groups.setdefault(key, []).append(c)

    def pick(kind, nlines, stress, newc="new"):
        if kind == "lines":
            cands = groups.get(("lines", nlines, nlines == 0), [])
        else:
            cands = groups.get((kind, None, None), [])
        c = rng.choice(cands)
        g = V.g_concretize(rng, c, stress)
        g["case"] = c
        return g
    return pick


def replay_chunk(args):
    base, seed, tasks, gcases = args
    os.makedirs(base, exist_ok=True)
    out = []
    done = []
    for idx, case, variant, stress in tasks:
        before = list(done)
        done.append((idx, variant, stress))
        rng = random.Random("x18-replay-%s-%s-%s" % (seed, idx, variant))
        sc = build(rng, case["in"], _gpicker(gcases, rng), stress=stress, variant=variant + idx,
                   inject_pref="wrap" if variant == 1 else None)
        if sc["inject"]["how"] == "unrealisable":
            out.append({"idx": idx, "variant": variant, "status": "unrealisable", "msg": "", "before": list(done)})
            continue
        try:
            obs = execute(os.path.join(base, "w%d" % os.getpid()), sc)
        except RuntimeError as e:
            out.append({"idx": idx, "variant": variant, "status": "error", "msg": str(e), "sc": sc})
            continue
        status, msg = judge(case, sc, obs)
        out.append({"idx": idx, "variant": variant, "status": status, "msg": msg, "sc": None, "before": before,
                    "trace": trace_of(sc, obs), "summary": describe(sc), "exc": obs["exc"],
                    "inject": sc["inject"]["how"], "fn": sc["fn"], "container": sc["container"], "encoding": sc["encoding"],
                    "local_form": sc["local_form"], "url_form": sc["url_form"], "kw": sc["kw"], "events": obs["events"],
                    "mode_kept": obs.get("mode_kept"), "outcome": obs["outcome"], "size": obs.get("size", 0), "nobs": len(obs["obs"])})
    shutil.rmtree(os.path.join(base, "w%d" % os.getpid()), ignore_errors=True)
    return out


def current_old0(local):
    if os.path.isdir(local):
        return "dir"
    if not os.path.exists(local):
        return "absent"
    return "empty" if os.path.getsize(local) == 0 else "old"


def history(base, seed, hidx, inputs, gcases, ncalls, stress_every=4):
    """one process, one directory, a sequence of calls: the file system is what the previous call (or the outside
    world between two calls) left.  -> list of (scenario summary, trace, obs extras)"""
    rng = random.Random("x18-hist-%s-%s" % (seed, hidx))
    hbase = os.path.join(base, "h%d-%d" % (os.getpid(), hidx))
    shutil.rmtree(hbase, ignore_errors=True)
    os.makedirs(hbase)
    pick = _gpicker(gcases, rng)
    ldir = os.path.join(hbase, "local dir")
    local = os.path.join(ldir, NAME)
    known = None
    out = []
    prev = {}
    for k in range(ncalls):
        cur = current_old0(local) if k > 0 else None
        same = [i for i in inputs if i["old0"] == cur and i["newc"] != "old"] if cur in ("old", "empty", "absent") else []
        keep = bool(same) and rng.random() < 0.6
        again = [i for i in inputs if i["entry"] in prev and i["newc"] == "new" and not i["srcfail"] and i["remote"] == "ok"
                 and i["old0"] in ("old", "absent", "empty")]
        repeat = bool(again) and rng.random() < 0.3
        if repeat:
            keep = False
        inp = dict(rng.choice(again if repeat else (same if keep else inputs)))
        stress = 0 if (k + hidx) % stress_every else rng.choice([1, 1, 2])
        # unspecified kinds of damage: the model may go either way
        anyremote = not repeat and inp["entry"] != "replace_file" and inp["remote"] == "ok" and inp["fault"]["k"] == "none" and rng.random() < 0.15
        fixed = None
        if keep:
            with_bytes = None
            if cur != "absent":
                with open(local, "rb") as f:
                    with_bytes = f.read()
            fixed = ("keep", with_bytes)
        elif k > 0:
            # the outside world steps in: the directory is set up afresh
            shutil.rmtree(ldir, ignore_errors=True)
        sc = build(rng, inp, pick, stress=stress, variant=rng.randrange(60), fixed_old=fixed)
        if sc["inject"]["how"] == "unrealisable":
            sc["inject"] = {"how": "none"}
            sc["in"]["fault"] = {"k": "none", "i": 0}
        p = prev.get(inp["entry"])
        if repeat and p["new"] != sc["old"]:
            # the SAME content is published again after the outside world changed `local`: nothing may be remembered
            for key in ("lines", "container", "encoding", "enc_kw", "new", "gz", "explines", "gcase", "remote_kind"):
                if key in p:
                    sc[key] = p[key]
            sc["in"]["nw"] = p["in"]["nw"]
            if sc["in"]["fault"]["k"] in ("write", "close"):
                sc["in"]["fault"] = {"k": "none", "i": 0}
                sc["inject"] = {"how": "none"}
            sc["repeat"] = True
        if anyremote:
            c = rng.choice([g for g in gcases if g["expect"] == "any" and not g["hascr"]])
            g = V.g_concretize(rng, c, 0)
            sc["gz"], sc["explines"], sc["remote_kind"], sc["new"] = g["gz"], None, "any", g["content"]
            sc["in"]["nw"] = min(len(c["lines"]), 2)
            sc["in"]["newc"] = "empty" if not g["content"] else "new"
            if sc["old"] is not None and sc["old"] == g["content"]:
                sc["in"]["newc"] = "old" if sc["old"] else "empty"
        elif inp["newc"] == "new" and not inp["srcfail"] and inp["remote"] == "ok":
            prev[inp["entry"]] = sc
        if fixed is not None:
            sc["known"] = known
            if sc["stale"] is None and os.path.lexists(local + ".new"):
                os.unlink(local + ".new")
        else:
            known = [n for n, _ in sc["bystanders"]]
        try:
            obs = execute(hbase, sc)
        except RuntimeError as e:
            out.append({"call": k, "status": "error", "msg": str(e)})
            break
        skipped = not took_effect(sc, obs)
        bad_ret = None
        if sc["entry"] != "replace_file" and obs["outcome"] == "returned" and sc["remote_kind"] == "lines" and obs["ret"] != sc["explines"]:
            bad_ret = "%s returned %s; specification: the lines of the decompressed file %s" % (describe(sc), V.short(obs["ret"], 120), V.short(sc["explines"], 120))
        if isinstance(obs["ret"], list):        # the returned list belongs to the caller: whatever happens to it must not come back
            obs["ret"].append("appended by the caller\n")
            del obs["ret"][:1]
        out.append({"call": k, "status": "ok", "skipped": skipped, "summary": describe(sc), "trace": trace_of(sc, obs),
                    "outcome": obs["outcome"], "exc": obs["exc"], "loc": obs["loc"], "tmp_left": obs["tmp_left"], "extra": obs["extra_entries"],
                    "entry": sc["entry"], "inject": sc["inject"]["how"], "size": obs.get("size", 0),
                    "bystanders_same": obs["bystanders_same"], "kept": fixed is not None, "repeat": bool(sc.get("repeat")), "bad_ret": bad_ret})
    shutil.rmtree(hbase, ignore_errors=True)
    return out


def history_chunk(args):
    base, seed, hidxs, inputs, gcases, ncalls = args
    os.makedirs(base, exist_ok=True)
    return [(h, history(base, seed, h, inputs, gcases, ncalls)) for h in hidxs]
