"""X15 helpers: real objects of debian._util for the states / calls of spec/UtilCont.tla.

World        live LinkedListNode / LinkedList / OrderedSet / generator objects; build(state) constructs the objects of
             a model state through the public API, apply(call) performs one model call through one of its public
             variants (notes/API_SURFACE.md) and returns the result in the vocabulary of the specification,
             observe() projects everything observable (walks in both directions, len, bool, head / tail, the links
             of every node, values, set iteration) -- no expectation is computed here: all expected results come
             from TLC (EDGE / STATE lines, trace validation).
Conc         concretization of the value symbols ("A", "B") and of the items [n, s, k] of a closed configuration:
             tame / odd-character / size-stressed payloads (notes/SIZE_STRESS.md).
Recorder     random histories on real objects, recorded event by event for spec/TraceUtilCont.tla.
"""
import copy
import io
import pickle
import random

import core

BOUNDARY = [1, 2, 7, 8, 9, 15, 16, 17, 31, 32, 33, 63, 64, 65, 71, 72, 73, 79, 80, 81, 127, 128, 129, 255, 256, 257,
            1023, 1024, 1025, 4095, 4096, 4097, 8191, 8192, 8193]
COUNTS = [0, 1, 2, 3, 9, 10, 11, 16, 17, 31, 32, 33, 99, 100, 101, 255, 256, 257]

COPY_SAFE = ["copy", "deepcopy", "pickle2", "pickle3", "pickle4", "pickle5", "pickledefault", "state", "reduce"]
COPY_LOW = ["pickle0", "pickle1"]


class Boom(Exception):
    """raised by the harness' own iterables in the middle of extend()"""


class FlakyKey(object):
    """a caller-supplied key whose __hash__ raises the caller's exception at its fail_at-th call (SIZE_STRESS part 5)"""

    def __init__(self, tag, fail_at):
        self.tag, self.fail_at, self.calls = tag, fail_at, 0

    def __hash__(self):
        self.calls += 1
        if self.calls >= self.fail_at:
            raise Boom("hash failed")
        return hash(("x15-flaky", self.tag))

    def __eq__(self, other):
        return isinstance(other, FlakyKey) and (self.tag, self.fail_at) == (other.tag, other.fail_at)

    def __ne__(self, other):
        return not self == other

    def __repr__(self):
        return "FlakyKey(%r, fail_at=%d)" % (self.tag, self.fail_at)


class Endless(Exception):
    """a call into the code under test did not return in time (a cyclic structure on a broken tree)"""


def _fire(signum, frame):
    # the timer runs on the wall clock, the limit is CPU time of the main thread: a thread that is merely starved
    # (a loaded machine, other threads holding the GIL) is never interrupted, an endless loop is
    if _thread_time() - _T0[0] > _T0[1]:
        raise Endless("no result after %.0f s of CPU time" % _T0[1])
    _setitimer(_ITIMER_REAL, 1.0)


_ARMED = [None]
_T0 = [0.0, 3.0]


class deadline(object):
    """with deadline(cpu_seconds): ... -- raises Endless inside the block once the main thread has burnt that much CPU
    time in it (main thread only; elsewhere no limit); the handler is installed once, a block costs two setitimer calls;
    blocks may nest (the outer limit is dropped)"""

    def __init__(self, seconds=3.0):
        self.seconds = seconds

    def __enter__(self):
        if _ARMED[0] is None:
            import signal
            import threading
            _ARMED[0] = threading.current_thread() is threading.main_thread()
            if _ARMED[0]:
                signal.signal(signal.SIGALRM, _fire)
        if _ARMED[0]:
            _T0[0], _T0[1] = _thread_time(), self.seconds
            _setitimer(_ITIMER_REAL, 1.0)
        return self

    def __exit__(self, *exc):
        if _ARMED[0]:
            _setitimer(_ITIMER_REAL, 0)
        return False


from time import thread_time as _thread_time      # noqa: E402
from signal import setitimer as _setitimer, ITIMER_REAL as _ITIMER_REAL      # noqa: E402


def from_repo(ex):
    """cheap core.raised_by_code_under_test: the innermost frame of the traceback lies in the repository under test"""
    tb = ex.__traceback__
    if tb is None:
        return False
    while tb.tb_next is not None:
        tb = tb.tb_next
    fn = tb.tb_frame.f_code.co_filename
    rp = _RP.get(fn)
    if rp is None:
        import os
        rp = _RP[fn] = os.path.realpath(fn)
    return rp.startswith(_REPO[0])


_REPO = [None]
_RP = {}


def _repo_root():
    import os
    _REPO[0] = os.path.realpath(os.environ.get("VERIF_REPO", "/repo")) + os.sep


_repo_root()


def bounded(it, bound):
    """list(it), but never more than bound + 1 elements (the last one is then the marker Ellipsis)"""
    out = []
    for x in it:
        if len(out) > bound:
            out.append(Ellipsis)
            break
        out.append(x)
    return out


def U():
    import debian._util as m
    return m


# ------------------------------------------------------------------ payloads

ODD_TEXT = ["café", "café", "ÅΩ", "ÅΩ", "ﬁ", "fi", "x﻿y", "﻿x", "a‍b", "a­b",
            "́lone", "a b", "a　b", "a​b", "\U0001f600", "\U0010ffff", "Ａ", "한", "한",
            "l\x0bm", "l\x0cm", "l\x1cm", "l\x85m", "l m", "l m", "l\rm", "l\nm", "\t", " ", "", "ß", "İ", "ı", "ſ"]


def tail_char(rng):
    return chr(0x400 + rng.randrange(64))


def stress_text(rng, stress):
    """stress: 0 tame, 1 odd characters, 2 sizes"""
    if stress == 1:
        return rng.choice(ODD_TEXT) + (tail_char(rng) if rng.random() < 0.5 else "")
    if stress == 2:
        n = rng.choice(BOUNDARY)
        return ("v%d-" % n + "y" * n)[:n] if n > 3 else "y" * n
    return rng.choice(["1", "2", "foo", "bar (>= 1.0)", "a: b", "x y", "Zz9", "#c", "value"])


def value_pool(rng, stress, want):
    """`want` pairwise different Python objects (different = different type or !=), never None"""
    out = []
    keys = set()

    def add(v):
        k = vkey(v)
        if k not in keys and len(out) < want:
            keys.add(k)
            out.append(v)
    # (no _CaseInsensitiveString among the values: protocols 0 / 1 cannot pickle it -- __slots__ without __getstate__ --
    # which is outside the domain; containers holding one are not copied with those protocols)
    kinds = ["str", "str", "str", "bytes", "int", "tuple", "float", "frozenset", "list", "dict", "bytearray", "bool"]
    guard = 0
    while len(out) < want:
        guard += 1
        kind = rng.choice(kinds)
        if kind == "str":
            add(stress_text(rng, stress if guard < 50 else 2))
        elif kind == "bytes":
            add(stress_text(rng, stress).encode("utf-8", "surrogatepass"))
        elif kind == "int":
            add(rng.choice([0, 9, 10, 99, 100, 2 ** 15, 2 ** 16, 2 ** 31 - 1, 2 ** 31, 2 ** 32 - 1, 2 ** 32, 2 ** 63 - 1, 2 ** 63, 10 ** 18, -1]) + (guard if guard > 50 else 0))
        elif kind == "tuple":
            add((stress_text(rng, 0), rng.randrange(3)))
        elif kind == "float":
            add(rng.choice([0.5, 1.5, -2.25, 1e300]))
        elif kind == "frozenset":
            add(frozenset([rng.randrange(4), "x"]))
        elif kind == "list":
            add([stress_text(rng, 0), rng.randrange(3)])
        elif kind == "dict":
            add({"k": rng.randrange(5)})
        elif kind == "bytearray":
            add(bytearray(stress_text(rng, 0).encode()))
        else:
            add(rng.choice([True, False]))
    return out


MUTABLE = (list, dict, bytearray)


def vkey(v):
    t = type(v)
    if t is FlakyKey:
        return ("FlakyKey", v.tag, v.fail_at)
    if t in (str, bytes, int, float, bool, tuple, frozenset):
        return (t.__name__, v)
    if t.__name__ == "_CaseInsensitiveString":
        return (t.__name__, str.__str__(v))
    return (t.__name__, repr(v))


def fresh(v, rng=None):
    """an equal object: the same one for immutables (sometimes an equal copy), always a new one for mutables"""
    if isinstance(v, MUTABLE):
        return copy.deepcopy(v)
    if rng is not None and type(v) is str and len(v) > 1 and rng.random() < 0.3:
        return v[:1] + v[1:]           # CPython builds a new str object
    return v


def poke(v, undo=False):
    """mutate a mutable value in place (and back)"""
    if isinstance(v, list):
        v.pop() if undo else v.append("x15-poke")
    elif isinstance(v, dict):
        v.pop("x15-poke", None) if undo else v.__setitem__("x15-poke", 1)
    elif isinstance(v, bytearray):
        v.pop() if undo else v.append(33)


WORDS = ["Architecture", "Build-Depends", "Depends", "Homepage", "Maintainer", "Package", "Source", "Uploaders", "Version",
         "Vcs-Git", "X-Foo-Bar", "Zz9", "Éclair-Field", "Αβγ-Field", "Поле", "\U00010400\U00010428-Deseret",
         "Ａｂ-Wide", "À-é"]
HAZARD_GROUPS = [["ſ", "s", "S"], ["ß", "ss", "SS", "ẞ", "Ss"], ["İ", "i̇", "i", "I", "ı"],
                 ["Σ", "σ", "ς"], ["ǅ", "ǆ", "Ǆ"], ["é", "é", "É", "É"],
                 ["Ａ", "ａ", "A", "a"], ["K", "k", "K"], ["ﬁ", "fi", "FI", "Fi"], ["﻿a", "a", "﻿A"]]


def word_ok(w):
    lo, up = w.lower(), w.upper()
    return len({w, lo, up}) == 3 and up.lower() == lo and lo.lower() == lo and lo.upper() == up


def stretch(rng, base):
    n = rng.choice([x for x in BOUNDARY if 16 <= x <= 1025])
    if n <= len(base) + 1:
        return base
    return base + "-" + "x" * (n - len(base) - 1)


class ConcBase(object):
    """value symbols -> objects (proto / keys) and items (n, s, k) -> objects (itab / irev)"""

    def val(self, sym, rng=None):
        return fresh(self.proto[sym], rng)

    def sym(self, v):
        if v is None:
            return "none"
        try:
            return self.keys.get(vkey(v), "?%s" % (repr(v)[:60],))
        except TypeError:
            return "?unhashable %s" % type(v).__name__

    def item(self, it):
        p = self.itab[(it["n"], it["s"], it["k"])]
        if it["k"] == "U":
            return FlakyKey(p.tag, p.fail_at) if type(p) is FlakyKey else copy.deepcopy(p)
        if it["k"] == "I":
            return U()._strI(str.__str__(p))
        return p

    def item_of(self, obj):
        t = type(obj)
        if t.__name__ == "_CaseInsensitiveString":
            k = "I"
        elif t is FlakyKey:
            k = "U"
        else:
            try:
                hash(obj)
                k = "P"
            except TypeError:
                k = "U"
        n, s = self.irev.get((k, vkey(obj)), (-1, "?%s" % (repr(obj)[:60],)))
        return {"n": n, "s": s, "k": k}

    def add_item(self, n, s, k, obj):
        self.itab[(n, s, k)] = obj
        self.irev[(k, vkey(obj))] = (n, s)


class Conc(ConcBase):
    """symbols of a closed configuration -> payloads.  values: "A" "B"; items: n (rank) x s (C L U) x k (I P U)"""

    def __init__(self, seed, stress, nnames=3):
        rng = self.rng = random.Random("conc-%s-%s" % (seed, stress))
        self.seed, self.stress = seed, stress
        a, b = value_pool(rng, stress, 2)
        self.proto = {"A": a, "B": b}
        self.keys = {vkey(v): s for s, v in self.proto.items()}
        words = sorted([w for w in WORDS if word_ok(w)], key=str.lower)
        chosen = sorted(rng.sample(words, nnames), key=str.lower)
        if stress == 2:
            chosen = [stretch(rng, w) for w in chosen]
        self.base = {i + 1: w for i, w in enumerate(chosen)}
        if sorted(self.base.values(), key=str.lower) != [self.base[i] for i in sorted(self.base)]:
            raise core.MachineryError("concretization: names are not in lower-case order")
        self.itab, self.irev = {}, {}
        for n, w in self.base.items():
            for s, t in (("C", w), ("L", w.lower()), ("U", w.upper())):
                self.add_item(n, s, "P", t)
                self.add_item(n, s, "I", U()._strI(t))
        self.add_item(1, "C", "U", rng.choice([[1, 2], {"a": 1}, {1, 2}, bytearray(b"ab")]))
        self.add_item(1, "B1", "U", FlakyKey(1, 1))
        self.add_item(1, "B2", "U", FlakyKey(1, 2))


# ------------------------------------------------------------------ variants of the public calls

def make_list(rng, vals, boom=False):
    """LinkedList(values) in one of its input forms"""
    LL = U().LinkedList
    if boom:
        return LL(boom_after(vals)) if rng.random() < 0.5 else LL(values=boom_after(vals))
    if not vals:
        f = rng.randrange(5)
        return [LL, lambda: LL(None), lambda: LL([]), lambda: LL(values=None), lambda: LL(iter(()))][f]()
    f = rng.randrange(7)
    if f == 0:
        return LL(list(vals))
    if f == 1:
        return LL(tuple(vals))
    if f == 2:
        return LL(v for v in vals)
    if f == 3:
        return LL(values=list(vals))
    if f == 4:
        return LL(iter(vals))
    if f == 5:
        return LL(LL(vals))            # another LinkedList as the iterable
    return LL(reversed(list(reversed(vals))))


def boom_after(vals):
    for v in vals:
        yield v
    raise Boom("iterable failed")


def extend_list(rng, lst, vals, boom):
    if boom:
        if rng.random() < 0.5:
            return lst.extend(boom_after(vals))
        return lst.extend(values=boom_after(vals))
    f = rng.randrange(6)
    if f == 0:
        return lst.extend(list(vals))
    if f == 1:
        return lst.extend(tuple(vals))
    if f == 2:
        return lst.extend(v for v in vals)
    if f == 3:
        return lst.extend(values=list(vals))
    if f == 4:
        return lst.extend(U().LinkedList(vals))
    return lst.extend(iter(vals))


def copy_via(rng, obj, how):
    """a copy of a LinkedList / OrderedSet / _CaseInsensitiveString through one concrete mechanism"""
    if how == "copy":
        return copy.copy(obj)
    if how == "deepcopy":
        return copy.deepcopy(obj)
    if how.startswith("pickle"):
        if how == "pickledefault":
            data = pickle.dumps(obj)
        else:
            p = int(how[6:])
            if rng.random() < 0.5:
                data = pickle.dumps(obj, p)
            else:
                buf = io.BytesIO()
                pickle.Pickler(buf, protocol=p).dump(obj)
                data = buf.getvalue()
        return pickle.loads(data)
    if how == "state":
        new = type(obj).__new__(type(obj))
        new.__setstate__(obj.__getstate__())
        return new
    if how == "reduce":
        r = obj.__reduce_ex__(4)
        new = r[0](*r[1])
        if len(r) > 2 and r[2] is not None:
            new.__setstate__(r[2])
        return new
    raise core.MachineryError("unknown copy mechanism %r" % how)


def concrete_how(rng, k):
    """model kind of copy -> a concrete mechanism"""
    if k in ("pickle0", "pickle1"):
        return rng.choice(COPY_LOW)
    if k == "copy":
        return rng.choice(COPY_SAFE)
    return k


ERRS = {IndexError: "IndexError", ValueError: "ValueError", KeyError: "KeyError", TypeError: "TypeError",
        AssertionError: "Refused", Boom: "Boom"}


def err_of(ex):
    return {"t": "err", "x": ERRS.get(type(ex), type(ex).__name__)}


OK = {"t": "ok", "x": 0}
STOP = {"t": "stop", "x": 0}


class World(object):
    """the real objects of one model state (lists, free nodes, iterators, ordered sets)"""

    def __init__(self, conc):
        self.conc = conc
        self.reset()

    def reset(self):
        self.nodes = {}        # model id -> node
        self.ids = {}          # id(node) -> model id
        self.lists = []
        self.its = []
        self.sets = []
        self.kept = []         # earlier objects kept alive (copies, states)

    # ---- identities
    def bind(self, x, node):
        self.nodes[x] = node
        self.ids[id(node)] = x

    def nid(self, node, fresh_id=None):
        if node is None:
            return 0
        x = self.ids.get(id(node))
        if x is not None and self.nodes.get(x) is node:
            return x
        if fresh_id is not None and fresh_id not in self.nodes:
            self.bind(fresh_id, node)
            return fresh_id
        return -1

    def adopt(self, lst, fresh_ids):
        """bind the unknown nodes of a list, in walking order, to the fresh ids of the call"""
        todo = list(fresh_ids)
        n, guard = lst.head_node, 0
        while n is not None and guard < 100000:
            guard += 1
            if self.nid(n) == -1 and todo:
                self.bind(todo.pop(0), n)
            n = n.next_node

    # ---- construction of a model state through the public API
    def build(self, st, rng):
        with deadline():
            self._build(st, rng)

    def _build(self, st, rng):
        self.reset()
        m = U()
        conc = self.conc
        for seq in st["lst"]:
            lst = make_list(rng, [])
            for x in seq:
                self.bind(x, lst.append(conc.val(st["val"][x - 1], rng)))
            self.lists.append(lst)
        for chain in st["ch"]:
            prev = None
            for x in chain:
                n = m.LinkedListNode(conc.val(st["val"][x - 1], rng))
                self.bind(x, n)
                if prev is not None:
                    if rng.random() < 0.5:
                        m.LinkedListNode.link_nodes(prev, n)
                    else:
                        prev.insert_after(n)
                prev = n
        for it in st["its"]:
            self.its.append(self._iterator_at(st, it) if it["on"] else None)
        for q in st["os"]:
            s = m.OrderedSet()
            for item in q:
                s.add(conc.item(item))
            self.sets.append(s)

    def _iterator_at(self, st, it):
        cur = self.nodes[it["cur"]]
        k = it["k"]
        if k == "fn":
            g = cur.iter_next()
            next(g)
            return g
        if k == "bn":
            g = cur.iter_previous()
            next(g)
            return g
        owner = next(i for i, seq in enumerate(st["lst"]) if it["cur"] in seq)
        seq = st["lst"][owner]
        pos = seq.index(it["cur"])
        if k == "fv":
            g = iter(self.lists[owner])
            steps = pos + 1
        else:
            g = reversed(self.lists[owner])
            steps = len(seq) - pos
        for _ in range(steps):
            next(g)
        return g

    # ---- observation
    def walk(self, start, attr, bound):
        out, n = [], start
        while n is not None:
            if len(out) > bound:
                out.append(-2)          # does not end: broken structure
                break
            out.append(self.nid(n))
            n = getattr(n, attr)
        return out

    def observe(self, nval):
        """-> (state, shape) in the form of the STATE lines"""
        with deadline():
            return self._observe(nval)

    def _observe(self, nval):
        bound = len(self.nodes) + 2
        lst, shapes, inlist = [], [], set()
        for l in self.lists:
            fwd = self.walk(l.head_node, "next_node", bound)
            bwd = self.walk(l.tail_node, "previous_node", bound)
            lst.append(fwd)
            inlist.update(fwd)
            shapes.append({"fwd": fwd, "bwd": bwd, "size": len(l), "head": self.nid(l.head_node), "tail": self.nid(l.tail_node),
                           "truth": 1 if l else 0})
        links = []
        for x in sorted(self.nodes):
            n = self.nodes[x]
            links.append([x, self.nid(n.previous_node), self.nid(n.next_node)])
        free = [x for x in sorted(self.nodes) if x not in inlist]
        ch, seen = [], set()
        for x in free:
            if self.nodes[x].previous_node is None:
                c = self.walk(self.nodes[x], "next_node", bound)
                ch.append(c)
                seen.update(c)
        for x in free:
            if x not in seen:
                ch.append([-3, x])         # reachable from no chain head: broken structure
        val = [self.conc.sym(self.nodes[x].value) if x in self.nodes else "-"
               for x in range(1, max([nval] + list(self.nodes)) + 1)]
        os_ = [[self.conc.item_of(o) for o in bounded(s, bound + 1000000)] for s in self.sets]
        state = {"lst": lst, "ch": sorted(ch), "val": val, "os": os_}
        shape = {"lists": shapes, "links": sorted(links)}
        return state, shape

    def observe_sets(self):
        with deadline():
            return [{"fwd": [self.conc.item_of(o) for o in s], "rev": [self.conc.item_of(o) for o in reversed(s)], "len": len(s)}
                    for s in self.sets]

    # ---- one model call through one of its public variants
    def apply(self, c, rng):
        try:
            with deadline():
                return self._apply(c, rng)
        except Endless as ex:
            return {"t": "?", "x": "the call does not return: %s" % ex}
        except Exception as ex:      # noqa: BLE001 -- what the code raises is an observation
            if isinstance(ex, Boom) or from_repo(ex) or \
                    (isinstance(ex, TypeError) and "argument" in str(ex)):      # a keyword / arity the code does not accept
                return err_of(ex)
            raise

    def _node_res(self, node, c):
        f = c["f"][0] if c["f"] else None
        return {"t": "node", "x": self.nid(node, f)}

    def _val(self, v):
        return {"t": "val", "x": self.conc.sym(v)}

    def _apply(self, c, rng):
        m = U()
        op = c["op"]
        conc = self.conc
        N = self.nodes
        r = rng.random()
        if op == "node":
            v = conc.val(c["v"], rng)
            return self._node_res(m.LinkedListNode(v) if r < 0.5 else m.LinkedListNode(value=v), c)
        if op == "drop":
            n = N.pop(c["x"])
            self.ids.pop(id(n), None)
            return OK
        if op == "nvalue":
            return self._val(N[c["x"]].value if r < 0.5 else getattr(N[c["x"]], "value"))
        if op == "nsetvalue":
            N[c["x"]].value = conc.val(c["v"], rng)
            return OK
        if op == "nprev":
            return {"t": "node", "x": self.nid(N[c["x"]].previous_node)}
        if op == "nnext":
            return {"t": "node", "x": self.nid(N[c["x"]].next_node)}
        if op == "nwalk":
            n = N[c["x"]]
            k = c["k"]
            if k == "n":
                g = n.iter_next() if r < 0.5 else n.iter_next(skip_current=False)
            elif k == "ns":
                g = n.iter_next(skip_current=True)
            elif k == "p":
                g = n.iter_previous() if r < 0.5 else n.iter_previous(skip_current=False)
            else:
                g = n.iter_previous(skip_current=True)
            return {"t": "nodes", "x": [self.nid(y) for y in g]}
        if op == "nremove":
            return self._val(N[c["x"]].remove())
        if op == "nlink":
            p, q = N.get(c["x"]), N.get(c["y"])
            if r < 0.4:
                m.LinkedListNode.link_nodes(p, q)
            elif r < 0.7:
                m.LinkedListNode.link_nodes(previous_node=p, next_node=q)
            else:
                (p or q or m.LinkedListNode(0)).link_nodes(p, q)        # a staticmethod reached through an instance
            return OK
        if op == "ninsbefore":
            N[c["x"]].insert_before(N[c["y"]]) if r < 0.6 else N[c["x"]].insert_before(new_node=N[c["y"]])
            return OK
        if op == "ninsafter":
            N[c["x"]].insert_after(N[c["y"]]) if r < 0.6 else N[c["x"]].insert_after(new_node=N[c["y"]])
            return OK
        if op in ("onew", "oadd", "oappend", "oremove", "oextend", "ohas", "olen", "oiter", "orev", "ofirst", "olast",
                  "obefore", "oafter", "ogetstate", "osetstate", "ocopy"):
            return self._apply_set(c, rng)
        if op in ("seq", "sne", "shash", "slower", "skey", "sstr", "spickle", "dget", "dkeep", "sorted"):
            return apply_str(conc, c, rng)
        if op == "itopen":
            return self._itopen(c, rng)
        if op == "itnext":
            g = self.its[c["i"] - 1]
            try:
                y = next(g) if r < 0.7 else g.__next__()
            except StopIteration:
                self.its[c["i"] - 1] = None
                return STOP
            return self._yield(c["i"], y)
        # ---- list level
        l = c["l"] - 1
        if op == "lnew":
            lst = make_list(rng, [conc.val(v, rng) for v in c["vs"]], c["k"] == "boom")
            if l < len(self.lists):
                self.kept.append(self.lists[l])
                self.lists[l] = lst
            else:
                self.lists.append(lst)
            self.adopt(lst, c["f"])
            return OK
        lst = self.lists[l]
        if op == "lbool":
            return {"t": "bool", "x": 1 if (bool(lst) if r < 0.4 else lst.__bool__() if r < 0.7 else (not not lst)) else 0}
        if op == "llen":
            return {"t": "int", "x": len(lst) if r < 0.6 else lst.__len__()}
        if op == "lhead":
            return {"t": "node", "x": self.nid(lst.head_node)}
        if op == "ltailnode":
            return {"t": "node", "x": self.nid(lst.tail_node)}
        if op == "ltail":
            return self._val(lst.tail)
        if op == "lnodes":
            return {"t": "nodes", "x": [self.nid(y) for y in (lst.iter_nodes() if r < 0.7 else list(lst.iter_nodes()))]}
        if op == "lvalues":
            vs = list(lst) if r < 0.3 else [v for v in lst] if r < 0.5 else list(iter(lst)) if r < 0.7 else list(lst.__iter__()) if r < 0.85 else list(tuple(lst))
            return {"t": "vals", "x": [conc.sym(v) for v in vs]}
        if op == "lrev":
            vs = list(reversed(lst)) if r < 0.6 else list(lst.__reversed__())
            return {"t": "vals", "x": [conc.sym(v) for v in vs]}
        if op == "lgetstate":
            state = lst.__getstate__()
            out = {"t": "vals", "x": [conc.sym(v) for v in state]}
            if isinstance(state, list):          # the caller owns the result: changing it must not reach the list
                state.append("x15-junk")
                state.reverse()
            self.kept.append(state)
            return out
        if op == "lpop":
            lst.pop()
            return OK
        if op == "lclear":
            lst.clear()
            return OK
        if op == "lremove":
            lst.remove_node(N[c["x"]]) if r < 0.6 else lst.remove_node(node=N[c["x"]])
            return OK
        if op == "lappend":
            v = conc.val(c["v"], rng)
            return self._node_res(lst.append(v) if r < 0.6 else lst.append(value=v), c)
        if op == "lathead":
            v = conc.val(c["v"], rng)
            return self._node_res(lst.insert_at_head(v) if r < 0.6 else lst.insert_at_head(value=v), c)
        if op in ("linsbefore", "linsafter"):
            v = conc.val(c["v"], rng)
            f = lst.insert_before if op == "linsbefore" else lst.insert_after
            return self._node_res(f(v, N[c["x"]]) if r < 0.6 else f(value=v, existing_node=N[c["x"]]), c)
        if op in ("linsnodebefore", "linsnodeafter"):
            f = lst.insert_node_before if op == "linsnodebefore" else lst.insert_node_after
            y = f(N[c["y"]], N[c["x"]]) if r < 0.6 else f(new_node=N[c["y"]], existing_node=N[c["x"]])
            return {"t": "node", "x": self.nid(y)}
        if op == "lextend":
            try:
                extend_list(rng, lst, [conc.val(v, rng) for v in c["vs"]], c["k"] == "boom")
            finally:
                self.adopt(lst, c["f"])
            return OK
        if op == "lsetstate":
            vals = [conc.val(v, rng) for v in c["vs"]]
            lst.__setstate__(vals if r < 0.7 else tuple(vals))
            self.adopt(lst, c["f"])
            return OK
        if op == "lcopy":
            return self._lcopy(c, rng, lst)
        raise core.MachineryError("unknown model call %r" % op)

    def _lcopy(self, c, rng, lst):
        how = c.get("how") or concrete_how(rng, c["k"])
        new = copy_via(rng, lst, how)
        if new is lst or type(new) is not type(lst):
            return {"t": "?", "x": "copy (%s) returned %s" % (how, "the list itself" if new is lst else type(new).__name__)}
        try:
            len(new), list(new), new.head_node, new.tail_node
        except AttributeError:
            return {"t": "broken", "x": 0}
        if how == "deepcopy" or how.startswith("pickle"):
            # independence of the values themselves (not for the shallow mechanisms)
            for a, b in zip(lst, new):
                if isinstance(a, MUTABLE) and a is b:
                    return {"t": "?", "x": "%s copy shares the mutable value %r with the original" % (how, a)}
        m = c["m"] - 1
        if m < len(self.lists):
            self.kept.append(self.lists[m])
            self.lists[m] = new
        else:
            self.lists.append(new)
        self.adopt(new, c["f"])
        return OK

    def _yield(self, i, y):
        if isinstance(y, U().LinkedListNode):
            return {"t": "node", "x": self.nid(y)}
        return self._val(y)

    def _itopen(self, c, rng):
        k = c["k"]
        r = rng.random()
        if k in ("ln", "lv", "lr"):
            lst = self.lists[c["l"] - 1]
            g = lst.iter_nodes() if k == "ln" else (iter(lst) if r < 0.6 else lst.__iter__()) if k == "lv" else \
                (reversed(lst) if r < 0.6 else lst.__reversed__())
        else:
            n = self.nodes[c["x"]]
            if k == "nn":
                g = n.iter_next() if r < 0.5 else n.iter_next(skip_current=False)
            elif k == "nns":
                g = n.iter_next(skip_current=True)
            elif k == "np":
                g = n.iter_previous() if r < 0.5 else n.iter_previous(skip_current=False)
            else:
                g = n.iter_previous(skip_current=True)
        i = c["i"]
        while len(self.its) < i:
            self.its.append(None)
        try:
            y = next(g)
        except StopIteration:
            self.its[i - 1] = None
            return STOP
        self.its[i - 1] = g
        return self._yield(i, y)

    def keep_only(self, live):
        """forget the nodes the specification does not speak about any more (dropped; held by a list when it was cleared)"""
        for x in [x for x in self.nodes if x not in live]:
            n = self.nodes.pop(x)
            self.ids.pop(id(n), None)

    def void_iterators(self, its):
        """the model says which iterators are void / exhausted after a call: never resume them"""
        for i, it in enumerate(its):
            if not it["on"] and i < len(self.its):
                self.its[i] = None

    # ---- ordered sets
    def _items(self, objs):
        return {"t": "items", "x": [self.conc.item_of(o) for o in objs]}

    def _apply_set(self, c, rng):
        m = U()
        conc = self.conc
        op = c["op"]
        r = rng.random()
        s_ = c["l"] - 1
        if op == "onew":
            objs = [conc.item(it) for it in c["as"]]
            if c["k"] == "boom":
                new = m.OrderedSet(boom_after(objs)) if r < 0.5 else m.OrderedSet(iterable=boom_after(objs))
            elif not objs and r < 0.5:
                new = m.OrderedSet() if r < 0.25 else m.OrderedSet(None)
            else:
                new = m.OrderedSet(objs) if r < 0.4 else m.OrderedSet(iterable=objs) if r < 0.6 else m.OrderedSet(tuple(objs)) if r < 0.8 else m.OrderedSet(o for o in objs)
            if s_ < len(self.sets):
                self.kept.append(self.sets[s_])
                self.sets[s_] = new
            else:
                self.sets.append(new)
            return OK
        st = self.sets[s_]
        if op == "oadd":
            st.add(conc.item(c["a"]))
            return OK
        if op == "oappend":
            st.append(conc.item(c["a"]))
            return OK
        if op == "oremove":
            st.remove(conc.item(c["a"]))
            return OK
        if op == "oextend":
            objs = [conc.item(it) for it in c["as"]]
            if c["k"] == "boom":
                st.extend(boom_after(objs)) if r < 0.5 else st.extend(iterable=boom_after(objs))
            else:
                st.extend(objs if r < 0.4 else tuple(objs) if r < 0.6 else (o for o in objs) if r < 0.8 else iter(objs))
            return OK
        if op == "ohas":
            o = conc.item(c["a"])
            return {"t": "bool", "x": 1 if ((o in st) if r < 0.6 else st.__contains__(o)) else 0}
        if op == "olen":
            return {"t": "int", "x": len(st) if r < 0.6 else st.__len__()}
        if op == "oiter":
            return self._items(list(st) if r < 0.4 else [o for o in st] if r < 0.7 else list(iter(st)))
        if op == "orev":
            return self._items(list(reversed(st)) if r < 0.6 else list(st.__reversed__()))
        if op == "ogetstate":
            state = st.__getstate__()
            out = self._items(state)
            if isinstance(state, list):
                state.append("x15-junk")
                state.reverse()
            return out
        if op == "ofirst":
            st.order_first(conc.item(c["a"]))
            return OK
        if op == "olast":
            st.order_last(conc.item(c["a"]))
            return OK
        if op in ("obefore", "oafter"):
            f = st.order_before if op == "obefore" else st.order_after
            a, b = conc.item(c["a"]), conc.item(c["b"])
            f(a, b) if r < 0.6 else f(item=a, reference_item=b)
            return OK
        if op == "osetstate":
            objs = [conc.item(it) for it in c["as"]]
            st.__setstate__(objs)
            return OK
        if op == "ocopy":
            how = c.get("how") or concrete_how(rng, c["k"])
            if how in COPY_LOW and any(type(o).__name__ == "_CaseInsensitiveString" for o in st):
                return None           # outside the domain (see value_pool): not performed
            new = copy_via(rng, st, how)
            if new is st or type(new) is not type(st):
                return {"t": "?", "x": "copy (%s) returned %s" % (how, "the set itself" if new is st else type(new).__name__)}
            try:
                out = self._items(list(new))
                len(new)
            except AttributeError:
                return {"t": "broken", "x": 0}
            # independence: scramble the copy; the caller compares the original with the model afterwards
            items = list(new)
            if items:
                new.order_first(items[-1])
                new.remove(items[0])
            new.add("x15-extra")
            self.kept.append(new)
            return out
        raise core.MachineryError("unknown set call %r" % op)


# ------------------------------------------------------------------ the string algebra

def apply_str(conc, c, rng):
    m = U()
    op = c["op"]
    r = rng.random()
    if op == "sorted":
        objs = [conc.item(it) for it in c["as"]]
        if r < 0.5:
            out = sorted(objs, key=m.default_field_sort_key)
        else:
            out = list(objs)
            out.sort(key=m.default_field_sort_key)
        if any(not any(o is p for p in objs) for o in out):
            return {"t": "?", "x": "sorted() returned other objects"}
        return {"t": "items", "x": [conc.item_of(o) for o in out]}
    a = conc.item(c["a"])
    if op in ("slower", "skey", "sstr"):
        v = a.lower() if op == "slower" else m.default_field_sort_key(a) if op == "skey" else (str(a) if r < 0.6 else "%s" % (a,) if r < 0.8 else a.__str__())
        if op == "slower" and type(a) is not str and a.lower() is not a.str_lower and a.lower() != a.str_lower:
            return {"t": "?", "x": "lower() and the cached str_lower differ"}
        return {"t": "item", "x": conc.item_of(v)}
    if op == "spickle":
        how = c.get("how") or c["k"]
        new = copy_via(rng, a, how)
        ok = (type(new) is type(a) and str.__str__(new) == str.__str__(a) and new.lower() == a.lower() and str(new) == str(a)
              and type(new.lower()) is str and hash(new) == hash(a) and new == a and not (new != a)
              and new.str_lower == a.str_lower and new.str_orig == a.str_orig)
        return {"t": "item", "x": conc.item_of(new) if ok else {"n": -1, "s": "?copy differs: %r" % (new,), "k": "I"}}
    b = conc.item(c["b"])
    if op == "seq":
        return {"t": "bool", "x": 1 if ((a == b) if r < 0.7 else (not (a != b))) else 0}
    if op == "sne":
        return {"t": "bool", "x": 1 if (a != b) else 0}
    if op == "shash":
        return {"t": "bool", "x": 1 if hash(a) == hash(b) else 0}
    if op == "dget":
        if r < 0.3:
            hit = {a: 1}.get(b) is not None
        elif r < 0.5:
            hit = b in {a: 1}
        elif r < 0.7:
            hit = b in {a}
        elif r < 0.85:
            hit = b in frozenset([a])
        else:
            hit = b in m.OrderedSet([a])
        return {"t": "bool", "x": 1 if hit else 0}
    if op == "dkeep":
        d = {a: 1}
        d[b] = 2
        return {"t": "items", "x": [conc.item_of(o) for o in d]}
    raise core.MachineryError("unknown string call %r" % op)


NOITEM = {"n": 0, "s": "", "k": ""}


def call(op, **kw):
    c = {"op": op, "l": 0, "m": 0, "x": 0, "y": 0, "v": "", "vs": [], "f": [], "i": 0, "k": "", "a": NOITEM, "b": NOITEM, "as": []}
    c.update(kw)
    return c
