"""C07 helpers: calling the real debian.debfile objects and turning what they do into observations
(return values or exception classes).  No verdict is decided here."""
import io
import os


def classify(e):
    from debian.debfile import DebError
    if isinstance(e, DebError):
        return "DebError"
    return "EXC:" + type(e).__name__


_counter = [0]


def open_deb(blob, how, work, path=None):
    """-> (DebFile or None, 'ok' | 'DebError' | 'EXC:<type>', path to delete or None);
    with how='filename' and a path the file at that path is REWRITTEN and opened again"""
    from debian.debfile import DebFile
    try:
        if how == "filename":
            if path is None:
                _counter[0] += 1
                path = os.path.join(work, "p%d-%d.deb" % (os.getpid(), _counter[0]))
            with open(path, "wb") as f:
                f.write(blob)
            return DebFile(filename=path), "ok", path
        return DebFile(fileobj=io.BytesIO(blob)), "ok", None
    except Exception as e:      # observation about the code under test
        return None, classify(e), path


def drop(path):
    if path:
        try:
            os.unlink(path)
        except OSError:
            pass


def obs_has(part, path):
    """-> (err, found): has_file and `in` must agree"""
    try:
        a = part.has_file(path)
    except Exception as e:
        return classify(e), None
    try:
        b = path in part
    except Exception as e:
        return "EXC:in-raises-" + type(e).__name__, None
    if bool(a) != bool(b):
        return "EXC:has_file-and-in-disagree", None
    return "", bool(a)


def obs_get(part, path, variant=0, disturb=None, rnd=None):
    """-> (err, data): data is None for an absent file (KeyError); err 'DebError' for DebError.
    variant 0: get_content; 1: get_file().read(); 2: part[path]; 3: get_file() read in small chunks
    with other queries (disturb()) in between; 4: two file objects on the same file read alternately"""
    try:
        if variant == 1:
            f = part.get_file(path)
            data = f.read()
            f.close()
        elif variant == 2:
            data = part[path]
        elif variant == 3:
            f = part.get_file(path)
            out = []
            while True:
                # small chunks first; a big file is finished in chunks around the 8 KiB buffer size and larger
                k = (rnd.choice([1, 2, 3, 7, 64]) if rnd else 5) if len(out) < 12 else \
                    (rnd.choice([4096, 8191, 8192, 8193, 65536]) if rnd else 8192) * (1 if len(out) < 40 else 16)
                piece = f.read(k)
                if not piece:
                    break
                out.append(piece)
                if disturb is not None and len(out) < 60:
                    disturb()
            f.close()
            data = b"".join(out)
        elif variant == 4:
            f1 = part.get_file(path)
            f2 = part.get_file(path)
            data = f1.read(3)
            other = f2.read()
            if disturb is not None:
                disturb()
            data += f1.read()
            f1.close()
            f2.close()
            if other != data:
                return "EXC:two-file-objects-of-one-file-disagree", None
        else:
            data = part.get_content(path)
    except KeyError:
        return "", None
    except Exception as e:
        return classify(e), None
    if not isinstance(data, bytes):
        return "EXC:returned-" + type(data).__name__, None
    return "", data


def mutate_result(raw):
    """what a caller may do with a dictionary it was handed: drop a key, change a value, add a key"""
    try:
        keys = list(raw.keys())
        if keys:
            del raw[keys[0]]
        for k in keys[1:2]:
            v = raw[k]
            raw[k] = (v + v[:1] + b"#") if isinstance(v, bytes) else (str(v) + "#")
        raw["Junk"] = "mutated"
    except Exception:
        pass


def norm_md5(d):
    """md5sums() result with keys/values as text (the key type -- bytes without encoding -- is diagnostic)"""
    out = {}
    typed_ok = True
    for k, v in d.items():
        if isinstance(k, bytes):
            k = k.decode("utf-8", "surrogateescape")
        if isinstance(v, bytes):
            v = v.decode("ascii", "replace")
            typed_ok = False
        out[k] = v
    return out, typed_ok


def obs_md5(ctl, encoding=None, keep=None):
    try:
        d = ctl.md5sums(encoding=encoding) if encoding else ctl.md5sums()
    except Exception as e:
        return classify(e), None
    if not isinstance(d, dict):
        return "EXC:returned-" + type(d).__name__, None
    m, typed = norm_md5(d)
    if encoding and not all(isinstance(k, str) for k in d):
        typed = False
    if not encoding and not all(isinstance(k, bytes) for k in d):
        typed = False
    if keep is not None:
        keep[:] = [d]
    return "", (m, typed)


def obs_scripts(ctl, keep=None):
    try:
        d = ctl.scripts()
    except Exception as e:
        return classify(e), None
    if not isinstance(d, dict):
        return "EXC:returned-" + type(d).__name__, None
    if keep is not None:
        keep[:] = [d]
    return "", dict(d)


def obs_ctl(ctl, keep=None):
    try:
        d = ctl.debcontrol()
        if keep is not None:
            keep[:] = [d]
        return "", dict((k, d[k]) for k in d)
    except Exception as e:
        return classify(e), None


