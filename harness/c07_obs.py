"""C07 helpers: calling the real debian.debfile objects and turning what they do into observations
(return values or exception classes).  No verdict is decided here."""
import io
import os


def classify(e):
    from debian.debfile import DebError
    if isinstance(e, DebError):
        return "DebError"
    return "EXC:" + type(e).__name__


_counter = [0]
_handles = {}

# ways of creating the object (notes/API_SURFACE.md).  SHARED: all ar members read through ONE file
# object; NAMED: every member opens the file by name
HOWS_SHARED = ["fileobj", "fileobj-pos", "realfile"]
HOWS_NAMED = ["filename", "filename-pos", "subclass"]
# further KINDS of file object (notes/SIZE_STRESS.md part 4), all shared: what they deliver is the same package
#   unbuffered    open(path, 'rb', buffering=0)  (io.FileIO)
#   shortread     io.BufferedReader over a seekable raw stream that returns 1..7 bytes per call
#   gzipfile / bz2file / lzmafile   the package stored compressed on disk and read through gzip.GzipFile /
#                 bz2.BZ2File / lzma.LZMAFile (seekable; fileno() names the COMPRESSED file)
#   spooled-mem / spooled-disk      tempfile.SpooledTemporaryFile below / beyond its max_size
HOWS_KINDS = ["unbuffered", "shortread", "gzipfile", "bz2file", "lzmafile", "spooled-mem", "spooled-disk"]
HOWS_COMPRESSED = ["gzipfile", "bz2file", "lzmafile"]
# file objects that can be told to FAIL (notes/SIZE_STRESS.md part 5), shared as well; unarmed they behave like
# BytesIO / a BufferedReader over a raw stream:
#   flaky       io.BytesIO subclass whose read / readinto / read1 / readline raises once when armed
#   flaky-raw   io.BufferedReader over a RawIOBase whose readinto raises once when armed
HOWS_FLAKY = ["flaky", "flaky-raw"]
HOW_COUNT = {}


class CallerFault(Exception):
    """a private exception class of the caller (not an OSError, not a ValueError)"""


FAULT_KINDS = ["OSError", "ValueError", "KeyError", "private"]
FAULT_AT = [1, 1, 1, 2, 2, 3, 4, 5, 8, 13, 30]      # the k-th read call after arming raises


def make_fault(kind):
    if kind == "OSError":
        return OSError(5, "Input/output error (injected by the caller's file object)")
    if kind == "ValueError":
        return ValueError("injected by the caller's file object")
    if kind == "KeyError":
        return KeyError("injected by the caller's file object")
    return CallerFault("injected by the caller's file object")


class Trigger:
    """armed: the k-th read call from now raises exc, once"""

    def __init__(self):
        self.left, self.exc, self.fired = 0, None, False

    def arm(self, k, exc):
        self.left, self.exc, self.fired = k, exc, False

    def disarm(self):
        self.left, self.exc = 0, None

    def tick(self):
        if self.exc is not None:
            self.left -= 1
            if self.left <= 0:
                e, self.exc, self.fired = self.exc, None, True
                raise e


class FlakyBytes(io.BytesIO):
    def __init__(self, data):
        super().__init__(data)
        self.trigger = Trigger()

    def read(self, *a):
        self.trigger.tick()
        return super().read(*a)

    def read1(self, *a):
        self.trigger.tick()
        return super().read1(*a)

    def readinto(self, b):
        self.trigger.tick()
        return super().readinto(b)

    def readline(self, *a):
        self.trigger.tick()
        return super().readline(*a)


class FlakyRaw(io.RawIOBase):
    """a seekable raw stream over bytes (full reads) whose readinto fails when armed"""

    def __init__(self, data):
        super().__init__()
        self._data, self._pos = data, 0
        self.trigger = Trigger()

    def readable(self):
        return True

    def seekable(self):
        return True

    def readinto(self, b):
        self.trigger.tick()
        n = min(len(b), max(0, len(self._data) - self._pos))
        b[:n] = self._data[self._pos:self._pos + n]
        self._pos += n
        return n

    def seek(self, offset, whence=0):
        self._pos = max(0, offset if whence == 0 else self._pos + offset if whence == 1 else len(self._data) + offset)
        return self._pos

    def tell(self):
        return self._pos


_TRIGGERS = __import__("weakref").WeakKeyDictionary()      # DebFile object -> Trigger of the file object it was given


def trigger_of(deb):
    return _TRIGGERS.get(deb)


def forget_trigger(deb):
    _TRIGGERS.pop(deb, None)


def obs_faulted(deb, k, kind, call):
    """run the raw query call() while the file object the caller gave to `deb` is armed to raise at its
    k-th read.  -> '' when the injected fault did not come out as an exception (it did not fire, it was
    swallowed, or the query failed for a reason of its own: the caller then asks again, unarmed, and
    records that answer); otherwise what came out: 'caller' = the injected exception object itself,
    'DebError' = the package-format error, 'EXC:<class>' anything else"""
    trig = trigger_of(deb)
    if trig is None:
        return ""
    injected = make_fault(kind)
    trig.arm(k, injected)
    try:
        call()
    except Exception as e:      # whatever comes out of the code under test is an observation
        if trig.fired:
            return came_out(e, injected)
    finally:
        trig.disarm()
    return ""


def came_out(e, injected):
    """'caller' when e is the injected exception object; the class of e when e was raised while handling
    it / from it (a conversion of the fault); '' when e has nothing to do with it (the fault was swallowed
    on the way -- tarfile.open(mode='r:*') does that while probing the compression -- and the query then
    failed for a reason of its own, e.g. KeyError for an absent file)"""
    if e is injected:
        return "caller"
    seen, x = 0, e
    while x is not None and seen < 20:
        x = x.__cause__ or x.__context__
        if x is injected:
            return classify(e)
        seen += 1
    return ""


class ShortRaw(io.RawIOBase):
    """a seekable raw stream over bytes that never returns more than a few bytes per read"""

    def __init__(self, data, seed=0):
        super().__init__()
        self._data, self._pos, self._k = data, 0, seed

    def readable(self):
        return True

    def seekable(self):
        return True

    def readinto(self, b):
        self._k = (self._k * 5 + 3) % 7
        n = min(len(b), self._k + 1, len(self._data) - self._pos)
        b[:n] = self._data[self._pos:self._pos + n]
        self._pos += n
        return n

    def seek(self, offset, whence=0):
        self._pos = max(0, offset if whence == 0 else self._pos + offset if whence == 1 else len(self._data) + offset)
        return self._pos

    def tell(self):
        return self._pos


def pick_how(rnd, p_named, heavy=False):
    """a way of creating the object; the in-memory ones (no disk traffic) are drawn more often.
    heavy: a big package -- not through the compressed wrappers (every backward seek decompresses again)"""
    if rnd.random() < p_named:
        return rnd.choice(HOWS_NAMED)
    if rnd.random() < 0.3:
        return rnd.choice(HOWS_FLAKY)
    if rnd.random() < 0.2:
        return rnd.choice([h for h in HOWS_KINDS if not (heavy and (h in HOWS_COMPRESSED or h == "shortread"))])
    return rnd.choice(["fileobj", "fileobj", "fileobj", "fileobj-pos", "fileobj-pos", "realfile"])


def _kind_object(blob, how, path):
    """the file object of one of HOWS_KINDS; whatever must be closed later is registered in _handles"""
    import bz2
    import gzip
    import lzma
    import tempfile
    if how == "shortread":
        return io.BufferedReader(ShortRaw(blob, len(blob)), buffer_size=[16, 512, 8192][len(blob) % 3])
    if how in ("spooled-mem", "spooled-disk"):
        fh = tempfile.SpooledTemporaryFile(max_size=(len(blob) + 1) if how == "spooled-mem" else 64,
                                           dir=os.path.dirname(path))
        fh.write(blob)
        fh.seek(0)
        _handles[path] = fh
        return fh
    if how == "unbuffered":
        with open(path, "wb") as f:
            f.write(blob)
        fh = _handles[path] = open(path, "rb", buffering=0)
        return fh
    comp, opener = {"gzipfile": (lambda b: gzip.compress(b, 1, mtime=0), gzip.GzipFile),
                    "bz2file": (lambda b: bz2.compress(b, 1), bz2.BZ2File),
                    "lzmafile": (lambda b: lzma.compress(b, preset=0), lzma.LZMAFile)}[how]
    with open(path, "wb") as f:
        f.write(comp(blob))
    fh = _handles[path] = opener(path, "rb")
    return fh


def open_deb(blob, how, work, path=None):
    """-> (DebFile or None, 'ok' | 'DebError' | 'EXC:<type>', path to delete or None).
    how: fileobj      DebFile(fileobj=BytesIO)          fileobj-pos  DebFile(None, 'r', BytesIO)
         realfile     DebFile(fileobj=open(path, 'rb')) filename     DebFile(filename=path)
         filename-pos DebFile(path, 'r')                subclass     class X(DebFile) ... X(filename=path, mode='r')
         HOWS_KINDS   DebFile(fileobj=<that kind of file object>)
    with a path given the file at that path is REWRITTEN and opened again"""
    from debian.debfile import DebFile
    HOW_COUNT[how] = HOW_COUNT.get(how, 0) + 1
    try:
        if how in HOWS_NAMED or how == "realfile" or how in HOWS_KINDS:
            if path is None:
                _counter[0] += 1
                path = os.path.join(work, "p%d-%d.deb" % (os.getpid(), _counter[0]))
            old = _handles.pop(path, None)
            if old is not None:
                old.close()
            if how in HOWS_KINDS:
                return DebFile(fileobj=_kind_object(blob, how, path)), "ok", path
            with open(path, "wb") as f:
                f.write(blob)
            if how == "realfile":
                fh = _handles[path] = open(path, "rb")
                return DebFile(fileobj=fh), "ok", path
            if how == "filename-pos":
                return DebFile(path, "r"), "ok", path
            if how == "subclass":
                class PackageReader(DebFile):
                    """a user subclass that adds nothing"""
                return PackageReader(filename=path, mode="r"), "ok", path
            return DebFile(filename=path), "ok", path
        if how in HOWS_FLAKY:
            return open_flaky(blob, how), "ok", None
        if how == "fileobj-pos":
            return DebFile(None, "r", io.BytesIO(blob)), "ok", None
        return DebFile(fileobj=io.BytesIO(blob)), "ok", None
    except Exception as e:      # observation about the code under test
        return None, classify(e), path


def open_flaky(blob, how):
    from debian.debfile import DebFile
    if how == "flaky":
        fobj = FlakyBytes(blob)
        trig = fobj.trigger
    else:
        raw = FlakyRaw(blob)
        trig = raw.trigger
        fobj = io.BufferedReader(raw, buffer_size=[512, 8192, 65536][len(blob) % 3])
    deb = DebFile(fileobj=fobj)
    _TRIGGERS[deb] = trig
    return deb


def take_how_count():
    out = dict(HOW_COUNT)
    HOW_COUNT.clear()
    return out


def finish(deb, with_exit):
    """close() or leaving a `with` block; -> None or the exception class"""
    try:
        if with_exit:
            deb.__exit__(None, None, None)
        else:
            deb.close()
    except Exception as e:
        return type(e).__name__
    return None


def drop(path):
    if path:
        fh = _handles.pop(path, None)
        if fh is not None:
            try:
                fh.close()
            except Exception:
                pass
        try:
            os.unlink(path)
        except OSError:
            pass


def alias_of(obj, name):
    """a deprecated camelCase alias of a method (function_deprecated_by), if this tree has one"""
    parts = name.split("_")
    camel = parts[0] + "".join(p.capitalize() for p in parts[1:])
    return getattr(obj, camel, None) if camel != name else None


def obs_has(part, path):
    """-> (err, found): has_file, `in`, __contains__ (and a camelCase alias where one exists) must agree"""
    try:
        a = part.has_file(path)
    except Exception as e:
        return classify(e), None
    try:
        b = path in part
        c = part.__contains__(path)
        al = alias_of(part, "has_file")
        d = al(path) if al is not None else a
    except Exception as e:
        return "EXC:in-raises-" + type(e).__name__, None
    if not (bool(a) == bool(b) == bool(c) == bool(d)):
        return "EXC:has_file-and-in-disagree", None
    return "", bool(a)


N_ACCESS = 10
TEXT_ACCESS = (6, 7, 8)


def obs_get(part, path, variant=0, disturb=None, rnd=None, plain=None, textok=False):
    """-> (err, data): data is None for an absent file (KeyError); err 'DebError' for DebError.
    variant 0: get_content; 1: get_file().read(); 2: part[path]; 3: get_file() read in small chunks
    with other queries (disturb()) in between; 4: two file objects on the same file read alternately;
    5: part.tgz().extractfile('./' + plain).read() (the TarFile itself; needs the plain name);
    6: get_content(path, encoding='latin-1') (text result, keyword); 7: get_file(path, 'utf-8',
    'surrogateescape').read() (text, positional); 8: get_content(path, 'ascii', 'surrogateescape');
    9: a camelCase alias of get_content if the tree has one, else part.__getitem__(path).
    Text results are mapped back to bytes with the same codec; they are used only when the caller
    knows the packed content has no '\r' (TextIOWrapper translates newlines): textok"""
    if variant in TEXT_ACCESS and not textok:
        variant = 0
    if variant == 5 and plain is None:
        variant = 1
    try:
        if variant == 5:
            f = part.tgz().extractfile("./" + plain)
            if f is None:
                return "EXC:extractfile-None", None
            data = f.read()
        elif variant in TEXT_ACCESS:
            if variant == 6:
                text, codec = part.get_content(path, encoding="latin-1"), ("latin-1", "strict")
            elif variant == 7:
                f = part.get_file(path, "utf-8", "surrogateescape")
                text, codec = f.read(), ("utf-8", "surrogateescape")
                f.close()
            else:
                text, codec = part.get_content(path, "ascii", "surrogateescape"), ("ascii", "surrogateescape")
            if not isinstance(text, str):
                return "EXC:text-query-returned-" + type(text).__name__, None
            data = text.encode(*codec)
        elif variant == 9:
            al = alias_of(part, "get_content")
            data = al(path) if al is not None else part.__getitem__(path)
        elif variant == 1:
            f = part.get_file(path)
            data = f.read()
            f.close()
        elif variant == 2:
            data = part[path]
        elif variant == 3:
            f = part.get_file(path)
            out = []
            while True:
                # small chunks first; a big file is finished in chunks around the 8 KiB buffer size and larger
                k = (rnd.choice([1, 2, 3, 7, 64]) if rnd else 5) if len(out) < 12 else \
                    (rnd.choice([4096, 8191, 8192, 8193, 65536]) if rnd else 8192) * (1 if len(out) < 40 else 16)
                piece = f.read(k)
                if not piece:
                    break
                out.append(piece)
                if disturb is not None and len(out) < 60:
                    disturb()
            f.close()
            data = b"".join(out)
        elif variant == 4:
            f1 = part.get_file(path)
            f2 = part.get_file(path)
            data = f1.read(3)
            other = f2.read()
            if disturb is not None:
                disturb()
            data += f1.read()
            f1.close()
            f2.close()
            if other != data:
                return "EXC:two-file-objects-of-one-file-disagree", None
        else:
            data = part.get_content(path)
    except KeyError:
        return "", None
    except Exception as e:
        return classify(e), None
    if not isinstance(data, bytes):
        return "EXC:returned-" + type(data).__name__, None
    return "", data


AR_KINDS = ["getmember", "getitem", "getmembers", "members", "getnames", "iter", "extractfile"]
AR_NAMED = ["getmember", "getitem", "extractfile"]


def obs_ar(deb, kind, name=None):
    """one call of the ArFile interface DebFile inherits; only the member TABLE is looked at (name, size),
    nothing is read through the members.  -> err ('' = the call answered about the member asked for)"""
    try:
        if kind == "getmember":
            m = deb.getmember(name)
            ok = m.name == name and m.size >= 0
        elif kind == "getitem":
            m = deb[name]
            ok = m.name == name and m.size >= 0
        elif kind == "extractfile":
            m = deb.extractfile(name)
            ok = m is not None and m.name == name
        elif kind == "getmembers":
            ok = all(m.size >= 0 for m in deb.getmembers())
        elif kind == "members":
            ok = all(m.name is not None for m in deb.members)
        elif kind == "getnames":
            ok = "debian-binary" in deb.getnames()
        else:
            ok = len([m.name for m in deb]) == len(deb.getnames())
    except Exception as e:
        return classify(e)
    return "" if ok else "EXC:wrong-member"


def ar_glance(deb):
    """every look at the member table there is (used while a file object of a part is half read)"""
    try:
        names = list(deb.getnames())
        for kind in ("getmembers", "members", "iter"):
            obs_ar(deb, kind)
        for n in names:
            for kind in AR_NAMED:
                obs_ar(deb, kind, n)
    except Exception:
        pass


# close() as an ORDINARY step of a history (spec/DebFileCache.tla: Close -- no trace in any later answer).
# way -> the w of the model ("all" or the one part closed)
CLOSE_WAYS = {"close": "all", "with": "all", "exit": "all", "parts": "all", "twice": "all",
              "control": "control", "data": "data"}


def obs_close(deb, way):
    """DebFile.close() / leaving a `with` block / __exit__ / the parts' own close(); the object is used on
    afterwards.  -> err ('' = returned)"""
    try:
        if way == "with":
            with deb as inner:
                if inner is not deb:
                    return "EXC:enter-returned-other-object"
        elif way == "exit":
            deb.__exit__(None, None, None)
        elif way == "parts":
            deb.data.close()
            deb.control.close()
        elif way == "control":
            deb.control.close()
        elif way == "data":
            deb.data.close()
        elif way == "twice":
            deb.close()
            deb.close()
        else:
            deb.close()
    except Exception as e:
        return classify(e)
    return ""


def obs_read_begin(part, path, k):
    """get_file(path) and a read of k bytes -> (err, file object or None, head)"""
    try:
        f = part.get_file(path)
        head = f.read(k)
    except KeyError:
        return "", None, None
    except Exception as e:
        return classify(e), None, None
    if not isinstance(head, bytes):
        return "EXC:returned-" + type(head).__name__, None, None
    return "", f, head


def obs_read_end(f, head):
    """the remainder of a half-read file -> (err, head + remainder)"""
    try:
        rest = f.read()
        f.close()
    except Exception as e:
        return classify(e), None
    if not isinstance(rest, bytes):
        return "EXC:returned-" + type(rest).__name__, None
    return "", head + rest


def mutate_result(raw):
    """what a caller may do with a dictionary it was handed: drop a key, change a value, add a key"""
    try:
        keys = list(raw.keys())
        if keys:
            del raw[keys[0]]
        for k in keys[1:2]:
            v = raw[k]
            raw[k] = (v + v[:1] + b"#") if isinstance(v, bytes) else (str(v) + "#")
        raw["Junk"] = "mutated"
    except Exception:
        pass


# ways of asking for the md5sums map: None | encoding (keyword) | [encoding, errors, positional?]
MD5_WAYS = [None, "utf-8", ["utf-8", None, True], ["latin-1", None, False], ["ascii", "surrogateescape", True],
            ["utf-8", "surrogateescape", False]]


def norm_md5(d, codec=None):
    """md5sums() result with keys/values as text (the key type -- bytes without encoding -- is
    diagnostic); keys decoded with another codec than UTF-8 are mapped back through that codec"""
    out = {}
    typed_ok = True
    for k, v in d.items():
        if isinstance(k, bytes):
            k = k.decode("utf-8", "surrogateescape")
        elif codec is not None and codec[0] != "utf-8":
            k = k.encode(codec[0], codec[1] or "strict").decode("utf-8", "surrogateescape")
        if isinstance(v, bytes):
            v = v.decode("ascii", "replace")
            typed_ok = False
        out[k] = v
    return out, typed_ok


def obs_md5(ctl, encoding=None, keep=None):
    enc, errors, positional = (encoding if isinstance(encoding, (list, tuple)) else (encoding, None, False))
    try:
        if not enc:
            d = ctl.md5sums()
        elif positional:
            d = ctl.md5sums(enc, errors) if errors else ctl.md5sums(enc)
        else:
            d = ctl.md5sums(encoding=enc, errors=errors) if errors else ctl.md5sums(encoding=enc)
    except Exception as e:
        return classify(e), None
    if not isinstance(d, dict):
        return "EXC:returned-" + type(d).__name__, None
    try:
        m, typed = norm_md5(d, (enc, errors) if enc else None)
    except (UnicodeError, AttributeError, TypeError) as e:
        # the keys are not what decoding the packed names with the requested codec gives
        return "EXC:md5sums-keys-not-in-requested-codec-" + type(e).__name__, None
    if enc and not all(isinstance(k, str) for k in d):
        typed = False
    if not enc and not all(isinstance(k, bytes) for k in d):
        typed = False
    if keep is not None:
        keep[:] = [d]
    return "", (m, typed)


def obs_listing(part):
    """-> (err, names): iterating the part, list() of it and tgz().getnames() must agree"""
    try:
        a = [n for n in part]
        b = list(iter(part))
        c = list(part.tgz().getnames())
    except Exception as e:
        return classify(e), None
    if not (a == b == c):
        return "EXC:iteration-and-getnames-disagree", None
    return "", a


def obs_scripts(ctl, keep=None):
    try:
        d = ctl.scripts()
    except Exception as e:
        return classify(e), None
    if not isinstance(d, dict):
        return "EXC:returned-" + type(d).__name__, None
    if keep is not None:
        keep[:] = [d]
    return "", dict(d)


def obs_ctl(ctl, keep=None):
    try:
        d = ctl.debcontrol()
        if keep is not None:
            keep[:] = [d]
        return "", dict((k, d[k]) for k in d)
    except Exception as e:
        return classify(e), None


