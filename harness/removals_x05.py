"""X05 (a) helpers: debian.deb822.Removals -- tokenizers (concrete text -> tokens of spec/Removals.tla),
concretizers (tokens -> text, with the size dimension of notes/SIZE_STRESS.md), the writer of
removals paragraphs, and the executor that runs a concrete script of calls against the real class
and logs the events validated by spec/TraceX05R.tla.  No verdict is taken here from a hand-written
reference: expected values come from TLC (LINE / NUM / EDGE lines, trace validation)."""
import copy
import datetime
import email.utils
import io
import re

LENS = [1, 2, 7, 8, 9, 15, 16, 17, 31, 32, 33, 63, 64, 65, 71, 72, 73, 79, 80, 81, 127, 128, 129, 255, 256, 257,
        1023, 1024, 1025, 4095, 4096, 4097, 8191, 8192, 8193, 65535, 65536, 65537]
COUNTS = [0, 1, 2, 3, 9, 10, 11, 16, 17, 31, 32, 33, 99, 100, 101, 255, 256, 257, 1000, 1025]
NUMBERS = [0, 9, 10, 99, 100, 2 ** 15, 2 ** 16, 2 ** 31 - 1, 2 ** 31, 2 ** 32 - 1, 2 ** 32, 2 ** 63 - 1, 2 ** 63, 10 ** 18]
WS_POOL = ["\t", "  ", " \t", "\t ", "   ", "\xa0", "\u2003", " \u3000", "\x1f", "\t\t"]
WS_TEXT = ["\t", "  ", " \t", "\t ", "   "]             # inside a paragraph that is parsed from text
NAME_CH = "abcdefghijklmnopqrstuvwxyz0123456789+-."
VER_CH = "0123456789abcdefghijklmnopqrstuvwxyzABCDEFGHIJKLMNOPQRSTUVWXYZ.+-~:"
ARCH_CH = "abcdefghijklmnopqrstuvwxyz0123456789-"
ODD_CH = "é中ü()=#%!*/\\'\"<>@;|{}^$&?"
ARCHES = ["all", "amd64", "armel", "armhf", "hurd-i386", "i386", "kfreebsd-amd64", "kfreebsd-i386", "mips", "mipsel",
          "powerpc", "s390x", "sparc", "arm64", "ppc64el", "riscv64", "x32", "any"]
JUNK_WORDS = ["abc", "n/a", "#12", "12a", "bug", "0x1f", "1.5", "1e3", "--"]
FIELD = {"src": "Sources", "bin": "Binaries", "bug": "Bug", "wnpp": "Also-WNPP", "bugs": "Also-Bugs", "date": "Date"}
PROP = {"src": "sources", "bin": "binaries", "bug": "bug", "wnpp": "also_wnpp", "bugs": "also_bugs"}
NUMKIND = {"bug": "bug", "wnpp": "also", "bugs": "also"}
PATHS = ("mapping", "assign", "str", "bytes", "lines", "linesnl", "file", "bfile", "iter")


# ------------------------------------------------------------------ sizes

def heavy_len(rng, big=True):
    x = rng.random()
    if x < 0.72:
        return rng.randint(1, 12)
    if x < 0.95 or not big:
        return rng.choice(LENS[:26])
    return rng.choice(LENS[26:35] if x < 0.995 else LENS[35:])


def heavy_count(rng, cap=1025):
    x = rng.random()
    if x < 0.6:
        return rng.randint(0, 4)
    if x < 0.93:
        return min(cap, rng.choice(COUNTS[:15]))
    return min(cap, rng.choice(COUNTS[15:]))


def word(rng, n, alphabet, odd=0.0):
    first = rng.choice("abcdefghijklmnopqrstuvwxyz0123456789")
    if n <= 1:
        return first
    if n > 64:                                   # long words: a random block repeated (cheap)
        block = "".join(rng.choice(alphabet) for _ in range(61))
        body = (block * (n // 61 + 1))[:n - 1]
    else:
        body = "".join(rng.choice(alphabet) for _ in range(n - 1))
    if odd and rng.random() < odd:
        k = rng.randrange(len(body))
        body = body[:k] + rng.choice(ODD_CH) + body[k + 1:]
    return first + body


def number_text(rng):
    x = rng.random()
    if x < 0.5:
        v = rng.randint(1, 999999)
    elif x < 0.9:
        v = rng.choice(NUMBERS) + rng.choice((0, 0, 1, -1)) if rng.random() < 0.5 else rng.choice(NUMBERS)
        v = max(v, 0)
    else:
        v = rng.getrandbits(rng.choice((64, 100, 300)))
    s = str(v)
    if rng.random() < 0.15:
        s = "0" * rng.choice((1, 2, 9, 100)) + s
    return s


# ------------------------------------------------------------------ tokenizers (text -> tokens)

class Intern:
    """text -> small integer naming it (per trace)"""

    def __init__(self):
        self.ids = {}

    def __call__(self, key):
        i = self.ids.get(key)
        if i is None:
            i = self.ids[key] = len(self.ids) + 1
        return i


_PUNCT = {"_": "U", "[": "L", "]": "R", ",": "C"}


def rtok(text, intern):
    """a line of a Sources / Binaries field -> tokens of Removals.tla"""
    out, i, n = [], 0, len(text)
    while i < n:
        ch = text[i]
        if ch in _PUNCT:
            out.append({"c": _PUNCT[ch], "i": intern(ch)})
            i += 1
            continue
        j = i + 1
        if ch.isspace():
            while j < n and text[j].isspace():
                j += 1
            run = text[i:j]
            out.append({"c": "SP" if run == " " else "WS", "i": intern(run)})
        else:
            while j < n and not text[j].isspace() and text[j] not in _PUNCT:
                j += 1
            out.append({"c": "W", "i": intern(text[i:j])})
        i = j
    return out


def rids(text, intern):
    return [t["i"] for t in rtok(text, intern)]


def ntok(text, intern):
    """the value of Bug / Also-WNPP / Also-Bugs -> tokens (D: ASCII digits, the id names the NUMBER)"""
    out, i, n = [], 0, len(text)
    while i < n:
        ch = text[i]
        if ch == ",":
            out.append({"c": "C", "i": intern(ch)})
            i += 1
            continue
        j = i + 1
        if ch.isspace():
            while j < n and text[j].isspace():
                j += 1
            run = text[i:j]
            out.append({"c": "SP" if run == " " else "WS", "i": intern(run)})
        else:
            while j < n and not text[j].isspace() and text[j] != ",":
                j += 1
            w = text[i:j]
            if w.isascii() and w.isdigit():
                out.append({"c": "D", "i": intern(("n", int(w)))})
            else:
                out.append({"c": "X", "i": intern(w)})
        i = j
    return out


# ------------------------------------------------------------------ concretizers (classes -> text)

def conc_line(cs, rng, style="plain", text_safe=False):
    """token classes of a LINE case -> list of token texts.  style: plain / long / odd"""
    out = []
    ws_pool = WS_TEXT if text_safe else WS_POOL
    for p, c in enumerate(cs):
        if c == "SP":
            out.append(" ")
        elif c == "WS":
            if style == "long" and rng.random() < 0.3:
                out.append(" " * rng.choice((2, 9, 64, 257, 1025)))
            else:
                out.append(rng.choice(ws_pool))
        elif c == "W":
            if style == "canon":
                out.append("w%d" % (p + 1))
            elif style == "long":
                out.append(word(rng, heavy_len(rng), VER_CH) + "k%d" % p)
            else:
                out.append(word(rng, rng.randint(1, 9), VER_CH, odd=0.5 if style == "odd" else 0.0))
        else:
            out.append({"U": "_", "L": "[", "R": "]", "C": ","}[c])
    return out


def conc_num(cs, rng, style="plain"):
    out = []
    for c in cs:
        if c == "SP":
            out.append(" ")
        elif c == "WS":
            out.append(rng.choice(WS_TEXT))
        elif c == "C":
            out.append(",")
        elif c == "D":
            out.append(str(rng.randint(1, 99999)) if style == "canon" else number_text(rng))
        else:
            out.append(rng.choice(JUNK_WORDS))
    return out


# ------------------------------------------------------------------ the writer

def write_src_line(rng, rec, text_safe=False, decor=True):
    name, ver = rec
    ws = WS_TEXT if text_safe else WS_POOL
    lead = " " if not decor or rng.random() < 0.7 else rng.choice(ws)
    trail = "" if not decor or rng.random() < 0.85 else rng.choice([" "] + ws)
    return lead + name + "_" + ver + trail


def write_bin_line(rng, rec, text_safe=False, decor=True):
    name, ver, archs = rec
    ws = WS_TEXT if text_safe else WS_POOL
    lead = " " if not decor or rng.random() < 0.7 else rng.choice(ws)
    gap = " " if not decor or rng.random() < 0.8 else rng.choice(ws)
    trail = "" if not decor or rng.random() < 0.85 else rng.choice([" "] + ws)
    return lead + name + "_" + ver + gap + "[" + ", ".join(archs) + "]" + trail


def junk_line(rng, text_safe=False):
    """a line without underscore"""
    return rng.choice([" junk", " # comment", " [all]", " no underscore here", "\tx", " a-1 [i386, amd64]", " ."])


UNDECIDED_SRC = [" a_1 junk", " a_b_1", " _1", " a__2", " a_", " a _1", " x_1 y_2"]
UNDECIDED_BIN = [" a_1 []", " a_1 [x,y]", " a_1 [x,  y]", " a_1", " a_1[x]", " a_1 [x] y]", " a_b_1 [x]", " a_1 x [y]"]


def random_records(rng, f, n, big=True):
    recs = []
    for _ in range(n):
        name = word(rng, heavy_len(rng, big) if rng.random() < 0.2 else rng.randint(2, 12), NAME_CH)
        ver = word(rng, heavy_len(rng, big) if rng.random() < 0.1 else rng.randint(1, 10), VER_CH)
        if f == "src":
            recs.append((name, ver))
        else:
            k = max(1, heavy_count(rng, 257) if rng.random() < 0.15 else rng.randint(1, 4))
            if k <= len(ARCHES) and rng.random() < 0.7:
                archs = rng.sample(ARCHES, k)
            else:
                archs = ["%s%d" % (word(rng, rng.randint(1, 6), ARCH_CH), i) for i in range(k)]
            recs.append((name, ver, archs))
    if recs and n >= 2 and rng.random() < 0.3:           # identical items
        recs[rng.randrange(n)] = recs[rng.randrange(n)]
    return recs


def field_lines(rng, f, text_safe=False, big=True, undecided=0.0):
    """lines of a Sources / Binaries field written from random records, lines without underscore interleaved"""
    n = heavy_count(rng) if big else rng.randint(0, 4)
    recs = random_records(rng, f, n, big)
    wr = write_src_line if f == "src" else write_bin_line
    decor = rng.random() < 0.5
    lines = []
    for rec in recs:
        if rng.random() < 0.08:
            lines.append(junk_line(rng, text_safe))
        lines.append(wr(rng, rec, text_safe, decor))
    if rng.random() < 0.1:
        lines.append(junk_line(rng, text_safe))
    if undecided and rng.random() < undecided:
        lines.insert(rng.randint(0, len(lines)), rng.choice(UNDECIDED_SRC if f == "src" else UNDECIDED_BIN))
    return lines


def value_of(lines, form):
    """the field value for a list of lines.  std: empty first line (what dak writes); first: the
    first record on the line of the field name.  None when validate_input would refuse it."""
    if not lines:
        return ""
    if form == "std":
        body = lines
        val = "\n" + "\n".join(lines)
    else:
        body = lines[1:]
        val = "\n".join(lines)
    if any((not l) or (not l[0].isspace()) for l in body) or val.endswith("\n"):
        return None
    return val


def lines_of_value(val):
    return val.split("\n") if val != "" else []


def date_text(epoch, offset_min):
    tz = datetime.timezone(datetime.timedelta(minutes=offset_min))
    return email.utils.format_datetime(datetime.datetime.fromtimestamp(epoch, tz))


def spell(name, case):
    return {"title": name, "lower": name.lower(), "upper": name.upper()}[case]


def paragraph_text(fields, case="title"):
    """fields: dict key -> value (key in FIELD) -> text of one paragraph"""
    out = ["Ftpmaster: Some One", "Suite: unstable"]
    order = ["date", "src", "bin", "bug", "wnpp", "bugs"]
    for k in order:
        v = fields.get(k)
        if v is None:
            continue
        out.append("%s:%s%s" % (spell(FIELD[k], case), "" if v.startswith("\n") or v == "" else " ", v))
    out.insert(3, "Reason: ROM; obsolete")
    return "\n".join(out) + "\n"


def text_ok(fields):
    """can this set of values go through the text parser unchanged?"""
    for k, v in fields.items():
        if v is None:
            continue
        ls = v.split("\n")
        if ls[0] != ls[0].strip():
            return False
        if k in ("src", "bin") and ls[0] != "":
            return False
        for l in ls[1:]:
            if not l.strip() or l[0] not in " \t":
                return False
        if any(ch in v for ch in "\r\x0b\x0c\x1c\x1d\x1e\x1f\x85\xa0\u1680\u2003\u2028\u2029\u3000"):
            return False
    return True


# ------------------------------------------------------------------ driving the real class

def build(path, fields, case="title", keep=None):
    """a Removals object holding `fields` (key -> value or None), constructed along `path`"""
    from debian.deb822 import Removals
    present = {spell(FIELD[k], case): v for k, v in fields.items() if v is not None}
    if path == "mapping":
        return Removals(present)
    if path == "assign":
        r = Removals()
        for k, v in present.items():
            r[k] = v
        return r
    text = paragraph_text(fields, case)
    if path == "str":
        return Removals(text)
    if path == "bytes":
        return Removals(text.encode("utf-8"))
    if path == "lines":
        return Removals(text.splitlines())
    if path == "linesnl":
        return Removals(text.splitlines(True))
    if path == "file":
        return Removals(io.StringIO(text))
    if path == "bfile":
        return Removals(io.BytesIO(text.encode("utf-8")))
    if path == "iter":
        other = "Date: Wed, 01 Jan 2014 17:03:54 +0000\nSources:\n other_9\nBinaries:\n other_9 [all]\nBug: 4\n"
        it = Removals.iter_paragraphs((other + "\n" + text + "\n" + other).splitlines(True))
        a = next(it)
        r = next(it)
        b = next(it)
        if keep is not None:
            keep += [a, b, it]
            a.sources, b.binaries               # the neighbours have their caches filled
        return r
    raise ValueError(path)


def observe(r, prop):
    try:
        return "ok", getattr(r, prop)
    except Exception as e:          # noqa: BLE001 -- observation
        return type(e).__name__, None


def proj_recs(f, k, v, intern):
    """observed value of sources / binaries -> the res record of a trace event"""
    if k != "ok":
        return {"k": "exc:" + k, "recs": []}
    try:
        if not isinstance(v, list):
            raise TypeError
        recs = []
        for d in v:
            pkg = d["source" if f == "src" else "package"]
            ver = d["version"]
            if not isinstance(pkg, str) or not isinstance(ver, str):
                raise TypeError
            rec = {"pkg": rids(pkg, intern), "ver": rids(ver, intern), "archs": []}
            if f == "bin":
                a = d["architectures"]
                if not isinstance(a, (set, frozenset)):
                    raise TypeError
                rec["archs"] = sorted(rids(x, intern) for x in a)
            recs.append(rec)
        return {"k": "ok", "recs": recs}
    except Exception:               # noqa: BLE001
        return {"k": "shape", "recs": []}


def proj_nums(k, v, intern):
    if k != "ok":
        return {"k": k, "nums": []}
    if not isinstance(v, list) or any(type(x) is not int for x in v):
        return {"k": "shape", "nums": []}
    return {"k": "ok", "nums": [intern(("n", x)) for x in v]}


def mutate_result(lst, how):
    if how == "append":
        lst.append({"source": "leak", "package": "leak", "version": "0", "architectures": {"leak"}})
    elif how == "pop" and lst:
        lst.pop()
    elif how == "edit" and lst:
        lst[0]["version"] = "LEAK"
        if "architectures" in lst[0]:
            lst[0]["architectures"].add("leak")
    else:
        lst.insert(0, {"source": "leak", "package": "leak", "version": "0", "architectures": {"leak"}})


def exec_script(script):
    """run a concrete script (list of ops) against the real class -> trace events (TraceX05R)"""
    intern = Intern()
    objs, held, keep, events = {}, {}, [], []

    def toks(lines):
        return [rtok(l, intern) for l in lines]

    for op in script:
        k = op["op"]
        if k == "new":
            o = op["o"]
            if o in objs:
                keep.append(objs[o])
            for key in [x for x in held if x[0] == o]:
                keep.append(held.pop(key))
            objs[o] = build(op["path"], op["fields"], op.get("case", "title"), keep)
            events.append({"op": "fresh", "o": o})
            for f in ("src", "bin"):
                v = op["fields"].get(f)
                if v is not None:
                    events.append({"op": "assign", "o": o, "f": f, "ls": toks(lines_of_value(v))})
        elif k == "assign":
            objs[op["o"]][spell(FIELD[op["f"]], op.get("case", "title"))] = op["value"]
            events.append({"op": "assign", "o": op["o"], "f": op["f"], "ls": toks(lines_of_value(op["value"]))})
        elif k == "drop":
            del objs[op["o"]][spell(FIELD[op["f"]], op.get("case", "title"))]
            events.append({"op": "drop", "o": op["o"], "f": op["f"]})
        elif k == "read":
            st, v = observe(objs[op["o"]], PROP[op["f"]])
            if st == "ok":
                held[(op["o"], op["f"])] = v
            events.append({"op": "read", "o": op["o"], "f": op["f"], "res": proj_recs(op["f"], st, v, intern)})
        elif k == "mutate":
            mutate_result(held[(op["o"], op["f"])], op["how"])
            events.append({"op": "mutate", "o": op["o"], "f": op["f"]})
        elif k == "copy":
            if op["p"] in objs:
                keep.append(objs[op["p"]])
            for key in [x for x in held if x[0] == op["p"]]:
                keep.append(held.pop(key))
            objs[op["p"]] = objs[op["o"]].copy()
            events.append({"op": "copy", "o": op["o"], "p": op["p"]})
        elif k == "line":
            r = build(op.get("path", "mapping"), {op["f"]: op["line"]})
            st, v = observe(r, PROP[op["f"]])
            events.append({"op": "line", "f": op["f"], "line": rtok(op["line"], intern), "res": proj_recs(op["f"], st, v, intern)})
        elif k == "num":
            r = build(op.get("path", "mapping"), {op["key"]: op["text"]}, op.get("case", "title"))
            st, v = observe(r, PROP[op["key"]])
            events.append({"op": "num", "kind": NUMKIND[op["key"]], "has": op["text"] is not None,
                           "toks": ntok(op["text"], intern) if op["text"] is not None else [],
                           "res": proj_nums(st, v, intern), "known": bool(op.get("known"))})
        elif k == "date":
            r = build(op.get("path", "mapping"), {"date": op["text"]})
            st, v = observe(r, "date")
            if st == "ok":
                try:
                    res = "same" if v.timestamp() == op["epoch"] else "other:%r" % (v,)
                except Exception as e:      # noqa: BLE001
                    res = "shape:%s" % type(e).__name__
            else:
                res = st
            events.append({"op": "date", "kind": op["kind"], "res": res})
        else:
            raise ValueError(k)
    return events


# ------------------------------------------------------------------ random scripts (recorded executions)

def new_op(rng, o, big=True, undecided=0.0):
    path = rng.choice(PATHS)
    text_safe = path not in ("mapping", "assign")
    fields = {}
    for f in ("src", "bin"):
        if rng.random() < 0.8:
            lines = field_lines(rng, f, text_safe, big, undecided)
            form = "std" if text_safe or rng.random() < 0.7 else "first"
            v = value_of(lines, form)
            if v is None:
                v = value_of(lines, "std")
            fields[f] = v
        else:
            fields[f] = None
    fields["date"] = date_text(rng.randint(10 ** 8, 4 * 10 ** 9), rng.choice((0, 0, 60, -300, 330, 765)))
    fields["bug"] = ",".join(number_text(rng) for _ in range(rng.randint(1, 3))) if rng.random() < 0.6 else None
    if not text_ok(fields):
        path = rng.choice(("mapping", "assign"))
    return {"op": "new", "o": o, "path": path, "fields": fields, "case": rng.choice(("title", "title", "lower", "upper"))}


def random_script(rng, nobj=3, nops=18, big=True, undecided=0.1):
    script = []
    live = {}                      # o -> {f: has}
    was_read = set()
    for o in range(1, nobj + 1):
        op = new_op(rng, o, big, undecided)
        script.append(op)
        live[o] = {f: op["fields"].get(f) is not None for f in ("src", "bin")}
    for _ in range(nops):
        o = rng.randint(1, nobj)
        f = rng.choice(("src", "bin"))
        x = rng.random()
        if x < 0.42:
            script.append({"op": "read", "o": o, "f": f})
            was_read.add((o, f))
        elif x < 0.58:
            lines = field_lines(rng, f, False, big and rng.random() < 0.3, undecided)
            form = rng.choice(("std", "std", "first"))
            v = value_of(lines, form)
            if v is None:
                v = value_of(lines, "std")
            if v is None:
                continue
            script.append({"op": "assign", "o": o, "f": f, "value": v, "case": rng.choice(("title", "lower", "upper"))})
            live[o][f] = True
        elif x < 0.63:
            if live[o][f]:
                script.append({"op": "drop", "o": o, "f": f, "case": rng.choice(("title", "lower"))})
                live[o][f] = False
        elif x < 0.75:
            if (o, f) in was_read:
                script.append({"op": "mutate", "o": o, "f": f, "how": rng.choice(("append", "pop", "edit", "insert"))})
        elif x < 0.85:
            op = new_op(rng, o, big and rng.random() < 0.3, undecided)
            script.append(op)
            live[o] = {g: op["fields"].get(g) is not None for g in ("src", "bin")}
            was_read -= {(o, "src"), (o, "bin")}
        elif x < 0.92:
            p = rng.randint(1, nobj)
            if p != o:
                script.append({"op": "copy", "o": o, "p": p})
                live[p] = dict(live[o])
                was_read -= {(p, "src"), (p, "bin")}
        else:
            script.append(probe_op(rng))
    return script


def probe_op(rng):
    x = rng.random()
    if x < 0.4:
        f = rng.choice(("src", "bin"))
        pool = (UNDECIDED_SRC + UNDECIDED_BIN + [" junk", "", " a-1", "x"])
        if rng.random() < 0.5:
            rec = random_records(rng, f, 1, True)[0]
            line = (write_src_line if f == "src" else write_bin_line)(rng, rec)
        else:
            line = rng.choice(pool)
        return {"op": "line", "f": f, "line": line}
    if x < 0.85:
        key = rng.choice(("bug", "wnpp", "bugs"))
        return num_op(rng, key)
    if rng.random() < 0.7:
        epoch = rng.choice((rng.randint(0, 4 * 10 ** 9), 2 ** 31 - 1, 2 ** 31, 2 ** 32, 0, 10 ** 9))
        return {"op": "date", "kind": "ok", "epoch": epoch, "text": date_text(epoch, rng.choice((0, 60, -300, 330, -720, 840))),
                "path": rng.choice(("mapping", "str", "bytes"))}
    return {"op": "date", "kind": "bad", "epoch": 0, "text": rng.choice(("n/a", "soon", "yesterday", "2014-01-01", "garbage in"))}


def num_op(rng, key):
    x = rng.random()
    n = max(1, heavy_count(rng, 257)) if rng.random() < 0.2 else rng.randint(1, 4)
    nums = [number_text(rng) for _ in range(n)]
    if n >= 2 and rng.random() < 0.3:
        nums[0] = nums[-1]
    if x < 0.1:
        return {"op": "num", "key": key, "text": None}                    # field absent
    if key == "bug":
        sep = rng.choice((",", ", "))
        text = sep.join(nums) if rng.random() < 0.8 else ",".join(nums[:1]) + "".join(rng.choice((",", ", ")) + t for t in nums[1:])
    else:
        text = " ".join(nums)
    if x > 0.92:                                                          # outside the grammar
        text = rng.choice((text + ",", "abc", text + " x", "1  2", "1;2", " " + text, text + "\t"))
    path = rng.choice(("mapping", "assign", "str", "bytes", "linesnl"))
    if text != text.strip():
        path = "mapping"
    return {"op": "num", "key": key, "text": text, "path": path, "case": rng.choice(("title", "lower", "upper"))}


_BUG_SHAPE = re.compile(r"D(CS?D)*$")
_ALSO_SHAPE = re.compile(r"D(SD)*$")


def _num_shaped(e):
    cs = "".join({"D": "D", "C": "C", "SP": "S"}.get(x["c"], "?") for x in e["toks"])
    return bool((_BUG_SHAPE if e["kind"] == "bug" else _ALSO_SHAPE).match(cs))


def control_traces(traces, eligible):
    """corrupted copies that TraceX05R must reject.  eligible: indices of traces whose fields were
    written from records and lines without underscore only (corrupting a read of a field with an
    undecided line proves nothing: anything is accepted there)"""
    out = []

    def find(pred):
        for n, t in enumerate(traces):
            for i, e in enumerate(t):
                if e["op"] == "read" and n not in eligible:
                    continue
                if pred(t, i, e):
                    return copy.deepcopy(t), i
        return None, None

    def clean_read(t, i, e, minrecs=1):
        # a read that is the FIRST call on that (o, f) since the object was created: certainly in the clean zone
        if e["op"] != "read" or e["res"]["k"] != "ok" or len(e["res"]["recs"]) < minrecs:
            return False
        for p in reversed(t[:i]):
            if p["op"] == "fresh" and p["o"] == e["o"]:
                return True
            if p["op"] in ("read", "mutate") and p.get("o") == e["o"] and p.get("f") == e["f"]:
                return False
            if p["op"] == "copy" and p["p"] == e["o"]:
                return True
        return False

    t, i = find(lambda t, i, e: clean_read(t, i, e))
    if t:
        t[i]["res"]["recs"].pop()
        out.append(t)
    t, i = find(lambda t, i, e: clean_read(t, i, e, 2) and e["res"]["recs"][0] != e["res"]["recs"][1])
    if t:
        r = t[i]["res"]["recs"]
        r[0], r[1] = r[1], r[0]
        out.append(t)
    t, i = find(lambda t, i, e: clean_read(t, i, e))
    if t:
        t[i]["res"]["recs"][0]["ver"] = t[i]["res"]["recs"][0]["ver"] + [1]
        out.append(t)
    t, i = find(lambda t, i, e: clean_read(t, i, e) and e["f"] == "bin" and len(e["res"]["recs"][0]["archs"]) >= 2)
    if t:
        t[i]["res"]["recs"][0]["archs"].pop()
        out.append(t)
    t, i = find(lambda t, i, e: clean_read(t, i, e))
    if t:
        t[i]["res"] = {"k": "exc:ValueError", "recs": []}
        out.append(t)
    t, i = find(lambda t, i, e: e["op"] == "num" and e["res"]["k"] == "ok" and e["res"]["nums"] and not e["known"]
                and e["has"] and _num_shaped(e))
    if t:
        t[i]["res"]["nums"] = t[i]["res"]["nums"][:-1]
        out.append(t)
        t2 = copy.deepcopy(t)
        t2[i]["res"] = {"k": "ValueError", "nums": []}
        out.append(t2)
    t, i = find(lambda t, i, e: e["op"] == "date" and e["kind"] == "ok" and e["res"] == "same")
    if t:
        t[i]["res"] = "ValueError"
        out.append(t)
    t, i = find(lambda t, i, e: e["op"] == "line" and e["res"]["k"] == "ok" and len(e["res"]["recs"]) == 1
                and [x["c"] for x in e["line"]] in (["W", "U", "W"], ["SP", "W", "U", "W"], ["WS", "W", "U", "W"]))
    if t:
        t[i]["res"]["recs"] = []
        out.append(t)
    return out
