"""X13 helper: concretizers (shapes -> copyright texts, symbols -> characters), input / dump / query
forms, log capture and the World that maps real debian.copyright objects to the identity terms of
spec/CopyrightStruct.tla.  Nothing here decides a verdict: expectations come from TLC (EDGE / CASE / LIST
/ RAW / ... lines, trace validation); this module builds inputs, drives the real code and projects what it
did into the vocabulary of the specifications."""
import io
import logging
import os

import core

CUR = "https://www.debian.org/doc/packaging-manuals/copyright-format/1.0/"
CUR_BODY = "//www.debian.org/doc/packaging-manuals/copyright-format/1.0"
BOUNDARY = [1, 2, 7, 8, 9, 15, 16, 17, 31, 32, 33, 63, 64, 65, 71, 72, 73, 79, 80, 81, 127, 128, 129, 255, 256, 257,
            1023, 1024, 1025, 4095, 4096, 4097, 8191, 8192, 8193]
COUNTS = [0, 1, 2, 3, 9, 10, 11, 16, 17, 31, 32, 33, 99, 100, 101, 255, 256, 257]

# ---------------------------------------------------------------------------------------------- payload pools
# single-line values for parsed texts: no str.splitlines() boundary (domain decision shared with C02 / C17),
# no leading / trailing white space (the deb822 reader strips it)
TAME = ["1", "2014 Some One", "foo (>= 1.0), bar", "a: b", "GPL-2+", "Some One <one@example.org>", "x"]
ODD = ["cafe\u0301 \u212b\u2126 \ufb01", "caf\u00e9 \u00c5\u03a9 fi", "x\ufeffy\u200dz", "a\u00a0b\u3000c\u2003d", "\U0001f600 \U0010ffff",
       "\u0301lone", "tab\tsep\tonly", "\ufeffstart", "\u00df\u0130\u0131\u017f\u03c2", "\U00010400\U00010428", "z\u00adz\u200ez", "#no comment",
       "\uff21\uf9d0", "\u1100\u1161", "\uac00", "x\u200by"]
# values set through the API (never parsed): line-boundary look-alikes allowed inside one line
# (followed by a blank: deb822's own validation of assigned values splits at these characters and wants
# every further "line" to start with white space)
LOOKALIKE = ["a\x0b b", "a\x0c b", "a\x1c b", "a\x1d b", "a\x1e b", "a\x85 b", "a\u2028 b", "a\u2029 b", "a\r b"]
PATTERNS = ["*", "debian/*", "src/*.c", "Makefile", "a?b", "\\*", "doc/\u00e9*", "x\u200by", "e\u0301/*"]
OLD_BODIES = ["//www.debian.org/doc/packaging-manuals/copyright-format/1.1", "//dep.debian.net/deps/dep5",
              "//svn.debian.org/wsvn/dep/web/deps/dep5.mdwn?op=file&rev=135",
              "//www.debian.org/doc/packaging-manuals/copyright-format/1.0/x",
              "//WWW.DEBIAN.ORG/doc/packaging-manuals/copyright-format/1.0",
              "//www.debian.org/doc/packaging-manuals/copyright-format/1.0\u200b", "x"]
OTHER_SCHEMES = ["HTTPS:", "HTTP:", "Http:", "ftp:", "httpx:", "https", ""]


def tail_char(rng):
    """a character whose UTF-8 encoding ends in a chosen trailing byte 0x80..0xBF"""
    return chr(0x400 + rng.randrange(64))


def value(rng, stress):
    """a one-line field value for a text that is going to be parsed"""
    if stress == 0:
        return rng.choice(TAME)
    if stress == 1:
        v = rng.choice(ODD)
        return v + ("w" + tail_char(rng) if rng.random() < 0.5 else "")
    n = rng.choice([x for x in BOUNDARY if x <= (8193 if rng.random() < 0.15 else 1025)])
    base = rng.choice(TAME + ODD[:4])
    return ((base + " ") * (n // len(base) + 1))[:n].strip() or "x"


def fmt_text(rng, f):
    """a Format value of the class f = {sch, body, sl} of spec/CopyrightValid.tla"""
    sch = {"https": "https:", "http": "http:"}.get(f["sch"]) if f["sch"] != "other" else rng.choice(OTHER_SCHEMES)
    body = CUR_BODY if f["body"] == "cur" else rng.choice(OLD_BODIES)
    return sch + body + "/" * f["sl"]


def fmt_class(s):
    """the class of a Format value: independent of fmt_text (abstraction of an OBSERVED string)"""
    if s is None:
        return {"sch": "none", "body": "none", "sl": 0}
    n = len(s) - len(s.rstrip("/"))
    core_ = s[:len(s) - n]
    if core_.startswith("https:"):
        sch, rest = "https", core_[6:]
    elif core_.startswith("http:"):
        sch, rest = "http", core_[5:]
    else:
        sch, rest = "other", core_.split("//", 1)[-1] if "//" in core_ else core_
        rest = "//" + rest if "//" in core_ else rest
    return {"sch": sch, "body": "cur" if rest == CUR_BODY else "old", "sl": min(n, 2)}


# ---------------------------------------------------------------------------------------------- shapes -> text
def para_fields(rng, p, marker, stress):
    """fields (name, value) of a body paragraph of shape p = {f, c, l}"""
    fields = []
    if p["f"] == "ok":
        pats = rng.sample(PATTERNS, rng.choice([1, 1, 2, 3]))
        if stress == 2 and rng.random() < 0.5:
            pats = ["dir%d/*" % i for i in range(rng.choice([16, 17, 33, 100, 257]))]
        fields.append(("Files", rng.choice([" ", "\t", "\n "]).join(pats) if len(pats) > 1 else pats[0]))
    elif p["f"] == "empty":
        fields.append(("Files", ""))
    if p["c"]:
        fields.append(("Copyright", value(rng, stress) + ("\n  2015 Other" if rng.random() < 0.3 else "")))
    if p["l"]:
        lic = rng.choice(["GPL-2+", "MIT", "Expat", "GPL-2+ or MIT", "\u00e9-1.0"])
        if rng.random() < 0.5:
            lic += "\n " + value(rng, stress) + "\n .\n more text"
        fields.append(("License", lic))
    if rng.random() < 0.3:
        fields.append(("Comment", value(rng, stress)))
    fields.append(("X-Marker", str(marker)))
    rng.shuffle(fields)
    return fields


def spell(rng, name):
    r = rng.random()
    return name if r < 0.8 else name.lower() if r < 0.9 else name.upper()


def make_text(rng, inp, stress=0):
    """-> (text, header fields, [fields of body paragraph i]) for an input of shape inp (spec/CopyrightValid.tla)"""
    if inp["empty"]:
        return rng.choice(["", "\n", "\n\n\n", "# only a comment\n", "# c\n\n# d\n"]), None, []
    h = inp["hdr"]
    hf = []
    if h["fmt"]["sch"] != "none":
        hf.append(("Format", fmt_text(rng, h["fmt"])))
    if h["fs"]["sch"] != "none":
        hf.append(("Format-Specification", fmt_text(rng, h["fs"])))
    extra = [("Upstream-Name", value(rng, stress)), ("Source", "https://example.org/" + tail_char(rng)), ("X-Custom", value(rng, stress)),
             ("Upstream-Contact", "\n A <a@example.org>\n B"), ("License", "GPL-2+"), ("Copyright", "2020 X")]
    k = rng.choice([0, 1, 2, 3]) if hf else rng.choice([1, 2])
    for e in rng.sample(extra, k):
        hf.insert(rng.randrange(len(hf) + 1), e)       # Format is not necessarily the first field
    paras = [hf] + [para_fields(rng, p, i + 1, stress) for i, p in enumerate(inp["body"])]
    chunks = []
    for fs in paras:
        chunks.append("".join("%s:%s%s\n" % (spell(rng, n) if n not in ("Format", "Format-Specification") else n,
                                              "" if v == "" else " ", v) for n, v in fs))
    sep = lambda: rng.choice(["\n", "\n", "\n\n", "\n# comment between paragraphs\n\n"]) if stress else "\n"      # noqa: E731
    text = (rng.choice(["", "", "\n", "# leading comment\n"]) if stress else "")
    for i, c in enumerate(chunks):
        text += c + (sep() if i + 1 < len(chunks) else rng.choice(["", "", "\n"]))
    return text, hf, paras[1:]


PARSE_FORMS = ["str", "lines", "lines-nonl", "tuple", "iter", "gen", "stringio", "bytes", "byte-lines", "bytesio", "latin1", "disk"]


def feed(rng, text, form, work=None):
    """-> (sequence argument, extra keyword arguments) for Copyright(...)"""
    lines = text.split("\n")
    lines = [x + "\n" for x in lines[:-1]] + ([lines[-1]] if lines[-1] else [])
    if form == "latin1":
        try:
            text.encode("latin-1")
        except UnicodeEncodeError:
            form = "bytes"
    if form == "disk" and not work:
        form = "stringio"
    if form == "str":
        return text, {}
    if form == "lines":
        return lines, {}
    if form == "lines-nonl":
        return [x.rstrip("\n") for x in lines], {}
    if form == "tuple":
        return tuple(lines), {}
    if form == "iter":
        return iter(lines), {}
    if form == "gen":
        return (x for x in lines), {}
    if form == "stringio":
        return io.StringIO(text), {}
    if form == "bytes":
        return text.encode("utf-8"), {}
    if form == "byte-lines":
        return [x.encode("utf-8") for x in lines], {"encoding": "utf-8"}
    if form == "bytesio":
        return io.BytesIO(text.encode("utf-8")), {}
    if form == "latin1":
        return [x.encode("latin-1") for x in lines], {"encoding": "latin-1"}
    if form == "disk":
        path = os.path.join(work, "in-%d.txt" % rng.getrandbits(40))
        with open(path, "w", encoding="utf-8", newline="") as f:
            f.write(text)
        return open(path, encoding="utf-8", newline=""), {}
    raise core.MachineryError("unknown parse form " + form)


class LogCapture(logging.Handler):
    """records of the library's logger while a call runs (its own handler: no process-wide state is touched
    but the handler list / propagate flag of that one logger)"""

    def __init__(self):
        logging.Handler.__init__(self, level=logging.DEBUG)
        self.records = []

    def emit(self, record):
        try:
            self.records.append((record.levelname, record.getMessage()))
        except Exception:      # noqa: BLE001
            self.records.append((record.levelname, "?"))

    def __enter__(self):
        self.logger = logging.getLogger("debian.copyright")
        self.saved = (self.logger.propagate, self.logger.level, self.logger.disabled)
        self.logger.propagate = False
        self.logger.disabled = False
        self.logger.setLevel(logging.DEBUG)
        self.logger.addHandler(self)
        self.records = []
        return self

    def __exit__(self, *a):
        self.logger.removeHandler(self)
        self.logger.propagate, lvl, self.logger.disabled = self.saved
        self.logger.setLevel(lvl)
        return False

    @property
    def warned(self):
        return any(lv in ("WARNING", "ERROR", "CRITICAL") for lv, _ in self.records)


def construct(rng, seq, kw, strict, style):
    """Copyright(...) through one of the calling conventions"""
    from debian import copyright as C
    enc = kw.get("encoding")
    if style == 0:
        return C.Copyright(seq, strict=strict, **kw)
    if style == 1:
        return C.Copyright(sequence=seq, strict=strict, encoding=enc or "utf-8")
    if style == 2:
        return C.Copyright(seq, enc or "utf-8", strict)
    if strict and not kw:
        return C.Copyright(seq)                      # strict is the default
    return C.Copyright(seq, strict=strict, **kw)


def parse(rng, text, strict, form=None, work=None, style=None):
    """-> (doc or None, error class name or '', warned, log records)"""
    form = form or rng.choice(PARSE_FORMS)
    style = rng.randrange(4) if style is None else style
    seq, kw = feed(rng, text, form, work)
    with LogCapture() as cap:
        try:
            doc = construct(rng, seq, kw, strict, style)
            err = ""
            if isinstance(seq, list):
                del seq[:]                 # the caller scribbles over its input after the call
        except Exception as ex:      # noqa: BLE001
            if not core.raised_by_code_under_test(ex):
                raise
            doc, err = None, type(ex).__name__
        finally:
            if hasattr(seq, "close") and form == "disk":
                seq.close()
    return doc, err, cap.warned, cap.records


# ---------------------------------------------------------------------------------------------- objects
def lic_obj(rng, stress=0):
    from debian import copyright as C
    syn = rng.choice(["GPL-2+", "MIT", "Expat or GPL-2", "\u00e9-1.0" + tail_char(rng)])
    txt = rng.choice(["", "", "line one\n\nline three " + tail_char(rng), value(rng, stress)])
    how = rng.randrange(4)
    if how == 0:
        return C.License(syn, txt)
    if how == 1:
        return C.License(synopsis=syn, text=txt)
    if how == 2 and not txt:
        return C.License(syn)
    return C.License(syn, txt or None)


def make_obj(rng, kind, stress=0):
    """a real object of model kind F / L / H / X through a rotating construction variant"""
    from debian import copyright as C
    from debian.deb822 import Deb822
    how = rng.randrange(5)
    if kind == "F":
        files = rng.sample(PATTERNS, rng.choice([1, 2, 3]))
        cop = value(rng, stress)
        lic = lic_obj(rng, stress)
        if how == 0:
            return C.FilesParagraph.create(files, cop, lic)
        if how == 1:
            return C.FilesParagraph.create(files=tuple(files), copyright=cop, license=lic)
        if how == 2:
            return C.FilesParagraph(Deb822({"Files": " ".join(files), "Copyright": cop, "License": lic.to_str()}))
        if how == 3:
            class MyFiles(C.FilesParagraph):       # a subclass instance IS a FilesParagraph
                pass
            return MyFiles.create(files, cop, lic)
        return C.FilesParagraph(Deb822("Files: %s\nCopyright: %s\nLicense: MIT\nX-Extra: 1\n" % (" ".join(files), cop)), strict=rng.random() < 0.5)
    if kind == "L":
        lic = lic_obj(rng, stress)
        if how == 0:
            return C.LicenseParagraph.create(lic)
        if how == 1:
            return C.LicenseParagraph.create(license=lic)
        if how == 2:
            return C.LicenseParagraph(Deb822({"License": lic.to_str()}))
        if how == 3:
            class MyLicense(C.LicenseParagraph):
                pass
            return MyLicense.create(lic)
        return C.LicenseParagraph(Deb822("License: MIT\n text\nComment: c\n"))
    if kind == "H":
        if how == 0:
            return C.Header()
        if how == 1:
            return C.Header(None)
        if how == 2:
            return C.Header(data=Deb822({"Format": CUR, "Upstream-Name": value(rng, stress)}))
        if how == 3:
            class MyHeader(C.Header):
                pass
            return MyHeader()
        return C.Header(Deb822("Upstream-Name: x\nFormat: %s\n" % CUR))
    # X: anything that is none of the three classes (for the argument the call wants)
    return rng.choice([None, Deb822({"Files": "*", "Copyright": "c", "License": "MIT"}), "Files: *", 7, object(),
                       ["Files: *"], C.License("MIT"), Deb822({"Format": CUR})])


def touch(rng, obj, n):
    """the caller changes the object through the object's own API (payloads include line-boundary look-alikes)"""
    v = rng.choice(ODD + LOOKALIKE) + " #%d" % n
    r = rng.random()
    try:
        if r < 0.5:
            obj.comment = v
        elif r < 0.8:
            obj["X-Touched"] = v
        else:
            obj.comment = None
    except AttributeError:
        pass


class World(object):
    """live documents and objects of one execution; terms {k, d, i} <-> real objects by identity"""

    def __init__(self, rng, work=None):
        self.rng, self.work = rng, work
        self.docs = []               # real Copyright objects, document d = index + 1
        self.real = {}               # (k, d, i) -> object
        self.term = {}               # id(object) -> (k, d, i)
        self.keep = []               # strong references (ids stay unique)
        self.ntouch = 0

    # -- registry
    def register(self, key, obj):
        self.real[key] = obj
        self.keep.append(obj)
        if obj is not None and not isinstance(obj, (str, int)):
            self.term.setdefault(id(obj), key)

    def obj(self, t):
        key = (t["k"], t["d"], t["i"])
        if key not in self.real:
            if key[1] != 0:
                raise core.MachineryError("object %r of a document is not registered" % (key,))
            self.register(key, make_obj(self.rng, key[0], self.rng.choice([0, 0, 1, 2])))
        return self.real[key]

    def t(self, obj):
        key = self.term.get(id(obj))
        if key is None:
            return {"k": "?" + type(obj).__name__, "d": -1, "i": 0}
        return {"k": key[0], "d": key[1], "i": key[2]}

    # -- documents
    def new_doc(self):
        from debian import copyright as C
        how = self.rng.randrange(4)
        doc = C.Copyright() if how == 0 else C.Copyright(None) if how == 1 else C.Copyright(sequence=None) if how == 2 else C.Copyright(strict=False)
        return self.adopt(doc, [])

    def adopt(self, doc, kinds):
        """register the objects a new document created itself; -> None or a message (the document does not have
        the structure the caller was told)"""
        self.docs.append(doc)
        d = len(self.docs)
        allp = list(doc.all_paragraphs())
        names = [type(x).__name__ for x in allp]
        want = ["Header"] + [{"F": "FilesParagraph", "L": "LicenseParagraph"}[k] for k in kinds]
        if names != want:
            # register what is there so that later observations can name the objects
            for i, x in enumerate(allp):
                self.register(("H" if i == 0 else "?", d, i), x)
            return "a new document has the paragraphs %s, expected %s" % (names, want)
        for i, x in enumerate(allp):
            self.register(("H" if i == 0 else kinds[i - 1], d, i), x)
        return None

    def observe(self):
        out = []
        for doc in self.docs:
            allp = [self.t(x) for x in doc.all_paragraphs()]
            out.append({"hdr": allp[0] if allp else {"k": "?none", "d": -1, "i": 0}, "ps": allp[1:]})
        return out

    # -- calls
    def apply(self, call, variant=None):
        """perform the model call on the real objects -> result {t, e, os} in the vocabulary of CopyrightStruct"""
        rng = self.rng
        op, doc = call["op"], self.docs[call["d"] - 1]
        v = rng.randrange(6) if variant is None else variant
        try:
            if op in ("add_files", "add_license", "set_header"):
                arg = self.obj(call["o"])
                if op == "add_files":
                    r = doc.add_files_paragraph(arg) if v % 2 == 0 else doc.add_files_paragraph(paragraph=arg)
                elif op == "add_license":
                    r = doc.add_license_paragraph(arg) if v % 2 == 0 else doc.add_license_paragraph(paragraph=arg)
                else:
                    r = None
                    if v % 3 == 0:
                        doc.header = arg
                    elif v % 3 == 1:
                        setattr(doc, "header", arg)
                    else:
                        type(doc).header.fset(doc, arg)
                if r is not None:
                    return {"t": "?returned %r" % (r,), "e": "", "os": []}
                return {"t": "ok", "e": "", "os": []}
            if op == "touch":
                self.ntouch += 1
                o = self.obj(call["o"])
                if call["o"]["k"] in ("H", "F", "L"):
                    touch(rng, o, self.ntouch)
                return {"t": "ok", "e": "", "os": []}
            if op == "header":
                h = doc.header if v % 2 == 0 else type(doc).header.fget(doc)
                return {"t": "objs", "e": "", "os": [self.t(h)]}
            if op == "all":
                xs = list(doc.all_paragraphs()) if v % 2 == 0 else [x for x in doc.all_paragraphs()]
            elif op == "iter":
                xs = list(doc) if v % 3 == 0 else [x for x in iter(doc)] if v % 3 == 1 else list(doc.__iter__())
            elif op == "files":
                xs = list(doc.all_files_paragraphs())
            elif op == "licenses":
                xs = tuple(doc.all_license_paragraphs())
            elif op == "dump":
                return self.dump(doc, v)
            else:
                raise core.MachineryError("unknown call " + op)
            return {"t": "objs", "e": "", "os": [self.t(x) for x in xs]}
        except Exception as ex:      # noqa: BLE001
            if not core.raised_by_code_under_test(ex):
                raise
            return {"t": "err", "e": type(ex).__name__, "os": []}

    def dump(self, doc, v):
        """dump() in one of its forms; the text must be the dumps of the document's objects (as they are NOW),
        separated by empty lines: reported as the sequence of those objects, or as a mismatch"""
        form = v % 4
        if form == 0:
            text = doc.dump()
        elif form == 1:
            f = io.StringIO()
            r = doc.dump(f=f)
            text = f.getvalue() if r is None else "?returned %r" % (r,)
        elif form == 2:
            f = io.StringIO()
            r = doc.dump(f)
            text = f.getvalue() if r is None else "?returned %r" % (r,)
        else:
            if self.work:
                path = os.path.join(self.work, "dump-%d.txt" % self.rng.getrandbits(40))
                with open(path, "w", encoding="utf-8", newline="") as f:
                    doc.dump(f)
                with open(path, encoding="utf-8", newline="") as f:
                    text = f.read()
                os.unlink(path)
            else:
                text = doc.dump(None)
        objs = list(doc.all_paragraphs())
        ref = "\n".join(o.dump() for o in objs)
        if text != ref:
            return {"t": "?dump() form %d is not the dumps of the paragraphs joined by empty lines: %r" % (form, text[:300]), "e": "", "os": []}
        return {"t": "objs", "e": "", "os": [self.t(x) for x in objs]}


# ---------------------------------------------------------------------------------------------- symbols <-> characters
LB_CHARS = ["\r", "\x0b", "\x0c", "\x1c", "\x1d", "\x1e", "\x85", "\u2028", "\u2029"]
UWS_CHARS = ["\x1f", "\xa0", "\u1680", "\u2000", "\u2003", "\u2009", "\u202f", "\u205f", "\u3000"]
A_CHARS = list("abcxyz019*?/\\.-_+~<>@()[]{}|!#$%&=:;,'\"`^")
B_CHARS = ["\u00e9", "\u0301", "\u212b", "\u00c5", "\ufb01", "\uff21", "\u1100", "\u00df", "\u0130", "\u0131", "\u017f", "\u03c2", "\ufeff", "\u200b",
           "\u200d", "\u00ad", "\u200e", "\U0001f600", "\U0010ffff", "\U00010400", "\uf9d0"] + [chr(0x400 + i) for i in range(64)]


def classify(ch):
    """character -> symbol of spec/CopyrightConv.tla (the abstraction is character by character)"""
    if ch == "\n":
        return "n"
    if ch in LB_CHARS:
        return "k"
    if ch in " \t":
        return "s"
    if ch.isspace():
        return "u"
    return "a" if ord(ch) < 0x80 else "b"


def abstract(s):
    return [classify(c) for c in s]


def conc_sym(rng, sym, stress):
    """a non-empty string of the class of the symbol.  stress 0: one tame character; 1: odd characters;
    2: boundary lengths"""
    if sym == "n":
        return "\n"
    if stress == 0:
        return {"a": rng.choice("abcxyz*/"), "b": rng.choice(["\u00e9", "\u00df", "\u0416"]), "s": " ", "k": rng.choice(LB_CHARS), "u": "\xa0"}[sym]
    pool = {"a": A_CHARS, "b": B_CHARS, "s": [" ", "\t"], "k": LB_CHARS, "u": UWS_CHARS}[sym]
    if stress == 1:
        return "".join(rng.choice(pool) for _ in range(rng.choice([1, 1, 2, 3])))
    n = rng.choice([x for x in BOUNDARY if x <= (8193 if rng.random() < 0.1 else 257)]) if sym in "ab" else rng.choice([1, 2, 8, 17])
    if sym == "k":
        n = 1
    return "".join(rng.choice(pool) for _ in range(n))


def conc_text(rng, syms, stress):
    """-> list of pieces (one per symbol)"""
    return [conc_sym(rng, s, stress) for s in syms]


def cut(pieces, r):
    return "".join(pieces[r["lo"] - 1:r["hi"]])


def render(items_pieces, out):
    """the text TLC's token list stands for: ranges into the items, literal newline / blank"""
    buf = []
    for r in out:
        if r["i"] == 0:
            buf.append("\n" if r["lo"] == 0 else " ")
        else:
            buf.append(cut(items_pieces[r["i"] - 1], r))
    return "".join(buf)
