"""C07, payload layer (spec/DebPayload.tla): the control values and file names TLC enumerated at
character-class level, run through a real package in the frame the model uses
(control file  "Kk: <value>\\n[Ll: z\\n]",  md5sums file  "<h>  <name>\\n<g>  yy\\n").

* shapes TLC calls "exact" (CtlExact / Md5Exact hold): the real debcontrol() / md5sums() -- bytes and
  text flavour -- must return the packed text: a verdict;
* every other shape ("unspec": DESIGN D1 zone, leading white space of a name; "outside": not a value /
  name of the format) is run too and compared with the code-level prediction TLC printed: a
  difference is reported as drift, never as a violation.
Nothing here decides a verdict: expectations are the VAL / NAME lines."""
import random

import c07_build as B
from c07_obs import open_deb, drop, pick_how, obs_ctl, obs_md5, MD5_WAYS

H_SUM, G_SUM, Y_NAME = "0123456789abcdef0123456789abcdef", "f" * 32, "yy"
KEYS = {"K": "Kk", "L": "Ll"}


def _items(its, pieces, frame):
    return "".join(pieces[i["i"] - 1] if i["i"] else frame[i["s"]] for i in its)


def make_case(rnd, what, line, exact):
    """line: a VAL / NAME line (shape as a string of class letters) -> JSON-able case"""
    shape = line["v"] if what == "val" else line["nm"]
    if what == "val":
        pieces = B.conc_pieces(rnd, shape, B.X_VALUE if exact else B.X_VALUE_DIAG, long_run=rnd.random() < 0.03)
    else:
        pieces = B.conc_pieces(rnd, shape, B.X_NAME if B.UTF8_FS else B.X_NAME_ASCII, B.CLS if B.UTF8_FS else B.CLS_ASCII,
                               lens=(1, 2, 3, 6, 9), big=(16, 31))
    case = {"kind": "payload", "what": what, "shape": shape, "dom": line["dom"], "pieces": pieces,
            "last": rnd.random() < 0.5, "ext": rnd.choice(B.EXTS), "how": pick_how(rnd, 0.15),
            "md5way": rnd.choice(MD5_WAYS[2:]) if rnd.random() < 0.4 else rnd.choice(MD5_WAYS[:2])}
    if not exact:
        case["pred"] = ({"mid": line["mid"], "last": line["last"]} if what == "val"
                        else {"bytes": line["bytes"], "text": line["text"]})
    return case


def run_case(case, work):
    """-> (violation message or None, drift message or None)"""
    text = "".join(case["pieces"])
    exact = case["dom"] == "exact"
    if case["what"] == "val":
        fields = [(KEYS["K"], text)] + ([] if case["last"] else [(KEYS["L"], "z")])
        cfiles = [("control", B.render_control(fields)), ("md5sums", b"")]
    else:
        md5 = [(text, H_SUM), (Y_NAME, G_SUM)]
        cfiles = [("md5sums", B.render_md5(md5)), ("control", b"Package: p\n")]
    conc = B.Conc.concrete({}, [], cfiles, [], [])
    blob = B.build_deb([B.INFO, "control.tar" + ("." + case["ext"] if case["ext"] else ""), "data.tar"], conc)
    deb, st, path = open_deb(blob, case["how"], work)
    try:
        if st != "ok":
            return "payload package could not be opened: %s" % st, None
        if case["what"] == "val":
            err, got = obs_ctl(deb if case["last"] else deb.control)
            got = None if err else list(got.items())
            if exact:
                if err or got != fields:
                    return ("debcontrol() of the control file %r = %r, packed %r (value shape %r: CtlExact of "
                            "DebPayload.tla)" % (cfiles[0][1], err or got, fields, case["shape"])), None
                return None, None
            pr = case["pred"]["last" if case["last"] else "mid"]
            perr = "EXC:ValueError" if pr["err"] else ""
            exp = None if perr else [(KEYS[f["k"]], _items(f["val"], case["pieces"], {"n": "\n", "z": "z"})) for f in pr["fields"]]
            if err != perr or got != exp:
                return None, "control value of shape %r (%s): debcontrol() gives %r, the code-level model %r" % (
                    case["shape"], case["dom"], err or got, perr or exp)
            if case["dom"] == "unspec":
                case["note"] = "control value %r (shape %s, DESIGN D1: unspecified) -> debcontrol() %s" % (
                    text[:60], case["shape"], err or got)
            return None, None
        way = case["md5way"]
        flavour = "text" if way else "bytes"
        err, r = obs_md5(deb, way)
        got = None if err else r[0]
        if exact:
            exp = {text: H_SUM, Y_NAME: G_SUM}
            if err or got != exp:
                return ("md5sums(%r) of the list %r = %r, packed %r (name shape %r: Md5Exact of DebPayload.tla)"
                        % (way, cfiles[0][1], err or got, exp, case["shape"])), None
            return None, None
        if way and (way[0] if isinstance(way, list) else way) != "utf-8":
            return None, None       # the prediction is about code points: only the UTF-8 text flavour shows them
        pr = case["pred"][flavour]
        perr = "EXC:ValueError" if pr["err"] else ""
        fr = {"h": H_SUM, "g": G_SUM, "y": Y_NAME, "b": " ", "n": "\n"}
        exp = None if perr else {_items(e["key"], case["pieces"], fr): _items(e["sum"], case["pieces"], fr) for e in pr["entries"]}
        if err != perr or got != exp:
            return None, "file name of shape %r (%s): md5sums(%r) gives %r, the code-level model %r" % (
                case["shape"], case["dom"], way, err or got, perr or exp)
        if case["dom"] == "unspec":
            case["note"] = "file name %r (shape %s, leading white space: unspecified) -> md5sums(%r) %s" % (
                text[:60], case["shape"], way, err or sorted(k for k in got if k != Y_NAME))
        return None, None
    finally:
        if deb is not None:
            try:
                deb.close()
            except Exception:
                pass
        drop(path)


def work_payload(args):
    """pool worker: (seed, exact VAL lines, exact NAME lines, other VAL lines, other NAME lines, work)
    -> (cases run, failures [(key, message, case)], drifts, per-kind counts + observations of the unspecified zone)"""
    seed, ve, ne, vd, nd, work = args
    rnd = random.Random(seed)
    fails, drifts, count, notes = [], [], {}, {}
    for what, lines, exact in (("val", ve, True), ("name", ne, True), ("val", vd, False), ("name", nd, False)):
        for line in lines:
            case = make_case(rnd, what, line, exact)
            msg, drift = run_case(case, work)
            k = "%s:%s" % (what, line["dom"])
            count[k] = count.get(k, 0) + 1
            if msg:
                fails.append((k, msg, case))
            if drift:
                drifts.append(drift)
            if case.get("note") and len(notes.setdefault(what, [])) < 3:
                notes[what].append(case["note"])
    count["notes"] = notes
    return sum(v for k, v in count.items() if k != "notes"), fails, drifts[:20], count
