"""C16 -- size- and character-stressed concretizations (notes/SIZE_STRESS.md) of the abstract cases
TLC emits for spec/Glob.tla.  Nothing here decides a verdict: the expectation of an abstract case
carries over to its inflated concretization by two stated arguments.

(1) BLOCKS (checked by TLC itself for L = 3: invariant BlockInvariance of Glob.tla).  Every name
    symbol c becomes the block  marker(c) + P  with one pad string P of length L-1 shared by all
    blocks; a literal or escaped pattern symbol becomes the same block (escaped where needed), '?'
    becomes '?'*L and '*' stays (a trailing lone '*' may become a run of '*': a run of '*' is one
    '*').  Markers are distinct characters that never occur in P, so a marker occurs in an inflated
    name only at block starts: literal blocks match block-aligned only, '?'*L eats one block's
    worth of characters and '*' the rest -- GlobMatch is the same for every L >= 1; an illegal
    escape stays one (markers of literals are not special).
(2) FILLERS.  A well-formed pattern whose first token is the literal FILL never matches a name that
    does not start with FILL; names are built from markers and pads, never from FILL.  Adding any
    number of such patterns to a list (anywhere), or any number of paragraphs made of them to a
    document (anywhere), changes neither whether the list matches, nor whether it is well-formed,
    nor which of the ORIGINAL paragraphs is the last matching one.

Sizes are drawn from boundary neighbourhoods (1..4097 for blocks and single patterns, joined
lengths around 72/78/80/256/4096, 1..200 patterns per list, names up to 64 KiB, 100/1000
paragraphs); pads contain hyphenated words, dots, long runs of one character, non-NFC sequences,
zero-width and non-BMP characters."""

STAR, QM, BS, LF = 42, 63, 92, 10
FILL = "Z"
# block markers: never part of a pad, never FILL, not special, not whitespace; with NFC / case twins
MARKERS = list("ABCDEFGHIJKLMNOPQRSTUVWXY") + [
    "Å", "Å", "Ω", "Ω", "類", "類", "ﬁ", "Ａ", "İ", "ẞ",
    "Σ", "\U00010400", "\U0001f603", "\U0010ffff", "﻿", "̈", "ᄀ", "​"]
# (not NFC-stable, its precomposed / compatibility twin): as DIFFERENT literals of one case
TWINS = [("Å", "Å"), ("Ω", "Ω"), ("類", "類"), ("Ａ", "A"), ("İ", "I"), ("Σ", "S")]
PAD_WORDS = ["third", "party", "zlib", "ng", "src", "core", "x", "lib", "v1alpha1", "zz", "generated", "deepcopy",
             "go", "tar", "gz", "0", "42", "café", "café", "ß", "ſ", "ı", "ς",
             "a‍b", "soft­hy", "é", "하", "\U0001f600", "‎", "_", "+", "~"]
PAD_JOINTS = ["-", "-", "/", ".", "-", "_"]
BOUNDARY = [1, 2, 7, 8, 9, 15, 16, 17, 31, 32, 33, 63, 64, 65, 71, 72, 73, 77, 78, 79, 80, 81, 127, 128, 129,
            255, 256, 257, 1023, 1024, 1025, 4095, 4096, 4097]
COUNTS = [1, 2, 3, 9, 10, 11, 15, 16, 17, 31, 32, 33, 40, 63, 64, 65, 99, 100, 101, 199, 200]
# the number of patterns of a list, few / many: every single-pattern case TLC emits is replayed once within each
COUNTS_FEW = [2, 3, 7, 8, 9, 10, 11, 15]
COUNTS_MANY = [16, 17, 31, 32, 33, 40, 64, 65]
JOINED = [71, 72, 73, 77, 78, 79, 80, 81, 82, 255, 256, 257, 4095, 4096, 4097]
_PADCHARS = set("".join(PAD_WORDS) + "".join(PAD_JOINTS))
assert not (_PADCHARS & set(MARKERS)) and FILL not in _PADCHARS and FILL not in MARKERS
assert all(not c.isspace() and c not in "*?\\" for c in _PADCHARS | set(MARKERS) | {FILL})
assert len(set(MARKERS)) == len(MARKERS)


def pick(rng, table, cap):
    """heavy-tailed: mostly small, regularly a boundary value up to cap"""
    ok = [x for x in table if x <= cap]
    if rng.random() < 0.5:
        return rng.choice(ok[:max(1, len(ok) // 2)])
    return rng.choice(ok)


def make_pad(rng, n):
    """a pad string of exactly n characters over the pad alphabet"""
    if n <= 0:
        return ""
    kind = rng.random()
    if kind < 0.2:
        return rng.choice("xq0-._") * n if n > 1 else "x"
    out = []
    length = 0
    while length < n:
        w = rng.choice(PAD_WORDS) if kind < 0.8 else rng.choice(PAD_WORDS[:16])
        j = rng.choice(PAD_JOINTS)
        out.append(w + j)
        length += len(w) + len(j)
    s = "".join(out)[:n]
    return s


class SizeConc:
    """one size-stressed concretization (JSON-serialisable via to_json / from_json)"""

    def __init__(self, marker, pad, stars, fill_before, fill_after):
        self.marker = marker            # {literal model symbol -> marker character}
        self.pad = pad                  # P, length L-1
        self.stars = stars              # length of the run a trailing lone '*' becomes
        self.fill_before = fill_before  # filler patterns before / after the real ones
        self.fill_after = fill_after

    @property
    def L(self):
        return len(self.pad) + 1

    def to_json(self):
        return {"marker": {str(k): v for k, v in self.marker.items()}, "pad": self.pad, "stars": self.stars,
                "fill_before": self.fill_before, "fill_after": self.fill_after}

    @classmethod
    def from_json(cls, j):
        return cls({int(k): v for k, v in j["marker"].items()}, j["pad"], j["stars"], j["fill_before"], j["fill_after"])

    def _block(self, c):
        return (self.marker[c] if c in self.marker else chr(c)) + self.pad

    def name(self, cps):
        return "".join(self._block(c) for c in cps)

    def pattern(self, p):
        out = []
        i = 0
        nstar = sum(1 for c in p if c == STAR)
        while i < len(p):
            c = p[i]
            i += 1
            if c == STAR:
                lone_tail = (i == len(p) and nstar == 1 and (len(p) < 2 or p[-2] != BS))
                out.append("*" * (self.stars if lone_tail else 1))
            elif c == QM:
                out.append("?" * self.L)
            elif c == BS:
                if i < len(p):
                    x = p[i]
                    i += 1
                    out.append("\\" + ((self.marker[x] if x in self.marker else chr(x)) + self.pad))
                else:
                    out.append("\\")
            else:
                out.append(self._block(c))
        return "".join(out)

    def patterns(self, ps):
        return list(self.fill_before) + [self.pattern(p) for p in ps] + list(self.fill_after)


def make_filler(rng, n):
    """a WELL-FORMED pattern of about n characters whose first token is the literal FILL (built from
    whole tokens only, so well-formed by construction); never matches a name not starting with FILL"""
    out = [FILL]
    length = 1
    while length < n:
        r = rng.random()
        if r < 0.55:
            t = rng.choice(PAD_WORDS) + rng.choice(PAD_JOINTS + [""])
        elif r < 0.7:
            t = "*" * rng.choice([1, 1, 2, 3])
        elif r < 0.85:
            t = "?" * rng.choice([1, 2, 5, 17])
        else:
            t = "\\" + rng.choice("*?\\")
        if length + len(t) > n and not t.startswith("\\"):
            t = t[:n - length]
        out.append(t)
        length += len(t)
    return "".join(out)


def size_conc(rng, literals, mode, nreal=1, has_qm=False, count=None):
    """mode: 'fill' (many patterns / joined-length boundaries), 'block' (long patterns and names),
    'huge' (names up to 64 KiB); count: the total number of patterns of the list (mode 'fill'), drawn if None"""
    tw = rng.choice(TWINS) if rng.random() < 0.35 else None
    ms = rng.sample(MARKERS, len(literals))
    if tw:
        ms[0], ms[1 % len(ms)] = tw[0], tw[1]
        if len(set(ms)) != len(ms):
            ms = rng.sample(MARKERS, len(literals))
    marker = dict(zip(literals, ms))
    if count is not None:       # the number of patterns is the stressed dimension: everything else stays small
        pad = make_pad(rng, rng.choice([0, 0, 1]))
        fillers = [make_filler(rng, rng.choice([2, 3, 5, 8])) for _ in range(max(0, count - nreal))]
        k = rng.randint(0, len(fillers))
        return SizeConc(marker, pad, rng.choice([1, 1, 2, 3]), fillers[:k], fillers[k:])
    if mode == "huge":
        L = rng.choice([21845, 21846, 32768]) if not has_qm else rng.choice([4096, 4097])
    elif mode == "block":
        L = pick(rng, BOUNDARY, 4097)
    else:
        L = rng.choice([1, 1, 2, 8, 17])
    pad = make_pad(rng, L - 1)
    stars = rng.choice([1, 1, 2, 3, 17, 80, 257])
    if mode == "fill":
        nfill = max(0, pick(rng, COUNTS, 200) - nreal)
    else:
        nfill = rng.choice([0, 0, 1, 2, 9])
    fillers = [make_filler(rng, rng.choice([2, 3, 5, 8, 13, 21])) for _ in range(nfill)]
    if nfill and rng.random() < 0.3:
        fillers[rng.randrange(nfill)] = make_filler(rng, pick(rng, [79, 80, 81, 255, 256, 257, 1023, 4096, 4097], 4097))
    k = rng.randint(0, nfill)
    return SizeConc(marker, pad, stars, fillers[:k], fillers[k:])


def hit_joined(rng, sc, ps):
    """stretch one filler so that the blank-joined length of the whole list lands on a boundary"""
    pats = sc.patterns(ps)
    joined = sum(len(p) for p in pats) + len(pats) - 1
    targets = [t for t in JOINED if t >= joined + 1]
    fl = sc.fill_before if sc.fill_before else sc.fill_after
    if not targets or not fl:
        return
    t = rng.choice(targets[:6])
    i = rng.randrange(len(fl))
    fl[i] = fl[i] + make_pad(rng, t - joined)


def filler_paragraphs(rng, n):
    return [[make_filler(rng, rng.choice([2, 4, 9, 30])) for _ in range(rng.choice([1, 1, 2, 3]))] for _ in range(n)]
