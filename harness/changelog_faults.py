"""Faults of caller-supplied inputs for the changelog checks (C04; notes/SIZE_STRESS.md part 5).

A parse whose INPUT fails at one step: the iterator / file object the caller handed over raises at the first, a
middle or the last line (OSError, ValueError, KeyError, a private exception class), or the input ends early -- at
a line end, inside a line, inside a multi-byte character (truncated file, short read).  Such a call is NEVER
judged (whatever comes out: the caller's exception, UnicodeDecodeError, ChangelogParseError, warnings); it is a
STEP of the history: the parses that follow -- by the same object, by other objects, by new objects, in every
input form -- must show what the specification says (Changelog.tla: rs.carry in FaultKinds, KeptTail,
InputIntact, ParseIsHistoryFree; negative control Bug = "DecoderTail").

Nothing in here decides a verdict: a fault step only changes what the process / the object went through before
the judged parse.
"""
import changelog_common as cc

FAULT_KINDS = ("exc", "eofLine", "eofInLine", "eofInChar")          # Changelog!FaultKinds, in this order in traces (x = 1 .. 4)
FAULT_EXCS = ("OSError", "ValueError", "KeyError", "CallerFault")
# how a text reaches the parser, by the specification's input-form classes (Changelog!InputForms)
BYTE_LINE_FORMS = ("bytesio", "list_bytes", "file_bin", "file_unbuf", "short_reads", "gzip", "bz2", "lzma", "spooled", "iter_bytes")
STR_LINE_FORMS = ("stringio", "file", "list_nl", "list", "iter", "tuple", "textwrap")
F2_FORMS = {"text": ("str", "bytes"), "lines": STR_LINE_FORMS, "blines": BYTE_LINE_FORMS}
FAST_BYTE_FORMS = ("bytesio", "list_bytes", "short_reads", "spooled", "iter_bytes")
MULTI = " Ü中\U0001f600Ж"          # 2-, 3-, 4- and 2-byte characters (appended to an all-ASCII line that is to be cut)
OTHER = cc.OTHER_TEXT.replace("O T", "Ó Té").replace("* other", "* über 中文 \U0001f600")

STATS = {}          # (kind, what came out) -> number of fault steps (evidence only)


class CallerFault(Exception):
    """private exception class of the harness' faulting inputs"""


def _exc(name):
    return {"OSError": OSError(5, "Input/output error (injected)"), "ValueError": ValueError("injected"),
            "KeyError": KeyError("injected"), "CallerFault": CallerFault("injected")}[name]


class FaultyLines(object):
    """faulting twin of a source of lines: hands out the items of `src` and raises `exc` INSTEAD of item number `at`
    (0-based; once -- afterwards it would carry on), through whatever a reader uses: iteration, readline(),
    readlines(), read()"""

    def __init__(self, src, at, exc):
        self._src, self._it, self._at, self._exc, self._n, self._empty = src, iter(src), at, exc, 0, ""

    def __iter__(self):
        return self

    def __next__(self):
        n = self._n
        self._n += 1
        if n == self._at:
            raise self._exc
        x = next(self._it)
        if isinstance(x, bytes):
            self._empty = b""
        return x

    def readline(self, *_a):
        try:
            return next(self)
        except StopIteration:
            return self._empty

    def readlines(self, *_a):
        return list(self)

    def read(self, *_a):
        items = list(self)
        return self._empty.join(items)

    def close(self):
        cc.close_source(self._src)


def make_byte_source(data, form):
    """like cc.make_source for input that is BYTES already (it need not be valid UTF-8): the whole-bytes form and
    every form that yields byte lines"""
    import io
    if form == "bytes":
        return data
    if form == "bytesio":
        return io.BytesIO(data)
    lines = [l + b"\n" for l in data.split(b"\n")[:-1]] + ([data.split(b"\n")[-1]] if not data.endswith(b"\n") and data else [])
    if form == "list_bytes":
        return lines
    if form == "iter_bytes":
        return (l for l in lines)
    import tempfile
    if form in ("file_bin", "file_unbuf", "spooled"):
        f = (tempfile.TemporaryFile("w+b") if form == "file_bin" else tempfile.TemporaryFile("w+b", buffering=0) if form == "file_unbuf"
             else tempfile.SpooledTemporaryFile(max_size=4096, mode="w+b"))
        f.write(data)
        f.seek(0)
        return f
    if form == "short_reads":
        return cc.ShortRaw.open(data)
    if form == "gzip":
        import gzip
        under = tempfile.TemporaryFile("w+b")
        under.write(gzip.compress(data, 1))
        under.seek(0)
        g = gzip.GzipFile(fileobj=under, mode="rb")
        g._verif_under = under
        return g
    if form == "bz2":
        import bz2
        return bz2.BZ2File(io.BytesIO(bz2.compress(data, 1)))
    if form == "lzma":
        import lzma
        return lzma.LZMAFile(io.BytesIO(lzma.compress(data, preset=0)))
    raise AssertionError(form)


def fault_plan(rng, kind=None, fast=True):
    """one fault step, JSON-serialisable: kind (FAULT_KINDS), at = 0 / 1 / 2 (first, a middle, the last line), exc
    (for kind "exc"), form of the faulted input, strict, ctor (constructor or parse_changelog of a new object),
    cut (which multi-byte character / how many of its bytes arrive), other (a different text than the judged one)"""
    kind = kind or rng.choice(FAULT_KINDS + ("eofInChar",))
    if kind == "exc":
        forms = cc.BASE_LINES
    elif kind == "eofInChar":
        forms = (FAST_BYTE_FORMS if fast and rng.random() < 0.8 else BYTE_LINE_FORMS) + ("bytes",)
    else:
        forms = cc.BASE_TEXT + cc.BASE_LINES
    form = rng.choice(forms)
    if fast and form in cc.SLOW_FORMS and rng.random() < 0.7:
        form = rng.choice([f for f in forms if f not in cc.SLOW_FORMS])
    return dict(kind=kind, at=rng.choice([0, 1, 1, 2, 2]), exc=rng.choice(FAULT_EXCS), form=form, strict=rng.random() < 0.6,
                ctor=rng.random() < 0.5, cut=rng.randrange(12), other=rng.random() < 0.3)


def fault_input(plan, text):
    """-> the faulting source for `text` (a str ending in a newline)"""
    lines = text.split("\n")[:-1] if text.endswith("\n") else text.split("\n")
    if not lines:
        lines = [""]
    n = len(lines)
    k = {0: 0, 1: n // 2, 2: n - 1}[plan["at"]]
    kind, form = plan["kind"], plan["form"]
    if kind == "exc":
        return FaultyLines(cc.make_source(cc.join(lines), form), k, _exc(plan["exc"]))
    if kind == "eofLine":
        return cc.make_source(cc.join(lines[:max(1, k)]), form)
    if kind == "eofInLine":
        cutline = lines[k] if len(lines[k]) > 1 else lines[k] + "  * cut here"
        return cc.make_source(cc.join(lines[:k]) + cutline[:max(1, (len(cutline) * (1 + plan["cut"] % 3)) // 4)], form)
    assert kind == "eofInChar", kind
    cutline = lines[k]
    wide = [i for i, ch in enumerate(cutline) if ord(ch) > 127]
    if not wide:
        cutline = (cutline if cutline.strip() else "  * cut") + MULTI
        wide = [i for i, ch in enumerate(cutline) if ord(ch) > 127]
    i = wide[plan["cut"] % len(wide)]
    enc = cutline[i].encode("utf-8")
    data = cc.join(lines[:k]).encode("utf-8") + cutline[:i].encode("utf-8") + enc[:1 + (plan["cut"] // 3) % (len(enc) - 1)]
    return make_byte_source(data, form)


def do_fault(plan, text, cl=None):
    """perform one fault step: the faulting input is parsed -- by `cl` (parse_changelog of an object of the history) or
    by a new object -- and whatever happens stays in here.  -> what came out (name of the exception / "returned")"""
    from debian.changelog import Changelog
    if plan.get("other"):
        text = OTHER
    src = None
    with cc.capture():
        try:
            src = fault_input(plan, text)
            if cl is None and plan["ctor"]:
                Changelog(src, strict=plan["strict"])
            else:
                (cl if cl is not None else Changelog()).parse_changelog(src, strict=plan["strict"])
            out = "returned"
        except Exception as e:          # never judged
            out = type(e).__name__
        finally:
            if src is not None:
                cc.close_source(src)
    STATS[(plan["kind"], out)] = STATS.get((plan["kind"], out), 0) + 1
    return out


class FaultyWriter(object):
    """a file object whose k-th write() raises (k = 0: the first) or, short = True, accepts only half of the text and
    returns that count; what was written is kept in .parts"""

    def __init__(self, at, exc, short=False):
        self.at, self.exc, self.short, self.n, self.parts = at, exc, short, 0, []

    def write(self, text):
        n = self.n
        self.n += 1
        if n == self.at:
            if self.short:
                self.parts.append(text[:len(text) // 2])
                return len(text) // 2
            raise self.exc
        self.parts.append(text)
        return len(text)

    def writelines(self, lines):
        for l in lines:
            self.write(l)

    def flush(self):
        pass


def do_write_fault(cl, how):
    """write_to_open_file() into a file object that fails (never judged): formatting reads the document, so whatever
    the writer does the object is what it was (TraceChangelog: op FmtFail).  -> what came out"""
    w = FaultyWriter(at=how % 2, exc=_exc(FAULT_EXCS[how % 4]), short=(how % 3 == 0))
    try:
        cl.write_to_open_file(w)
        out = "returned"
    except Exception as e:
        out = type(e).__name__
    STATS[("write", out)] = STATS.get(("write", out), 0) + 1
    return out


def describe(plan):
    return "%s%s at the %s line of a %s input, %s%s" % (
        {"exc": "its iterator raised ", "eofLine": "it ended early at a line end", "eofInLine": "it ended early inside a line",
         "eofInChar": "it ended early inside a multi-byte character"}[plan["kind"]],
        plan["exc"] if plan["kind"] == "exc" else "", ("first", "middle", "last")[plan["at"]], plan["form"],
        "strict" if plan["strict"] else "lenient", ", another text" if plan.get("other") else "")


def stats():
    out = {}
    for (kind, what), n in sorted(STATS.items()):
        out.setdefault(kind, {})[what] = n
    return out
