"""C06 helper: every KIND of file object ArFile(fileobj=...) accepts (notes/SIZE_STRESS.md part 4).

The specification (spec/ArMember.tla, variable fdk) classifies a shared file object by what is
underneath it -- no descriptor ("none"), a regular file holding exactly the stream ("same"), a
descriptor naming a smaller / larger file than the stream ("less" / "more") -- and says that nothing
the archive reader returns depends on it.  This module builds real file objects of every class over
the same archive bytes:

  kind         class   what it is
  bytesio      none    io.BytesIO(blob)
  shortraw     none    io.BufferedReader over a RawIOBase returning SHORT reads (1..7 bytes per call), no fileno()
  tarmember    none    tarfile.TarFile.extractfile(): the archive stored as a member of an uncompressed tar file
  zipmember    none    zipfile.ZipFile.open(): the archive as a (stored or deflated) member of a zip file -- only for
                       archives of <= 500 bytes: ZipExtFile.readline(limit) of CPython 3.12 overshoots the limit on lines
                       longer than its 512-byte peek() chunks (IOBase.readline counts the limit per chunk), i.e. the
                       file object itself breaks the readline contract ArMember relies on: out of domain beyond that
  file         same    open(path, "rb") (buffered)
  file0        same    open(path, "rb", buffering=0) (unbuffered io.FileIO)
  shortfile    same    io.BufferedReader (small buffer) over a short-read raw stream on a real file, fileno() forwarded
  spooled      same    tempfile.SpooledTemporaryFile kept in memory (fileno() would roll it over to a real file)
  spooledroll  same    tempfile.SpooledTemporaryFile rolled over to disk
  gzip         other   gzip.GzipFile over the compressed archive: fileno() names the COMPRESSED file
  bz2          other   bz2.BZ2File, likewise
  lzma         other   lzma.LZMAFile, likewise
  window       more    io.BufferedReader over a raw window [start, start+len) into a larger container file whose
                       descriptor fileno() forwards

"other": smaller than the stream when the archive compresses ("less"), larger for tiny / incompressible
archives ("more"); the measured relation is what the evidence records.  Out of domain: non-seekable streams
(ArFile seeks), raw streams whose read(n) returns short (the header reader needs 60 bytes from one read),
mmap objects (readline() takes no size argument), text-mode files.

Files are created once per archive under ctx.work and re-used by all sessions over that archive.
"""
import bz2
import gzip
import io
import lzma
import os
import tarfile
import tempfile
import zipfile
import zlib

# kind -> (class by descriptor, largest archive in bytes the kind is used for: unbuffered readline is one
# system call per byte, bz2 and the short-read streams are slow on megabytes)
KINDS = {
    "bytesio": ("none", None), "shortraw": ("none", 300000), "tarmember": ("none", None), "zipmember": ("none", 500),
    "file": ("same", None), "file0": ("same", 200000), "shortfile": ("same", 300000), "spooled": ("same", None),
    "spooledroll": ("same", None),
    "gzip": ("other", None), "bz2": ("other", 600000), "lzma": ("other", None),
    "window": ("more", None),
}
ROTATION = ["bytesio", "gzip", "file", "shortraw", "bz2", "file0", "tarmember", "lzma", "shortfile", "zipmember",
            "window", "spooled", "gzip", "spooledroll"]
PATH_BACKED = ["file", "file0", "shortfile"]       # kinds that read the file stored under a given path itself


class ShortRaw(io.RawIOBase):
    """raw stream over `base` (io.BytesIO or io.FileIO) whose readinto returns at most 1..7 (x scale) bytes"""

    def __init__(self, base, scale=1, forward_fileno=False):
        io.RawIOBase.__init__(self)
        self._base = base
        self._i = 0
        self._scale = scale
        self._fwd = forward_fileno

    def readable(self):
        return True

    def seekable(self):
        return True

    def readinto(self, b):
        self._i += 1
        n = min(len(b), (1 + (self._i * 5 + 3) % 7) * self._scale)
        data = self._base.read(n)
        b[:len(data)] = data
        return len(data)

    def seek(self, off, whence=0):
        return self._base.seek(off, whence)

    def tell(self):
        return self._base.tell()

    def fileno(self):
        if not self._fwd:
            raise io.UnsupportedOperation("fileno")
        return self._base.fileno()

    def close(self):
        try:
            self._base.close()
        finally:
            io.RawIOBase.close(self)


class WindowRaw(io.RawIOBase):
    """raw window [start, start + length) into the container file `base` (an io.FileIO); fileno() is the
    container's descriptor"""

    def __init__(self, base, start, length):
        io.RawIOBase.__init__(self)
        self._base = base
        self._start = start
        self._len = length
        self._pos = 0

    def readable(self):
        return True

    def seekable(self):
        return True

    def readinto(self, b):
        n = max(0, min(len(b), self._len - self._pos))
        if n == 0:
            return 0
        self._base.seek(self._start + self._pos)
        data = self._base.read(n)
        b[:len(data)] = data
        self._pos += len(data)
        return len(data)

    def seek(self, off, whence=0):
        p = off if whence == 0 else self._pos + off if whence == 1 else self._len + off
        if p < 0:
            raise OSError("negative seek position")
        self._pos = p
        return p

    def tell(self):
        return self._pos

    def fileno(self):
        return self._base.fileno()

    def close(self):
        try:
            self._base.close()
        finally:
            io.RawIOBase.close(self)


class Forms:
    """the files holding one archive in its various forms; created lazily, evicted oldest-first"""
    live = []            # Forms objects with files on disk, oldest first
    total = [0]
    serial = [0]
    CAP = 48 << 20

    def __init__(self, ctx, blob):
        self.blob = blob
        self.paths = {}
        self.bytes = 0
        Forms.serial[0] += 1
        self.serial = Forms.serial[0]                       # file names
        self.n = zlib.crc32(blob[:4096]) + len(blob)        # variant choices: a function of the archive, so that a
                                                            # recorded case replays through the very same file object
        self.dir = os.path.join(ctx.work, "fobj")
        os.makedirs(self.dir, exist_ok=True)

    def _register(self, size):
        if not self.bytes:
            Forms.live.append(self)
        self.bytes += size
        Forms.total[0] += size
        while Forms.total[0] > Forms.CAP and Forms.live and Forms.live[0] is not self:
            Forms.live.pop(0).drop()

    def drop(self):
        for v in self.paths.values():
            try:
                os.unlink(v[0] if isinstance(v, tuple) else v)
            except OSError:
                pass
        Forms.total[0] -= self.bytes
        self.paths = {}
        self.bytes = 0

    def path(self, form):
        if form in self.paths:
            return self.paths[form]
        blob = self.blob
        big = len(blob) > 200000
        p = os.path.join(self.dir, "a%06d.%s" % (self.serial, form))
        res = p
        if form == "ar":
            data = blob
        elif form == "gz":
            data = gzip.compress(blob, 1 if big else 6, mtime=0)
        elif form == "bz2":
            data = bz2.compress(blob, 1 if big else 9)
        elif form == "xz":
            data = lzma.compress(blob, preset=0 if big else 6)
        elif form == "box":          # container: a prefix, the archive, a suffix
            start = [1, 60, 511, 512, 4096 - 8, 8192 - 68][self.n % 6]
            data = b"\x7fBOX" * (start // 4) + b"!" * (start % 4) + blob + b"!<arch>\ntrailer" * (self.n % 3)
            res = (p, start)
        elif form == "tar":
            data = None
            with tarfile.open(p, "w", format=tarfile.GNU_FORMAT) as t:
                for name, d in (("first.txt", b"x" * (self.n % 700)), ("pool/x.deb", blob), ("last", b"!<arch>\n")):
                    ti = tarfile.TarInfo(name)
                    ti.size = len(d)
                    t.addfile(ti, io.BytesIO(d))
        elif form == "zip":
            data = None
            with zipfile.ZipFile(p, "w", zipfile.ZIP_DEFLATED if self.n % 2 else zipfile.ZIP_STORED) as z:
                z.writestr("first.txt", b"y" * (self.n % 300))
                z.writestr("pool/x.deb", blob)
        else:
            raise ValueError(form)
        if data is not None:
            with open(p, "wb") as f:
                f.write(data)
        self.paths[form] = res
        self._register(os.path.getsize(p))
        return res


# ---- where the archive starts in the caller's file object (spec/ArMember.tla, variable base): ArFile(fileobj=f) reads
# from the CURRENT position of f.  A stream "prefix + archive" is presented by any kind above (Forms over that stream)
# and handed over positioned at len(prefix).  The prefix is a function of its length (a recorded mode "shared:gzip@15"
# replays the same bytes) and looks like ar data: a reader that rewinds the file object meets a decoy archive.
PREFIXES = {1: [1, 15, 8191, 61, 513, 7, 65537, 59], 2: [512, 8, 60, 68, 8192, 2, 4096, 131072]}     # base class of the model -> lengths
PREFIX_ROT = [15, 512, 1, 8191, 8, 68, 61, 4096, 513, 60, 2, 8192, 7, 65537]


def prefix_bytes(n):
    unit = b"!<arch>\n" + b"%-16s%-12d%-6d%-6d%-8o%-10d`\n" % (b"decoy/", 0, 0, 0, 0o644, 6) + b"decoy\n"
    return (unit * (n // len(unit) + 1))[:n]


_rot = [0]


def pick_kind(size, fd=None):
    """next kind of the rotation usable for an archive of `size` bytes; fd = the class the specification's
    case asks for ("none" / "same" / "less" / "more"; None: any)"""
    want = {"none": ("none",), "same": ("same",), "less": ("other",), "more": ("more", "other")}.get(fd)
    for _ in range(2 * len(ROTATION)):
        _rot[0] += 1
        k = ROTATION[_rot[0] % len(ROTATION)]
        cls, cap = KINDS[k]
        if cap is not None and size > cap:
            continue
        if want is not None and cls not in want:
            continue
        return k
    return "bytesio" if fd in (None, "none") else "file"


COMPRESSED = {"gzip": "gz", "bz2": "bz2", "lzma": "xz"}


def pick_kind_for(forms, fd):
    """like pick_kind for the class `fd` of a specification case, but for "less" / "more" the compressors are
    tried in rotation order until the compressed file really is smaller / larger than the archive (tiny archives
    do not shrink; then the first candidate is kept and the measured relation differs from the requested one).
    Returns (kind, measured relation or None)."""
    size = len(forms.blob)
    first = pick_kind(size, fd)
    if fd not in ("less", "more") or first not in COMPRESSED:
        return first, None
    k = first
    for _ in range(3):
        n = os.path.getsize(forms.path(COMPRESSED[k]))
        if (n < size) == (fd == "less") and n != size:
            return k, fd
        k = {"gzip": "bz2", "bz2": "lzma", "lzma": "gzip"}[k]
    if fd == "more":
        return "window", "more"          # a window into a container file always has the larger file underneath
    return first, "more"


def open_kind(ctx, forms, kind, path=None):
    """-> (file object positioned at 0 presenting forms.blob, list of things to close afterwards).
    path: for the PATH_BACKED kinds, read this file (whatever it holds) instead of the cached copy."""
    blob = forms.blob
    scale = max(1, len(blob) // 16384)
    if kind == "bytesio":
        return io.BytesIO(blob), []
    if kind == "shortraw":
        f = io.BufferedReader(ShortRaw(io.BytesIO(blob), scale), buffer_size=(16, 512, 8192)[forms.n % 3])
        return f, [f]
    if kind == "file":
        f = open(path or forms.path("ar"), "rb")
        return f, [f]
    if kind == "file0":
        f = open(path or forms.path("ar"), "rb", buffering=0)
        return f, [f]
    if kind == "shortfile":
        f = io.BufferedReader(ShortRaw(io.FileIO(path or forms.path("ar"), "r"), scale, forward_fileno=True),
                              buffer_size=(64, 4096, 8192)[forms.n % 3])
        return f, [f]
    if kind in ("spooled", "spooledroll"):
        f = tempfile.SpooledTemporaryFile(max_size=(1 << 30) if kind == "spooled" else 1, dir=forms.dir)
        f.write(blob)
        f.seek(0)
        return f, [f]
    if kind == "gzip":
        if forms.n % 2:
            f = gzip.GzipFile(forms.path("gz"), "rb")
            return f, [f]
        raw = open(forms.path("gz"), "rb")
        f = gzip.GzipFile(fileobj=raw, mode="rb")
        return f, [f, raw]
    if kind == "bz2":
        f = bz2.BZ2File(forms.path("bz2"), "rb")
        return f, [f]
    if kind == "lzma":
        f = lzma.LZMAFile(forms.path("xz"), "rb")
        return f, [f]
    if kind == "window":
        p, start = forms.path("box")
        f = io.BufferedReader(WindowRaw(io.FileIO(p, "r"), start, len(blob)))
        return f, [f]
    if kind == "tarmember":
        t = tarfile.open(forms.path("tar"), "r:")
        f = t.extractfile("pool/x.deb")
        return f, [f, t]
    if kind == "zipmember":
        z = zipfile.ZipFile(forms.path("zip"), "r")
        f = z.open("pool/x.deb")
        return f, [f, z]
    raise ValueError("unknown file-object kind %r" % (kind,))


def fd_relation(f, size):
    """what is underneath f, measured: 'none' | 'same' | 'less' | 'more' (diagnostic for the evidence; a
    spooled file is not asked: fileno() would roll it over)"""
    if isinstance(f, tempfile.SpooledTemporaryFile):
        return "same"
    try:
        n = os.fstat(f.fileno()).st_size
    except (AttributeError, OSError, ValueError):
        return "none"
    return "same" if n == size else "less" if n < size else "more"


# ------------------------------------------------------------------ faults of the caller's file object
# (notes/SIZE_STRESS.md part 5).  ArFile(fileobj=f) works on a file object the CALLER supplies; FaultProxy presents
# any of the kinds above and, when armed for the duration of ONE call on the archive / a member, fails at a chosen
# step of that call: the at-th invocation of seek / read / readline / tell raises the given exception object (before
# doing anything, or -- after=True -- once the underlying operation has moved the stream), or the at-th read /
# readline returns SHORT (only `keep` bytes, the stream positioned behind them; keep = 0 is an early end of file).
# Otherwise everything is forwarded unchanged (attributes such as fileno / name / mode / closed included).

class InjectedFault(Exception):
    """a private exception class no library code knows about"""


FAULT_EXC = {"OSError": lambda: OSError(5, "Input/output error (injected)"),
             "ValueError": lambda: ValueError("I/O operation on closed file. (injected)"),
             "KeyError": lambda: KeyError("injected"),
             "EOFError": lambda: EOFError("Compressed file ended before the end-of-stream marker was reached (injected)"),
             "private": lambda: InjectedFault("injected"),
             "InterruptedError": lambda: InterruptedError(4, "Interrupted system call (injected)")}


class FaultProxy(object):
    def __init__(self, inner):
        self._inner = inner
        self._plan = None
        self._n = 0
        self.fired = None        # None | ("raise", exception object, method, step) | ("short", asked, kept, method, step)
        self.calls = 0           # invocations seen while armed (evidence: how many steps the call had)

    def arm(self, plan):
        """plan: {"at": j >= 1, "exc": name of FAULT_EXC, "after": bool} or {"at": j, "short": bytes to keep}"""
        self._plan = dict(plan)
        self._n = 0
        self.calls = 0
        self.fired = None

    def disarm(self):
        self._plan = None
        f = self.fired
        self.fired = None
        return f

    def _step(self, name, call, reading):
        plan = self._plan
        if plan is None or self.fired is not None:
            return call()
        self.calls += 1
        short = "short" in plan
        if short and not reading:
            return call()
        self._n += 1
        if self._n != plan["at"]:
            return call()
        if short:
            start = self._inner.tell()
            data = call()
            keep = plan["short"]
            if keep < 0:                      # -1: all but the last byte
                keep = max(0, len(data) + keep)
            if len(data) <= keep:
                return data                   # nothing to cut: not a fault
            self._inner.seek(start + keep)
            self.fired = ("short", len(data), keep, name, self._n)
            return data[:keep]
        exc = FAULT_EXC[plan["exc"]]()
        self.fired = ("raise", exc, name, self._n)
        if plan.get("after"):
            call()
        raise exc

    def seek(self, *a, **k):
        return self._step("seek", lambda: self._inner.seek(*a, **k), False)

    def tell(self):
        return self._step("tell", lambda: self._inner.tell(), False)

    def read(self, *a, **k):
        return self._step("read", lambda: self._inner.read(*a, **k), True)

    def readline(self, *a, **k):
        return self._step("readline", lambda: self._inner.readline(*a, **k), True)

    def __getattr__(self, name):
        return getattr(self._inner, name)

    def __iter__(self):
        return iter(self._inner)


def chained(err, exc):
    """is `exc` the exception `err` or chained to it (raise ... from / implicit context)?"""
    seen = 0
    while err is not None and seen < 10:
        if err is exc:
            return True
        err = err.__cause__ or err.__context__
        seen += 1
    return False
