"""C02 helper -- the TRANSPORT of a document (spec/Deb822Stream.tla; notes/SIZE_STRESS.md part 4).

Kinds of file objects through which the same lines reach the reader, and the block-boundary alignment plan.
Nothing here decides a verdict: the expected result of a document is the parse TLC gave for its abstract case,
whatever the kind of file object and wherever the block boundaries fall (StreamLines / StreamParse).
"""
import bz2
import gzip
import io
import lzma
import tempfile

# ---------------------------------------------------------------- kinds of file objects
# binary kinds (lines come out as bytes) and text kinds (str); "small" kinds cost one Python call per byte or so
BINARY_KINDS = ("file_b0", "buf_short", "gzip", "spool_b", "bz2", "raw_short", "gzip_file", "lzma", "spool_b_disk", "buf_tiny")
TEXT_KINDS = ("text_short", "gzip_t", "spool_t", "file_t_short")
KINDS = BINARY_KINDS + TEXT_KINDS
SMALL_ONLY = {"raw_short": 5000, "file_b0": 9000, "bz2": 70000, "lzma": 70000, "buf_tiny": 20000}
FALLBACK = {"raw_short": "buf_short", "file_b0": "buf_short", "bz2": "gzip", "lzma": "gzip", "buf_tiny": "buf_short"}


class ShortRaw(io.RawIOBase):
    """a raw stream that returns SHORT reads, deterministic: 1..7 bytes per call for data below 2 KiB, a mix of such
    tiny reads and reads of odd sizes up to about 4 KiB (large data: 8 KiB / 64 KiB) otherwise"""
    MEDIUM = (1, 7, 509, 3, 61, 2, 4093, 5, 1021, 4, 6, 127, 4096, 1)
    LARGE = (4095, 1, 8191, 7, 4097, 3, 8193, 5, 65535, 2, 8192, 6, 4096, 4)

    def __init__(self, data):
        super().__init__()
        self._d = data
        self._p = 0
        self._n = 0
        self._pat = None if len(data) < 2048 else self.MEDIUM if len(data) <= 20000 else self.LARGE

    def readable(self):
        return True

    def readinto(self, b):
        left = len(self._d) - self._p
        if left <= 0:
            return 0
        self._n += 1
        want = self._pat[self._n % len(self._pat)] if self._pat else (self._n * 5 + self._p) % 7 + 1
        k = min(len(b), want, left)
        b[:k] = self._d[self._p:self._p + k]
        self._p += k
        return k


def kind_for(kind, nbytes):
    """the kind itself, or a cheaper relative when the data is too large for it"""
    while kind in SMALL_ONLY and nbytes > SMALL_ONLY[kind]:
        kind = FALLBACK[kind]
    return kind


def open_kind(kind, data, enc, scratch_file, scratch_dir):
    """data (bytes) behind a file object of the given kind, positioned at the start.
    scratch_file(bytes) -> path of a new scratch file; scratch_dir: directory for spooled files"""
    kind = kind_for(kind, len(data))
    if kind == "file_b0":                                   # a real file, unbuffered (io.FileIO)
        return open(scratch_file(data), "rb", buffering=0)
    if kind == "buf_short":                                 # BufferedReader over a raw stream with short reads
        return io.BufferedReader(ShortRaw(data))
    if kind == "buf_tiny":                                  # ... with a buffer smaller than most lines
        return io.BufferedReader(ShortRaw(data), buffer_size=16)
    if kind == "raw_short":                                 # the raw stream itself
        return ShortRaw(data)
    if kind == "gzip":
        return gzip.GzipFile(fileobj=io.BytesIO(gzip.compress(data, 1)), mode="rb")
    if kind == "gzip_file":                                 # seekable; fileno() names the COMPRESSED file
        return gzip.GzipFile(scratch_file(gzip.compress(data, 1)), "rb")
    if kind == "bz2":
        return bz2.BZ2File(io.BytesIO(bz2.compress(data, 1)), "rb")
    if kind == "lzma":
        return lzma.LZMAFile(io.BytesIO(lzma.compress(data, preset=0)), "rb")
    if kind in ("spool_b", "spool_b_disk"):                 # in memory / rolled over to a real file
        f = tempfile.SpooledTemporaryFile(max_size=(1 << 24) if kind == "spool_b" else 1, mode="w+b", dir=scratch_dir)
        f.write(data)
        f.seek(0)
        return f
    if kind == "spool_t":
        f = tempfile.SpooledTemporaryFile(max_size=1 << 24, mode="w+", encoding=enc, newline="\n", dir=scratch_dir)
        f.write(data.decode(enc))
        f.seek(0)
        return f
    if kind == "text_short":                                # text layer over short binary reads
        return io.TextIOWrapper(io.BufferedReader(ShortRaw(data)), encoding=enc, newline="\n")
    if kind == "file_t_short":                              # text file whose binary buffer is smaller than most lines
        return open(scratch_file(data), "r", buffering=16, encoding=enc, newline="\n")
    if kind == "gzip_t":
        return gzip.open(io.BytesIO(gzip.compress(data, 1)), "rt", encoding=enc, newline="\n")
    raise AssertionError(kind)


# ---------------------------------------------------------------- alignment plan
# 2^k whose multiples the steered position is measured against (a multiple of 2^k is one of 2^9 .. 2^k as well)
ALIGN_K = (13, 12, 16, 13, 9, 12, 13, 10, 14, 17, 11, 13, 15, 12, 13, 13)
# the line end (newline included) falls at m * 2^k + delta: the newline is the last byte of a block (0), the one
# before (-1) or the first byte of the next block (+1)
ALIGN_DELTA = (0, -1, 0, 1, 0)
# multi-byte characters put across the boundary (2, 3, 4 bytes), with the number of their bytes before it
STRADDLE = (("\u00e9", 1), ("\u4e2d", 1), ("\U0001f600", 2), ("\u0416", 1), ("\u4e2d", 2), ("\U0001f600", 1),
            ("\U0001f600", 3), ("\u00a0", 1), ("\u0105", 1), ("\u0301", 1), ("\U0010ffff", 2))
FILL = "abcdefghij klmnopqrstuvwxyz:0123456789-ABCDEFGHIJKLMNOPQRSTUVWXYZ_+."


class AlignPlan:
    """hands out (k, delta | straddle, position, near) round-robin, so that every run goes through every
    combination whatever the seed"""

    def __init__(self, offset=0, kmax=17):
        self.n = offset
        self.kmax = kmax
        self.picks = {}

    def pick(self, name, seq):
        """round-robin over seq (one counter per name, independent of the other dimensions of the plan)"""
        i = self.picks.get(name, self.n)
        self.picks[name] = i + 1
        return seq[i % len(seq)]

    def next(self):
        n = self.n
        self.n += 1
        k = ALIGN_K[n % len(ALIGN_K)]
        while k > self.kmax:
            k -= 4
        # chars: the offsets are counted in CHARACTERS (what a text file object's read(n) counts), text kinds only
        plan = {"k": k, "pos": n * 7 + n // 5, "near": n % 3 != 0, "chars": (n // 2) % 3 == 1}
        if n % 4 == 3 and not plan["chars"]:
            plan["straddle"] = list(STRADDLE[(n // 4) % len(STRADDLE)])
        else:
            plan["delta"] = ALIGN_DELTA[(n // 2) % len(ALIGN_DELTA)]
        return plan


def filler(n, salt=0):
    """n ASCII characters, no white space at the end"""
    if n <= 0:
        return ""
    s = (FILL[salt % len(FILL):] + FILL * (n // len(FILL) + 1))[:n]
    return s if not s[-1].isspace() else s[:-1] + "x"


def measure(text, plan):
    return len(text) if plan.get("chars") else len(text.encode("utf-8"))


def pad_amount(end_offset, plan):
    """(number of filler characters, suffix, delta) to add in front of end_offset (the present end, newline included, of
    the steered line; in bytes, or in characters for plan["chars"]) so that it moves to m * 2^k + delta, resp. so that
    the boundary falls inside a multi-byte character followed by 'z' and the newline"""
    block = 1 << plan["k"]
    if plan.get("straddle"):
        ch, before = plan["straddle"]
        suffix = ch + "z"
        delta = len(ch.encode("utf-8")) - before + 2
    else:
        suffix, delta = "", plan["delta"]
    base = end_offset + measure(suffix, plan)
    m = max(1, -(-(base - delta) // block))
    return m * block + delta - base, suffix, delta


def plan_tag(plan):
    if plan.get("straddle"):
        return "2^%d straddled by U+%04X (%d byte(s) before)" % (plan["k"], ord(plan["straddle"][0]), plan["straddle"][1])
    return "2^%d%+d%s" % (plan["k"], plan["delta"], " characters" if plan.get("chars") else "")
