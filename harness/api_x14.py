"""X14 part (b) helpers: the mutation / access API of debian.changelog.Changelog against spec/ChangelogApi.tla.

* `Table`: one seeded concretization of the ids of the model (tame / odd characters / sizes), with the reverse map
  used to project what the real objects hold back to ids;
* `apply_call`, `observe`, `compare`: a model call on the real object through every public variant, the complete
  observation AObs of the specification read from the real object, and their comparison with TLC's expectation;
* `Recorder`: random call histories on several live Changelog objects for the trace validation (TraceX14A).
Nothing here decides what is right: expectations are TLC's (CASE lines, RENDER lines, trace acceptance)."""
import io
import json
import random
import subprocess

import gen_x14 as cc

NONE, EMPTY, UNKNOWN = "None", "", "unknown"
TOP_PROPS = ["package", "distributions", "urgency", "author", "date", "version", "full_version", "epoch",
             "debian_version", "debian_revision", "upstream_version"]
FIELD_ATTR = {"pk": "package", "ds": "distributions", "ug": "urgency", "au": "author", "da": "date"}
KW_ORDER = ["package", "version", "distributions", "urgency", "urgency_comment", "changes", "author", "date", "other_pairs", "encoding"]
ARG_KW = {"pk": "package", "vr": "version", "ds": "distributions", "ug": "urgency", "uc": "urgency_comment", "ch": "changes",
          "au": "author", "da": "date", "kv": "other_pairs", "en": "encoding"}
BAD_VERSIONS = ["", " ", "1 0", "a:1", "1:", ":1", "1.0_1", "1.0\n", "١.0", "1.0 ", " 1.0", "1.0-1\n", "é", "1/0", "1,0"]

_dpkg_cache = {}


def dpkg_eq(a, b):
    """reference oracle for the equality classes of the version pool (dpkg --compare-versions a eq b)"""
    k = (a, b) if a <= b else (b, a)
    if k not in _dpkg_cache:
        _dpkg_cache[k] = subprocess.run(["dpkg", "--compare-versions", a, "eq", b], capture_output=True).returncode == 0
    return _dpkg_cache[k]


def key_from_classes(rng, cls):
    out = []
    for c in cls:
        if c in "Xx":
            ch = "x"
        elif c in "Bb":
            ch = rng.choice("bcs")
        elif c in "Aa":
            ch = rng.choice("adefghijklmnopqrtuvwyz")
        elif c == "9":
            ch = rng.choice("0123456789")
        else:
            ch = "-"
        out.append(ch.upper() if c in "XBA" else ch)
    return "".join(out)


def classes_of_key(key):
    out = []
    for ch in key:
        lo = ch.lower()
        if not ch.isascii():
            return None
        if lo == "x":
            c = "x"
        elif lo in "bcs":
            c = "b"
        elif lo.isalpha():
            c = "a"
        elif ch.isdigit():
            c = "9"
        elif ch == "-":
            c = "-"
        else:
            return None
        out.append(c.upper() if ch != lo else c)
    return out


class Table(object):
    """ids of the specification -> payloads.  stress: 0 tame, 1 odd characters, 2 sizes"""

    PKG = ["pA", "pB", "qA"]
    DST = ["dA", "dB", "qd"]
    URG = ["uA", "uB", "qu"]
    UCM = ["cA", "qc"]
    AUT = ["aA", "aB", "qa"]
    DAT = ["tA", "tB", "qt"]
    VAL = ["x1", "x2", "x3", "x4"]
    CHG = ["c1", "c2", "c3"]

    def __init__(self, seed, stress=0, verify=True):
        self.seed, self.stress, self.verify = seed, stress, verify
        rng = self.rng = random.Random("x14b-%s-%s" % (seed, stress))
        big = stress == 2
        self.s = {NONE: None, EMPTY: "", UNKNOWN: "unknown", "utf-8": "utf-8", "latin-1": "latin-1"}
        used = set(["", "unknown"])

        def fresh(gen):
            for _ in range(200):
                v = gen()
                if v not in used and v is not None:
                    used.add(v)
                    return v
            raise AssertionError("harness: cannot draw a fresh payload")

        for i in self.PKG:
            self.s[i] = fresh(lambda: cc.gen_package(rng, big))
        for i in self.DST:
            self.s[i] = fresh(lambda: cc.gen_dists(rng, big))
        urg = list(cc.URG) + ["x-%d" % rng.randrange(100), "u" * (cc.pick_len(rng, 2, 257) if big else 3)]
        for i in self.URG:
            self.s[i] = fresh(lambda: rng.choice(urg))
        for i in self.UCM:
            self.s[i] = fresh(lambda: " " + (rng.choice(cc.COMMENTS) if not big else "(" + cc.gen_text(rng, cc.pick_len(rng, 1, 1025)).replace(",", ";") + ")"))
        for i in self.AUT:
            self.s[i] = fresh(lambda: cc.gen_author(rng, big))
        for i in self.DAT:
            self.s[i] = fresh(lambda: cc.gen_date(rng, big))
        for i in self.VAL:
            self.s[i] = fresh(lambda: (rng.choice(cc.VALS) if not big else cc.gen_text(rng, cc.pick_len(rng, 1, 1025)).replace(",", ";")))
        for i in self.CHG:
            self.s[i] = fresh(lambda: self._change(rng))
        self.s["b1"] = rng.choice(["  ", " ", "\t", " \t ", "   ", "\t\t"] + ([" " * cc.pick_len(rng, 2, 1025)] if big else []))
        used.add(self.s["b1"])
        # versions from parts
        self._versions(rng, used)
        self.keys = {}
        self.rev = None

    def _change(self, rng):
        if self.stress == 2:
            return cc.gen_change_text(rng, True)
        s = cc.gen_change_text(rng, False)
        if self.stress == 1:
            s += rng.choice(cc.CHAR_WORDS)
            if not s.strip() or s[-1].isspace():
                s += "z"
        if any(c in cc.D1 for c in s):
            s = "".join(c for c in s if c not in cc.D1)
        return s

    def _versions(self, rng, used):
        big = self.stress == 2
        for attempt in range(50):
            # no digit 0 outside the epoch: different strings are different versions by construction (checked with dpkg
            # for the tables built with verify)
            def up():
                n = cc.pick_len(rng, 1, 1025) if big else rng.randint(1, 5)
                return rng.choice("123456789") + "".join(rng.choice("123456789abz.+~") for _ in range(n - 1)) + rng.choice("123456789")

            def rev():
                n = cc.pick_len(rng, 1, 257) if big else rng.randint(1, 3)
                return rng.choice("123456789ab") + "".join(rng.choice("123456789abz+.~") for _ in range(n - 1)) + "1"
            p = {"e0": "0", "e1": str(rng.choice([1, 2, 9, 10, 2021] + ([2 ** 31 - 1, 2 ** 31, 2 ** 32, 2 ** 63, 10 ** 18] if big or rng.random() < 0.2 else []))),
                 "u1": up(), "u2": up(), "u3": up(), "u4": up(), "r1": rev(), "r3": rev()}
            vs = {"v1": p["u1"] + "-" + p["r1"], "v1e": "0:" + p["u1"] + "-" + p["r1"], "v2": p["e1"] + ":" + p["u2"],
                  "v3": p["u3"] + "-" + p["r3"], "v3e": "0:" + p["u3"] + "-" + p["r3"], "v4": p["u4"]}
            if len(set(vs.values()) | used) != len(vs) + len(used) or len({p[k] for k in ("u1", "u2", "u3", "u4")}) != 4 or p["r1"] == p["r3"] \
                    or p["e1"] == p["e0"]:
                continue
            if not self.verify:
                break
            cls = {"v1": 1, "v1e": 1, "v2": 2, "v3": 3, "v3e": 3, "v4": 4}
            names = sorted(vs)
            if all(dpkg_eq(vs[a], vs[b]) == (cls[a] == cls[b]) for i, a in enumerate(names) for b in names[i + 1:]):
                break
        else:
            raise AssertionError("harness: no version pool with the equality classes of the model")
        self.s.update(p)
        self.s.update(vs)
        self.s["vbad"] = rng.choice(BAD_VERSIONS)
        used.update(vs.values())

    def key(self, kid, cls):
        """a key id of a case -> a key with the character classes of the model (fixed per table)"""
        if kid not in self.keys:
            for _ in range(100):
                k = key_from_classes(self.rng, cls)
                if k.lower() not in {v.lower() for v in self.keys.values()}:
                    break
            self.keys[kid] = k
            self.rev = None
        return self.keys[kid]

    def val(self, i):
        return self.keys[i] if i in self.keys else self.s[i]

    def back(self, x):
        """payload -> id ('?...' when the model has no id for it)"""
        if self.rev is None:
            self.rev = {}
            for i, v in list(self.s.items()) + list(self.keys.items()):
                if isinstance(v, str) and i not in ("e0", "e1", "u1", "u2", "u3", "u4", "r1", "r3", "vbad", "utf-8", "latin-1"):
                    self.rev[v] = i
        if x is None:
            return NONE
        if not isinstance(x, str):
            return "?%s:%r" % (type(x).__name__, x)
        return self.rev.get(x, "?" + x[:80])

    def part(self, x, ids):
        """a version part read from the object -> id among ids"""
        if x is None:
            return NONE
        for i in ids:
            if self.s[i] == x:
                return i
        return "?" + repr(x)[:80]

    def text(self, lines):
        """rendered lines of TLC (pieces '$id' / '=literal') -> text"""
        out = []
        for ln in lines:
            out.append("".join(self.val(p[1:]) if p[0] == "$" else p[1:] for p in ln))
            out.append("\n")
        return "".join(out)


# ------------------------------------------------------------------ calls on the real object

def exc_class(e):
    """the result vocabulary of the specification for an exception of the library"""
    if isinstance(e, IndexError):
        return "err:index"
    if isinstance(e, ValueError):
        return "err:value"
    return "err:?" + type(e).__name__


def new_block_args(tab, a, rng):
    """arguments record of the model -> (args, kwargs) of a new_block call (positional / keyword / explicit None)"""
    from debian.debian_support import Version
    vals = {}
    for f, kw in ARG_KW.items():
        arg = a[f]
        if not arg["g"]:
            continue
        x = arg["x"]
        if f == "vr":
            v = tab.s[x["s"]]
            vals[kw] = Version(v) if rng.random() < 0.4 else v
        elif f == "ch":
            vals[kw] = [tab.s[c["s"]] for c in x]
        elif f == "kv":
            vals[kw] = {tab.key(p["k"]["s"], p["k"]["cls"]): tab.s[p["v"]] for p in x}
        else:
            vals[kw] = tab.s[x]
    mode = rng.randrange(4)
    if mode == 0:                                   # keywords only, omitted ones absent
        return (), vals
    if mode == 1:                                   # omitted ones as explicit None
        return (), {kw: vals.get(kw) for kw in KW_ORDER}
    npos = rng.randrange(len(KW_ORDER) + 1)         # a positional prefix (None where omitted), the rest by keyword
    args = tuple(vals.get(kw) for kw in KW_ORDER[:npos])
    kwargs = {kw: vals[kw] for kw in KW_ORDER[npos:] if kw in vals}
    return args, kwargs


def top_block(cl, rng):
    r = rng.randrange(3)
    if r == 0 or not len(cl):
        return cl[0]
    if r == 1:
        return next(iter(cl))
    return list(cl)[0]


def apply_call(cl, c, tab, rng):
    """one mutation call of the model on the real changelog -> 'ok' | 'err:...'"""
    from debian.debian_support import Version
    op = c["op"]
    try:
        if op == "new_block":
            args, kwargs = new_block_args(tab, c["a"], rng)
            r = cl.new_block(*args, **kwargs)
            return "ok" if r is None else "?returned %r" % (r,)
        if op == "set":
            attr, v = FIELD_ATTR[c["f"]], tab.s[c["v"]]
            how = rng.randrange(5)
            if how == 0:
                getattr(cl, "set_" + attr)(v)
            elif how == 1:
                setattr(cl, attr, v)
            elif how == 2:
                getattr(cl, "set_" + attr)(**{attr: v})
            elif how == 3:
                setattr(top_block(cl, rng), attr, v)
            else:
                type(cl).__dict__[attr].fset(cl, v)
            return "ok"
        if op == "set_version":
            v = tab.s[c["v"]["s"]]
            how = rng.randrange(5 if c["v"]["ok"] else 3)
            if how == 0:
                cl.set_version(v)
            elif how == 1:
                cl.version = v
            elif how == 2:
                cl.set_version(version=v)
            elif how == 3:
                cl.version = Version(v)
            else:
                cl.set_version(Version(v))
            return "ok"
        if op == "add_change":
            v = tab.s[c["v"]["s"]]
            how = rng.randrange(3)
            if how == 0:
                cl.add_change(v)
            elif how == 1:
                cl.add_change(change=v)
            else:
                top_block(cl, rng).add_change(v)
            return "ok"
    except Exception as e:      # noqa: BLE001 -- an exception of the library is an observation
        return exc_class(e)
    raise AssertionError(op)


def norm_entry(key, nkey):
    """how other_keys_normalised() wrote one key, in the vocabulary of the model: (pre, case per character)"""
    pre = False
    rest = nkey
    if len(nkey) == len(key) + 3 and nkey[:3] == "XS-":
        pre, rest = True, nkey[3:]
    if len(rest) != len(key) or rest.lower() != key.lower():
        return {"pre": pre, "cs": ["?" + nkey[:60]]}
    return {"pre": pre, "cs": ["U" if (r != r.lower()) else "L" for r in rest]}


def fmt_variants(obj, is_cl, rng):
    """str / bytes / file forms of the text of a changelog or block -> (text | ('err', type), bytes | ('err', type))"""
    def guard(f):
        try:
            return f()
        except Exception as e:      # noqa: BLE001
            return ("err", type(e).__name__, str(e)[:80])
    how = rng.randrange(3)
    if how == 0:
        t = guard(lambda: str(obj))
    elif how == 1:
        t = guard(lambda: obj.__str__())
    elif is_cl:
        def w():
            f = io.StringIO()
            r = obj.write_to_open_file(f)
            return f.getvalue() if r is None else "?returned %r" % (r,)
        t = guard(w)
    else:
        t = guard(lambda: "%s" % (obj,))
    b = guard(lambda: bytes(obj))
    return t, b


def observe(cl, tab, rng):
    """AObs of the specification, read from the real object"""
    from debian.debian_support import Version
    o = {}
    blocks = list(cl) if rng.random() < 0.5 else [b for b in cl]
    n = len(cl) if rng.random() < 0.5 else cl.__len__()
    o["n"] = n
    if len(blocks) != n:
        o["n"] = "?len() = %r but iteration yields %d blocks" % (n, len(blocks))
    vs = cl.versions if rng.random() < 0.5 else cl.get_versions()
    o["vs"] = [tab.back(str(v)) if isinstance(v, Version) else tab.back(v) if v is None else "?%r" % (v,) for v in vs]
    top = []
    for p in TOP_PROPS:
        try:
            if p == "version" and rng.random() < 0.5:
                v = cl.get_version()
            elif p == "package" and rng.random() < 0.5:
                v = cl.get_package()
            else:
                v = getattr(cl, p)
            if p == "version":
                v = str(v) if isinstance(v, Version) else v
                r = tab.back(v)
            elif p in ("epoch", "debian_version", "debian_revision", "upstream_version"):
                r = tab.part(v, ["e0", "e1"] if p == "epoch" else ["u1", "u2", "u3", "u4"] if p == "upstream_version" else ["r1", "r3"])
            else:
                r = tab.back(v)
        except Exception as e:      # noqa: BLE001
            r = "err"
            o.setdefault("top_exc", {})[p] = type(e).__name__
        top.append([p, r])
    o["top"] = top

    def pos(b):
        for i, x in enumerate(blocks):
            if x is b:
                return i + 1
        return "?not a block of the changelog"
    gi = []
    for i in range(-n - 1, n + 1) if isinstance(n, int) else []:
        try:
            gi.append([i, pos(cl[i] if rng.random() < 0.7 else cl.__getitem__(i))])
        except LookupError:
            gi.append([i, 0])
        except Exception as e:      # noqa: BLE001
            gi.append([i, "?" + type(e).__name__])
    o["gi"] = gi
    gv = []
    for vid in ["v1", "v1e", "v2", "v3", "v3e", "v4"]:
        key = tab.s[vid]
        try:
            gv.append([vid, pos(cl[key] if rng.random() < 0.5 else cl[Version(key)])])
        except (LookupError, ValueError):
            gv.append([vid, 0])
        except Exception as e:      # noqa: BLE001
            gv.append([vid, "?" + type(e).__name__])
    o["gv"] = gv
    bl = []
    for b in blocks:
        v = b.version
        f = {"pk": tab.back(b.package), "vr": tab.back(str(v) if isinstance(v, Version) else v), "ds": tab.back(b.distributions),
             "ug": tab.back(b.urgency), "uc": tab.back(b.urgency_comment),
             "kv": [[tab.back(k), tab.back(x)] for k, x in b.other_pairs.items()],
             "ch": [tab.back(x) for x in b.changes()], "au": tab.back(b.author), "da": tab.back(b.date)}
        before = dict(b.other_pairs)
        try:
            nk_real = b.other_keys_normalised()
            nk_list = list(nk_real.items())
            nk = []
            if len(nk_list) != len(before):
                nk = ["?%r" % (nk_real,)]
            else:
                for (k, x), (k2, x2) in zip(before.items(), nk_list):
                    nk.append({"k": tab.back(k), "c": classes_of_key(k), "n": norm_entry(k, k2), "v": tab.back(x2)})
            if isinstance(nk_real, dict):
                nk_real["mutated-by-caller"] = "x"          # what was handed out is the caller's
            if dict(b.other_pairs) != before:
                nk = ["?other_pairs changed by other_keys_normalised()"]
        except Exception as e:      # noqa: BLE001
            nk = ["?" + type(e).__name__]
        t, by = fmt_variants(b, False, rng)
        bl.append({"f": f, "nk": nk, "text": t, "bytes": by})
    o["bl"] = bl
    o["text"], o["bytes"] = fmt_variants(cl, True, rng)
    return o


def mutate_handouts(cl):
    """edit what the queries handed out (the caller's own copies): the changelog must not care"""
    try:
        vs = cl.versions
        for v in vs:
            if v is not None:
                v.upstream_version = str(v.upstream_version) + ".9"
        vs.append("junk")
        del vs[:1]
        g = cl.get_versions()
        g.reverse()
        v = cl.version
        if v is not None:
            v.epoch = "7"
    except IndexError:
        pass


def _first_diff(a, b, path=""):
    if type(a) != type(b):
        return "%s: expected %s, observed %s" % (path or "value", json.dumps(a, ensure_ascii=False)[:200], json.dumps(b, ensure_ascii=False, default=repr)[:200])
    if isinstance(a, dict):
        for k in a:
            if k not in b:
                return "%s.%s missing" % (path, k)
            d = _first_diff(a[k], b[k], "%s.%s" % (path, k))
            if d:
                return d
        return None
    if isinstance(a, list):
        if len(a) != len(b):
            return "%s: expected %s, observed %s" % (path, json.dumps(a, ensure_ascii=False)[:300], json.dumps(b, ensure_ascii=False, default=repr)[:300])
        for i, (x, y) in enumerate(zip(a, b)):
            d = _first_diff(x, y, "%s[%d]" % (path, i))
            if d:
                return d
        return None
    if a != b:
        return "%s: expected %s, observed %s" % (path or "value", json.dumps(a, ensure_ascii=False)[:200], json.dumps(b, ensure_ascii=False, default=repr)[:200])
    return None


def check_text(exp_ok, exp_text, enc, t, by, what):
    """observed str / bytes forms against the expected rendering -> None or message; drift notes ignored"""
    if not exp_ok:
        for x, form in ((t, "str"), (by, "bytes")):
            if not (isinstance(x, tuple) and x[0] == "err" and x[1] == "ChangelogCreateError"):
                return "%s: %s() must raise ChangelogCreateError (a mandatory attribute is None), observed %s" % (what, form, repr(x)[:200])
        return None
    if t != exp_text:
        return "%s: str() is %s, the specification renders %s" % (what, repr(t)[:400], repr(exp_text)[:400])
    try:
        eb = exp_text.encode(enc)
    except UnicodeEncodeError:
        eb = ("err", "UnicodeEncodeError")
    if isinstance(eb, tuple):
        if not (isinstance(by, tuple) and by[1] == "UnicodeEncodeError"):
            return "%s: bytes() of a text that %s cannot encode returned %s" % (what, enc, repr(by)[:200])
    elif by != eb:
        return "%s: bytes() is %s, expected the text in %s: %s" % (what, repr(by)[:300], enc, repr(eb)[:300])
    return None


def compare(exp, obs, tab, lines_of_block):
    """TLC's AObs against the observation.  lines_of_block(i) -> rendered lines (pieces) of block i or None.
    -> None or message"""
    for k in ("n", "vs", "gi", "gv"):
        d = _first_diff(exp[k], obs[k], k)
        if d:
            return d
    for (p, e), (p2, r) in zip(exp["top"], obs["top"]):
        if e == "unspec":
            continue
        if e != r:
            return "property %s: expected %s, observed %s%s" % (p, e, r, " (%s)" % obs.get("top_exc", {}).get(p) if r == "err" else "")
    if len(exp["bl"]) != len(obs["bl"]):
        return "number of blocks: expected %d, observed %d" % (len(exp["bl"]), len(obs["bl"]))
    whole = []
    for i, (eb, ob) in enumerate(zip(exp["bl"], obs["bl"])):
        d = _first_diff(eb["f"], ob["f"], "block %d" % i)
        if d:
            return d
        d = _first_diff(eb["nk"], ob["nk"], "block %d other_keys_normalised" % i)
        if d:
            return d
        rd = eb["rd"]
        lines = rd["lines"] if rd["miss"] != "memo" else lines_of_block(i)
        ok = rd["ok"] if rd["miss"] != "memo" else lines is not None
        text = tab.text(lines) if ok else None
        d = check_text(ok, text, eb["en"], ob["text"], ob["bytes"], "block %d" % i)
        if d:
            return d
        whole.append(text)
    w = exp["whole"]
    d = check_text(w["ok"], "".join(whole) if w["ok"] else None, exp["enc"], obs["text"], obs["bytes"], "changelog")
    return d


def block_key(eb):
    return json.dumps([eb["f"], eb["en"], eb["nk"]], sort_keys=True)


# ------------------------------------------------------------------ recorded histories (code -> spec)

class Intern(object):
    """payload strings -> ids (TLC needs equality only): verdicts are independent of lengths and characters"""

    def __init__(self):
        self.tab = {}

    def id(self, x):
        if x is None:
            return NONE
        if not isinstance(x, str):
            return "?%s" % type(x).__name__
        if x == "":
            return EMPTY
        if x == "unknown":
            return UNKNOWN
        if x not in self.tab:
            self.tab[x] = "s%d" % (len(self.tab) + 1)
        return self.tab[x]

    def strings(self):
        d = {v: k for k, v in self.tab.items()}
        d[EMPTY] = ""
        d[UNKNOWN] = "unknown"
        return d


VER_UP = "123456789abz.+~"


def gen_version_parts(rng, stress):
    """(epoch or None, upstream, revision or None): no digit 0, so different strings are different versions"""
    n = cc.pick_len(rng, 1, 1025) if stress == 2 else rng.randint(1, 6)
    u = rng.choice("123456789") + "".join(rng.choice(VER_UP) for _ in range(n - 1))
    e = None
    if rng.random() < 0.35:
        e = str(rng.choice([1, 2, 9, 11, 2 ** 31 - 1, 2 ** 31 + 1, 2 ** 32 - 1, 2 ** 63 - 1, 2 ** 63 + 1] if stress else [1, 2, 9, 11]))
    r = None
    if rng.random() < 0.6:
        m = cc.pick_len(rng, 1, 257) if stress == 2 else rng.randint(1, 4)
        r = "".join(rng.choice(VER_UP.replace(".", "") + ".") for _ in range(m)).strip(".") or "1"
    return e, u, r


def version_string(e, u, r):
    return ("%s:" % e if e is not None else "") + u + ("-%s" % r if r is not None else "")


class Recorder(object):
    """one random history on several live Changelog objects -> trace for TraceX14A + what str()/bytes() returned"""

    def __init__(self, seed, size="small"):
        self.seed, self.size = seed, size
        self.rng = random.Random("x14rec-%s-%s" % (seed, size))
        self.it = Intern()
        self.events = []
        self.texts = {}          # event number (1-based) -> (form, observed)
        self.vclass = {}         # canonical (epoch, upstream, revision) -> class number
        self.vpool = []          # version records (with the string)
        self.stress = self.rng.choice([0, 0, 1, 1, 2]) if size == "small" else 2

    # ---- payloads
    def version(self):
        rng = self.rng
        if self.vpool and rng.random() < 0.6:
            return rng.choice(self.vpool)
        if self.vpool and rng.random() < 0.5:          # another spelling of a version of the pool
            base = rng.choice(self.vpool)
            if base["parts"][0] is None:
                e, u, r = base["parts"]
                return self._ver(rng.choice(["0", "00", "000"]), u, r, canon=(None, u, r))
        e, u, r = gen_version_parts(rng, self.stress)
        return self._ver(e, u, r, canon=(e, u, r))

    def _ver(self, e, u, r, canon):
        s = version_string(e, u, r)
        for v in self.vpool:
            if v["str"] == s:
                return v
        c = self.vclass.setdefault(canon, len(self.vclass) + 1)
        v = {"str": s, "parts": (e, u, r), "rec": {"s": self.it.id(s), "e": self.it.id(e), "u": self.it.id(u), "r": self.it.id(r), "c": c, "ok": True}}
        self.vpool.append(v)
        return v

    def bad_version(self):
        s = self.rng.choice(BAD_VERSIONS)
        return {"str": s, "rec": {"s": self.it.id(s) if s else "bad-empty", "e": NONE, "u": NONE, "r": NONE, "c": 0, "ok": False}}

    def change(self):
        rng = self.rng
        r = rng.random()
        if r < 0.3:
            s = rng.choice(["", "", " ", "  ", "\t", " \t", "    "])
        else:
            s = cc.gen_change_text(rng, self.stress == 2 and rng.random() < 0.3)
            if self.stress == 1 and rng.random() < 0.5:
                s += rng.choice(cc.CHAR_WORDS) + "z"
            s = "".join(c for c in s if c not in cc.D1)
            if not s.strip():
                s += "x"
        return s, {"s": self.it.id(s), "b": s.strip(" \t") == ""}

    def key(self, taken):
        rng = self.rng
        for _ in range(100):
            if rng.random() < 0.4:
                k = rng.choice(["Binary-Only", "binary-only", "XS-Foo", "xs-foo", "XC-Bar", "xb-baz", "XBCS-Mixed", "xsb-q", "X-Foo", "XS9-a", "Xs",
                                "XS", "Closes", "a", "A", "x", "X-", "XSS-", "xC-", "S-x", "9-lives", "-dash", "X--a", "XS-X-y", "xbcs-ALLCAPS-Word"])
            else:
                n = cc.pick_len(rng, 1, 257) if self.stress == 2 else rng.randint(1, 8)
                k = "".join(rng.choice("xXbBcCsS-aAqQzZ09-") for _ in range(n))
            if k.lower() not in taken and classes_of_key(k):
                taken.add(k.lower())
                return k
        return "k%d" % len(taken)

    def text_value(self):
        rng = self.rng
        return rng.choice(cc.VALS) if self.stress < 2 else cc.gen_text(rng, cc.pick_len(rng, 1, 1025)).replace(",", ";")

    def field_value(self, f):
        rng, big = self.rng, self.stress == 2 and self.rng.random() < 0.4
        if f == "pk":
            return cc.gen_package(rng, big)
        if f == "ds":
            return cc.gen_dists(rng, big)
        if f == "ug":
            return rng.choice(cc.URG + ["unknown", "x-1"])
        if f == "uc":
            return " " + rng.choice(cc.COMMENTS)
        if f == "au":
            return cc.gen_author(rng, big)
        if f == "da":
            return cc.gen_date(rng, big)
        raise AssertionError(f)

    def new_args(self, full=None, nchanges=None, npairs=None):
        """-> (model args record, {keyword: python value})"""
        rng = self.rng
        full = rng.random() < 0.5 if full is None else full
        a, vals = {}, {}

        def give(f):
            return full or rng.random() < 0.5
        for f in ("pk", "ds", "ug", "uc", "au", "da"):
            if give(f):
                v = self.field_value(f)
                a[f] = {"g": True, "x": self.it.id(v)}
                vals[ARG_KW[f]] = v
            else:
                a[f] = {"g": False, "x": NONE}
        if give("vr"):
            v = self.version()
            a["vr"] = {"g": True, "x": v["rec"]}
            vals["version"] = v["str"]
        else:
            a["vr"] = {"g": False, "x": {"s": NONE, "e": NONE, "u": NONE, "r": NONE, "c": -1, "ok": True}}
        if give("ch"):
            n = nchanges if nchanges is not None else rng.choice([0, 1, 2, 3, 5])
            cs = [self.change() for _ in range(n)]
            if cs:
                a["ch"] = {"g": True, "x": [c[1] for c in cs]}
                vals["changes"] = [c[0] for c in cs]
            else:                      # an empty list is "not given" (changes or [])
                a["ch"] = {"g": False, "x": []}
                if rng.random() < 0.5:
                    vals["changes"] = []
        else:
            a["ch"] = {"g": False, "x": []}
        if give("kv"):
            n = npairs if npairs is not None else rng.choice([0, 1, 2, 3])
            taken, d, rec = set(), {}, []
            for _ in range(n):
                k = self.key(taken)
                x = self.text_value()
                d[k] = x
                rec.append({"k": {"s": self.it.id(k), "cls": classes_of_key(k)}, "v": self.it.id(x)})
            if rec:
                a["kv"] = {"g": True, "x": rec}
                vals["other_pairs"] = d
            else:
                a["kv"] = {"g": False, "x": []}
                if rng.random() < 0.5:
                    vals["other_pairs"] = {}
        else:
            a["kv"] = {"g": False, "x": []}
        if rng.random() < 0.3:
            e = rng.choice(["utf-8", "latin-1", "utf-16", "ascii"])
            a["en"] = {"g": True, "x": e}
            vals["encoding"] = e
        else:
            a["en"] = {"g": False, "x": NONE}
        return a, vals

    # ---- projection of a real object
    def proj(self, cl):
        from debian.debian_support import Version
        out = []

        def rd(f):
            try:
                return self.it.id(f())
            except Exception as e:      # noqa: BLE001 -- reading an attribute failed: an observation ("?Type" is no id of the model)
                return "?" + type(e).__name__

        def ver(b):
            v = b.version
            return str(v) if isinstance(v, Version) else v
        for b in cl:
            out.append({"pk": rd(lambda: b.package), "vr": rd(lambda: ver(b)), "ds": rd(lambda: b.distributions),
                        "ug": rd(lambda: b.urgency), "uc": rd(lambda: b.urgency_comment),
                        "kv": [[self.it.id(k), self.it.id(x)] for k, x in b.other_pairs.items()],
                        "ch": [self.it.id(x) for x in b.changes()], "au": rd(lambda: b.author), "da": rd(lambda: b.date)})
        return out

    def run(self):
        from debian import changelog as C
        from debian.debian_support import Version
        rng = self.rng
        nobj = rng.choice([1, 2, 2, 3]) if self.size == "small" else 2 if self.size == "lines" else 1
        objs, encs = [], []
        for _ in range(nobj):
            e = rng.choice(["utf-8", "utf-8", "latin-1"])
            how = rng.randrange(5)
            if e == "utf-8" and how < 2:
                cl = C.Changelog() if how == 0 else C.Changelog(None)
            elif how < 3:
                cl = C.Changelog(encoding=e)
            elif how == 3:
                cl = C.Changelog(file=None, encoding=e)
            else:
                cl = C.Changelog(None, None, False, False, e)
            objs.append(cl)
            encs.append(e)
        self.objs = objs
        self.encs = encs
        model_n = [0] * nobj           # number of blocks the harness expects (for choosing calls only)
        renderable = [True] * nobj     # diagnostic guess only (decides whether `adopt` is tried)
        ev = self.events

        def mutation(o, rec, call):
            try:
                r = call()
                res = "ok" if r is None else "?returned %r" % (r,)
            except Exception as e:      # noqa: BLE001
                res = exc_class(e)
            look = self.size != "blocks" or len(objs[o]) < 12 or len(objs[o]) % 32 in (0, 1) or rec["op"] != "new_block"
            rec.update(o=o + 1, r=res, chk=look, st=self.proj(objs[o]) if look else [])
            ev.append(rec)

        if self.size == "blocks":
            nsteps, weights = (self.seed % 2) * 170 + rng.choice([108, 109, 110]), None       # 100 / 270 blocks
        elif self.size == "lines":
            nsteps, weights = 12, None
        else:
            nsteps, weights = rng.choice([12, 25, 40]), None
        for step in range(nsteps):
            o = rng.randrange(nobj)
            cl = objs[o]
            r = rng.random()
            if self.size == "blocks":
                r = 0.0 if step < nsteps - 8 else r
            if self.size == "lines" and step == 0:
                a, vals = self.new_args(full=True, nchanges=rng.choice([100, 257, 1000]), npairs=rng.choice([33, 100]))
                mutation(o, {"op": "new_block", "a": a}, lambda: cl.new_block(**vals))
                continue
            n = len(cl)
            if r < 0.14 or (n == 0 and r < 0.4):
                a, vals = self.new_args(full=(True if self.size == "blocks" else None))
                mode = rng.randrange(3)
                if mode == 0:
                    call = lambda: cl.new_block(**vals)                                        # noqa: E731
                elif mode == 1:
                    call = lambda: cl.new_block(**{k: vals.get(k) for k in KW_ORDER})          # noqa: E731
                else:
                    npos = rng.randrange(len(KW_ORDER) + 1)
                    if "version" in vals and rng.random() < 0.5:
                        vals["version"] = Version(vals["version"])
                    call = lambda: cl.new_block(*[vals.get(k) for k in KW_ORDER[:npos]], **{k: vals[k] for k in KW_ORDER[npos:] if k in vals})   # noqa: E731
                mutation(o, {"op": "new_block", "a": a}, call)
            elif r < 0.32:
                f = rng.choice(["pk", "ds", "ug", "au", "da"])
                v = self.field_value(f)
                attr = FIELD_ATTR[f]
                how = rng.randrange(4)
                if how == 0:
                    call = lambda: getattr(cl, "set_" + attr)(v)             # noqa: E731
                elif how == 1:
                    call = lambda: setattr(cl, attr, v)                      # noqa: E731
                elif how == 2:
                    call = lambda: setattr(cl[0], attr, v)                   # noqa: E731
                else:
                    call = lambda: getattr(cl, "set_" + attr)(**{attr: v})   # noqa: E731
                mutation(o, {"op": "set", "f": f, "v": self.it.id(v)}, call)
            elif r < 0.42:
                bad = rng.random() < 0.25 and n > 0
                v = self.bad_version() if bad else self.version()
                how = rng.randrange(3 if bad else 5)
                s = v["str"]
                if how == 0:
                    call = lambda: cl.set_version(s)                 # noqa: E731
                elif how == 1:
                    call = lambda: setattr(cl, "version", s)         # noqa: E731
                elif how == 2:
                    call = lambda: cl.set_version(version=s)         # noqa: E731
                elif how == 3:
                    call = lambda: cl.set_version(Version(s))        # noqa: E731
                else:
                    call = lambda: setattr(cl, "version", Version(s))    # noqa: E731
                mutation(o, {"op": "set_version", "vv": v["rec"]}, call)
            elif r < 0.56:
                s, rec = self.change()
                if rng.random() < 0.7:
                    call = lambda: cl.add_change(s)                  # noqa: E731
                else:
                    call = lambda: cl[0].add_change(s)               # noqa: E731
                mutation(o, {"op": "add_change", "cv": rec}, call)
            elif r < 0.60 and nobj > 1:
                self.adopt(o, rng)
            else:
                self.query(o, cl, rng)
            if rng.random() < 0.15 and nobj > 1:
                p = rng.randrange(nobj)
                ev.append({"o": p + 1, "op": "peek", "st": self.proj(objs[p])})
        for p in range(nobj):
            self.query(p, objs[p], rng, force="render")
            self.query(p, objs[p], rng, force="versions")
            self.query(p, objs[p], rng, force="getver_last")
            self.query(p, objs[p], rng, force="getidx_last")
            ev.append({"o": p + 1, "op": "peek", "st": self.proj(objs[p])})
        return {"objs": [{"blks": [], "enc": e} for e in encs], "events": ev}

    def adopt(self, o, rng):
        """object o becomes the parse of str(another object): equal blocks, nothing shared"""
        from debian import changelog as C
        objs = self.objs
        src = rng.choice([p for p in range(len(objs)) if p != o])
        try:
            text = str(objs[src])
        except C.ChangelogCreateError:
            self.events.append({"o": o + 1, "op": "adopt", "src": src + 1, "done": False, "st": self.proj(objs[o])})
            return
        if not text.strip():
            return
        form = rng.choice(cc.BASE_TEXT + cc.BASE_LINES)
        enc = self.encs[o]
        source = cc.make_source(text, form, enc)        # bytes arrive in the encoding the object was told
        if rng.random() < 0.6:
            objs[o] = C.Changelog(source, strict=True, encoding=enc)
        else:
            objs[o].parse_changelog(source, strict=True)
        self.events.append({"o": o + 1, "op": "adopt", "src": src + 1, "done": True, "st": self.proj(objs[o])})

    def query(self, o, cl, rng, force=None):
        from debian import changelog as C
        from debian.debian_support import Version
        ev = self.events
        blocks = list(cl)

        def pos(b):
            for i, x in enumerate(blocks):
                if x is b:
                    return i + 1
            return -1
        which = None
        if force in ("getver_last", "getidx_last"):
            force, which = force[:6], "last"
        q = force or rng.choice(["len", "versions", "getidx", "getidx", "getver", "getver", "top", "top", "top", "norm", "iter", "render", "render"])
        e = {"o": o + 1, "op": q}
        n = len(blocks)
        try:
            if q == "len":
                e["n"] = len(cl) if rng.random() < 0.5 else cl.__len__()
                if type(e["n"]) is not int:
                    e = {"o": o + 1, "op": "bad", "what": "len() returned %r" % (e["n"],)}
            elif q == "versions":
                vs = cl.versions if rng.random() < 0.5 else cl.get_versions()
                e["vs"] = [self.it.id(str(v) if isinstance(v, Version) else v) for v in vs]
                vs.append(None)                 # the list is the caller's
            elif q == "getidx":
                i = rng.choice([0, 0, -1, 1, n - 1, n, -n, -n - 1, rng.randrange(-n - 2, n + 2)]) if which is None else n - 1
                e["i"] = i
                try:
                    e["pos"] = pos(cl[i])
                except LookupError:
                    e["pos"] = 0
            elif q == "getver":
                v = self.version()
                if which and blocks and blocks[-1].version is not None:
                    v = next((x for x in self.vpool if x["str"] == str(blocks[-1].version)), v)
                e["vv"] = v["rec"]
                key = v["str"] if rng.random() < 0.5 else Version(v["str"])
                try:
                    e["pos"] = pos(cl[key])
                except (LookupError, ValueError):
                    e["pos"] = 0
            elif q == "top":
                p = rng.choice(TOP_PROPS)
                e["p"] = p
                try:
                    v = cl.get_version() if p == "version" and rng.random() < 0.5 else cl.get_package() if p == "package" and rng.random() < 0.5 else getattr(cl, p)
                    e["val"] = self.it.id(str(v) if isinstance(v, Version) else v)
                except Exception as x:      # noqa: BLE001
                    if not blocks or p in TOP_PROPS[6:]:
                        e["val"] = "err"
                    else:
                        e["val"] = "?" + type(x).__name__
            elif q == "norm":
                if not blocks:
                    e.update(op="len", n=len(cl))
                else:
                    i = rng.randrange(n)
                    b = blocks[i]
                    before = list(b.other_pairs.items())
                    got = b.other_keys_normalised()
                    items = list(got.items())
                    e["i"] = i + 1
                    if len(items) != len(before) or list(b.other_pairs.items()) != before:
                        e["nk"] = [{"k": "?", "c": [], "n": {"pre": False, "cs": ["?size"]}, "v": "?"}]
                    else:
                        e["nk"] = [{"k": self.it.id(k), "c": classes_of_key(k) or ["?"], "n": norm_entry(k, k2), "v": self.it.id(x2)}
                                   for (k, x), (k2, x2) in zip(before, items)]
                    got.clear()
            elif q == "iter":
                how = rng.randrange(3)
                seq = list(cl) if how == 0 else [b for b in cl] if how == 1 else list(iter(cl))
                e["ps"] = [pos(b) for b in seq]
                if [cl[i] is seq[i] for i in range(len(seq))].count(False):
                    e["ps"] = [-1]
            elif q == "render":
                i = 0 if (not blocks or rng.random() < 0.5 or force) else rng.randrange(n) + 1
                tgt = cl if i == 0 else blocks[i - 1]
                form = rng.choice(["str", "bytes", "file"] if i == 0 else ["str", "bytes"])
                e["i"], e["form"] = i, form
                try:
                    if form == "str":
                        got = str(tgt)
                    elif form == "bytes":
                        got = bytes(tgt)
                    else:
                        f = io.StringIO()
                        tgt.write_to_open_file(f)
                        got = f.getvalue()
                    e["ok"] = True
                except C.ChangelogCreateError as x:
                    got = ("err", type(x).__name__)
                    e["ok"] = False
                except UnicodeEncodeError as x:          # bytes(): the text exists, the codec cannot write it
                    got = ("err", type(x).__name__)
                    e["ok"] = True
                self.texts[len(ev) + 1] = (form, got)
        except Exception as x:      # noqa: BLE001
            import core
            if not core.raised_by_code_under_test(x):
                raise
            e = {"o": o + 1, "op": "bad", "what": "%s raised %s: %s" % (q, type(x).__name__, str(x)[:100])}
        ev.append(e)


def corrupt_trace(t, how):
    """negative controls: histories ChangelogApi must NOT explain"""
    import copy
    evs = t["events"]
    for i, e in enumerate(evs):
        c = None
        if how == "len" and e["op"] == "len" and isinstance(e.get("n"), int):
            c = dict(e, n=e["n"] + 1)
        elif how == "order" and e["op"] == "new_block" and e["chk"] and len(e["st"]) >= 2:
            st = copy.deepcopy(e["st"])
            st[0], st[-1] = st[-1], st[0]
            if st != e["st"]:
                c = dict(e, st=st)
        elif how == "setter-leaks" and e["op"] == "set" and e["r"] == "ok" and len(e["st"]) >= 2:
            st = copy.deepcopy(e["st"])
            st[1][e["f"]] = e["v"]
            if st != e["st"]:
                c = dict(e, st=st)
        elif how == "setter-lost" and e["op"] == "set" and e["r"] == "ok":
            st = copy.deepcopy(e["st"])
            st[0][e["f"]] = "s-other"
            c = dict(e, st=st)
        elif how == "err-ok" and e["op"] in ("set", "set_version", "add_change") and e["r"] != "ok":
            c = dict(e, r="ok")
        elif how == "getver" and e["op"] == "getver" and e["pos"] > 0:
            c = dict(e, pos=0)
        elif how == "getidx" and e["op"] == "getidx" and e["pos"] > 0:
            c = dict(e, pos=e["pos"] + 1)
        elif how == "change-appended" and e["op"] == "add_change" and e["r"] == "ok" and len(e["st"][0]["ch"]) >= 2 and e["st"][0]["ch"][-1] != e["cv"]["s"]:
            st = copy.deepcopy(e["st"])
            ch = st[0]["ch"]
            ch.remove(e["cv"]["s"])
            ch.append(e["cv"]["s"])
            if st != e["st"]:
                c = dict(e, st=st)
        elif how == "peek" and e["op"] == "peek" and e["st"]:
            st = copy.deepcopy(e["st"])
            st[0]["pk"] = "s-leak"
            c = dict(e, st=st)
        elif how == "render-ok" and e["op"] == "render" and e.get("ok") is False:
            c = dict(e, ok=True)
        elif how == "norm" and e["op"] == "norm" and e.get("nk"):
            nk = copy.deepcopy(e["nk"])
            nk[0]["n"]["pre"] = not nk[0]["n"]["pre"]
            c = dict(e, nk=nk)
        elif how == "top" and e["op"] == "top" and e.get("val", "").startswith("s"):
            c = dict(e, val="s-other")
        if c is not None:
            return {"objs": t["objs"], "events": evs[:i] + [c]}
    return None


CORRUPTIONS = ["len", "order", "setter-leaks", "setter-lost", "err-ok", "getver", "getidx", "change-appended", "peek", "render-ok", "norm", "top"]

STATIC_CONTROLS = [
    {"objs": [{"blks": [], "enc": "utf-8"}], "events": [{"o": 1, "op": "len", "n": 1}]},
    {"objs": [{"blks": [], "enc": "utf-8"}], "events": [{"o": 1, "op": "set", "f": "pk", "v": "s1", "r": "ok", "chk": True, "st": []}]},
]
