#!/venv/bin/python
"""Confirms and runs the seeded changes kept under /verif/seeded/<id>/ (patch.diff, demo.py, meta.json).
For each: copy /repo to a scratch directory outside /repo and /verif, apply the patch, run the repo's
test-suite (must pass), run the demonstration with and without the change (must fail / pass), run the
quick (or --thorough) check of the property against the patched copy (VERIF_REPO) and report whether it
raises VIOLATION.  usage: seeded.py [id ...] [--thorough] [--no-tests] [--record]"""
import json
import os
import shutil
import subprocess
import sys
import tempfile
import time

VERIF = os.path.dirname(os.path.dirname(os.path.abspath(__file__)))


def main():
    if "--help" in sys.argv or "-h" in sys.argv:
        print(__doc__)
        return 0
    ids = [a for a in sys.argv[1:] if not a.startswith("--")]
    tier = "thorough" if "--thorough" in sys.argv else "quick"
    sdir = os.path.join(VERIF, "seeded")
    base = tempfile.mkdtemp(prefix="pd-seeded-", dir="/tmp")
    rows = []
    try:
        for name in sorted(os.listdir(sdir)):
            d = os.path.join(sdir, name)
            if name.startswith("_") or not os.path.exists(os.path.join(d, "meta.json")):
                continue
            if ids and name not in ids and not any(name.startswith(i) for i in ids):
                continue
            meta = json.load(open(os.path.join(d, "meta.json")))
            root = os.path.join(base, name)
            shutil.copytree("/repo", root, ignore=shutil.ignore_patterns(".git", "__pycache__", ".pytest_cache"))
            p = subprocess.run(["patch", "-p1", "-s", "-i", os.path.join(d, "patch.diff")], cwd=root, capture_output=True, text=True)
            if p.returncode:
                rows.append((name, meta["property"], "PATCH-DOES-NOT-APPLY " + p.stdout[-200:]))
                print(*rows[-1], flush=True)
                continue
            tests = "-"
            if "--no-tests" not in sys.argv:
                t = subprocess.run(["/venv/bin/python", "-m", "pytest", "-q", "-p", "no:cacheprovider", "lib"], cwd=root, capture_output=True, text=True)
                tests = (t.stdout.strip().splitlines() or ["?"])[-1]
            demo = os.path.join(d, "demo.py")
            dm = subprocess.run(["/venv/bin/python", demo, os.path.join(root, "lib")], capture_output=True, text=True, cwd=base)
            dc = subprocess.run(["/venv/bin/python", demo, "/repo/lib"], capture_output=True, text=True, cwd=base)
            env = dict(os.environ, VERIF_REPO=root, VERIF_EVIDENCE_DIR=os.path.join(base, "ev"), VERIF_REPLAY_DIR=os.path.join(base, "replays"))
            t0 = time.time()
            c = subprocess.run([os.path.join(VERIF, "check"), meta["property"], "--tier", tier], env=env, capture_output=True, text=True)
            viol = [l for l in c.stdout.splitlines() if l.startswith("VIOLATION")]
            detail = [l for l in c.stdout.splitlines() if l.startswith("  ")][:1]
            status = "DETECTED" if c.returncode == 1 and viol else ("MISSED" if c.returncode == 0 else "ERROR rc=%d %s" % (c.returncode, c.stderr[-300:]))
            rows.append((name, meta["property"], "%s (%s, %.0fs) | tests: %s | demo with change rc=%d, without rc=%d | %s"
                         % (status, tier, time.time() - t0, tests, dm.returncode, dc.returncode, detail[0].strip()[:160] if detail else "")))
            print(*rows[-1], flush=True)
            if "--record" in sys.argv:      # keep what was run in the seed's meta.json
                ran = meta.setdefault("ran", {})
                if tests != "-":
                    ran["tests_with_change"] = tests
                ran["confirmed"] = "harness/seeded.py: patch applies to a copy of /repo HEAD; demo.py exits %d with the change and %d without" % (dm.returncode, dc.returncode)
                if tier + "_check" in ran and "first_contact" not in ran:      # what the check said before it was hardened for this seed
                    ran["first_contact"] = ran[tier + "_check"].split(" (./check")[0]
                ran[tier + "_check"] = "%s (./check %s --tier %s with VERIF_REPO=<patched scratch copy>)%s" % (
                    status.split(" rc=")[0], meta["property"], tier, (": " + detail[0].strip()[:200]) if detail else "")
                json.dump(meta, open(os.path.join(d, "meta.json"), "w"), indent=1)
            shutil.rmtree(root, ignore_errors=True)
    finally:
        shutil.rmtree(base, ignore_errors=True)
    missed = [r for r in rows if not r[2].startswith("DETECTED")]
    print("%d seeded changes, %d not detected" % (len(rows), len(missed)))
    return 1 if missed else 0


if __name__ == "__main__":
    sys.exit(main())
