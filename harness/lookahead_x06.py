"""X06 helpers: scripted counting sources, concretization of items and predicates, the driver
that executes one model event on a real BufferingIterator and projects what happened, and the
recorder of random histories (harness/props/x06.py holds the check itself).

No expected value is computed here: every verdict comes from TLC (EDGE lines of LookAheadBuf or
trace validation by TraceLookAhead)."""
import collections
import functools
import itertools

NC = 8          # class of an item = tag % NC (spec/LookAhead.tla)
STOP, ERR = 0, -1


class SrcError(Exception):
    """the exception a scripted source raises for a -1 entry"""


class HangError(BaseException):
    """the code under test did not return (BaseException: not swallowed by the drivers)"""


class deadline:
    """with deadline(s): ... raises HangError in the main thread after s seconds of wall time"""

    def __init__(self, seconds):
        self.seconds = seconds

    def _fire(self, *a):
        raise HangError("no return within %d s" % self.seconds)

    def __enter__(self):
        import signal
        import threading
        self.on = threading.current_thread() is threading.main_thread()
        if self.on:
            self.old = signal.signal(signal.SIGALRM, self._fire)
            signal.setitimer(signal.ITIMER_REAL, self.seconds)

    def __exit__(self, *a):
        import signal
        if self.on:
            signal.setitimer(signal.ITIMER_REAL, 0)
            signal.signal(signal.SIGALRM, self.old)
        return False


# ------------------------------------------------------------------ sources

class ScriptSource:
    """iterator that plays a script: x > 0 -> return the object of tag x; 0 -> StopIteration;
    -1 -> SrcError; after the script: StopIteration for ever.  Counts what it is asked."""

    def __init__(self, script, obj_of):
        self.script = list(script)
        self.obj_of = obj_of
        self.i = 0
        self.polls = 0
        self.pulled = 0
        self.stops = 0
        self.repolls = 0         # polls after the first end signal

    def __iter__(self):
        return self

    def __next__(self):
        self.polls += 1
        if self.stops:
            self.repolls += 1
        if self.i >= len(self.script):
            self.stops += 1
            raise StopIteration
        x = self.script[self.i]
        self.i += 1
        if x == STOP:
            self.stops += 1
            raise StopIteration
        if x == ERR:
            raise SrcError("scripted failure of the source")
        self.pulled += 1
        return self.obj_of[x]


class ScriptIterable:
    """an Iterable that is not an Iterator"""

    def __init__(self, src):
        self.src = src

    def __iter__(self):
        return self.src


class Probe:
    """what the source can tell: polls / pulled / repolls (polls after its first end signal), -1 when it cannot"""

    def __init__(self, polls=None, pulled=None, repolls=None):
        self._polls, self._pulled, self._repolls = polls, pulled, repolls

    def polls(self):
        return self._polls() if self._polls else -1

    def pulled(self):
        return self._pulled() if self._pulled else -1

    def repolls(self):
        return self._repolls() if self._repolls else -1


PLAIN_KINDS = ["script", "iterable", "nested", "list", "tuple", "deque", "generator", "listiter", "chain", "dict", "genexp"]
SPECIAL_KINDS = ["script", "iterable", "nested"]


def is_plain(script):
    return all(x > 0 for x in script)


def make_source(kind, script, obj_of):
    """-> (object to hand to BufferingIterator, Probe)"""
    from debian._deb822_repro._util import BufferingIterator
    if kind in ("script", "iterable", "nested"):
        s = ScriptSource(script, obj_of)
        pr = Probe(lambda: s.polls, lambda: s.pulled, lambda: s.repolls)
        if kind == "script":
            return s, pr
        if kind == "iterable":
            return ScriptIterable(s), pr
        return BufferingIterator(s), pr
    assert is_plain(script), kind
    items = [obj_of[x] for x in script]
    if kind == "list":
        return items, Probe()
    if kind == "tuple":
        return tuple(items), Probe()
    if kind == "deque":
        return collections.deque(items), Probe()
    if kind == "listiter":
        return iter(items), Probe()
    if kind == "chain":
        k = len(items) // 2
        return itertools.chain(items[:k], iter(items[k:])), Probe()
    if kind == "dict":
        try:
            d = dict.fromkeys(items)
        except TypeError:
            d = None
        if d is not None and len(d) == len(items) and all(a is b for a, b in zip(d, items)):
            return d, Probe()
        return items, Probe()
    cnt = [0]
    if kind == "generator":
        def gen():
            for x in items:
                cnt[0] += 1
                yield x
        return gen(), Probe(pulled=lambda: cnt[0])

    def tick(x):
        cnt[0] += 1
        return x
    return (tick(x) for x in items), Probe(pulled=lambda: cnt[0])


# ------------------------------------------------------------------ items

class FakeTok:
    __slots__ = ("text", "cls")

    def __init__(self, text, cls):
        self.text, self.cls = text, cls

    def __repr__(self):
        return "T%d%r" % (self.cls, self.text)


class FalsyTok(FakeTok):
    __slots__ = ()

    def __bool__(self):
        return False

    def __len__(self):
        return 0


class EqTok(FakeTok):
    """all instances compare equal and hash alike: only identity tells them apart"""
    __slots__ = ()

    def __eq__(self, other):
        return isinstance(other, EqTok)

    def __hash__(self):
        return 7


def _real_token(rng, cls):
    from debian._deb822_repro import tokens as T
    mk = [lambda: T.Deb822WhitespaceToken(" " * (1 + cls)), lambda: T.Deb822CommaToken(),
          lambda: T.Deb822ValueToken("v%d" % cls), lambda: T.Deb822CommentToken("# c%d\n" % cls),
          lambda: T.Deb822NewlineAfterValueToken(), lambda: T.Deb822ErrorToken("e%d\n" % cls),
          lambda: T.Deb822FieldNameToken("F%d" % cls), lambda: T.Deb822FieldSeparatorToken()]
    return mk[cls % len(mk)]()


def make_object(rng, style, cls, idx):
    if style == "tok":
        return FakeTok("t%d" % idx, cls)
    if style == "real":
        return _real_token(rng, cls)
    if style == "falsy":
        k = idx % 6
        return [FalsyTok("", cls), [], bytearray(), float("0"), {}, set()][k]
    if style == "eq":
        return EqTok("same", cls)
    k = rng.randrange(7)
    if k == 0:
        return int("1%04d%d" % (idx % 10000, cls))        # a fresh int object
    if k == 1:
        return "".join(["s", str(idx), "́\U0001f600"])
    if k == 2:
        return (cls, idx)
    if k == 3:
        return FalsyTok("", cls)
    if k == 4:
        return [cls]
    if k == 5:
        return frozenset([idx])
    return FakeTok("m%d" % idx, cls)


STYLES = ["tok", "real", "falsy", "eq", "mixed"]


class Pool:
    """tag -> object (one object per tag: equal tags are the same object), object -> tag by identity"""

    def __init__(self, rng, script, style):
        self.style = style
        self.obj_of = {}
        for n, x in enumerate(script):
            if x > 0 and x not in self.obj_of:
                self.obj_of[x] = make_object(rng, style, x % NC, n)
        self.tag_of = {id(o): t for t, o in self.obj_of.items()}
        assert len(self.tag_of) == len(self.obj_of)

    def tag(self, o):
        t = self.tag_of.get(id(o))
        if t is None or self.obj_of[t] is not o:
            return -7                    # not an object of the source: no model value equals it
        return t

    def cls(self, o):
        return self.tag_of[id(o)] % NC


class _PredObj:
    def __init__(self, f):
        self.f = f

    def __call__(self, x):
        return self.f(x)

    def method(self, x):
        return self.f(x)


def make_pred(rng, pool, classes, form=None):
    """a Python callable for the model predicate `class in classes`; the forms differ in how they
    are called and in the truthy / falsy values they return"""
    cs = frozenset(classes)

    def base(x):
        return pool.cls(x) in cs
    form = rng.randrange(7) if form is None else form
    if form == 0:
        return base
    if form == 1:
        return lambda x: 1 if base(x) else 0
    if form == 2:
        return lambda x: "yes" if base(x) else ""
    if form == 3:
        return lambda x: [x] if base(x) else None
    if form == 4:
        return functools.partial(lambda a, x: base(x), None)
    if form == 5:
        return _PredObj(base)
    return _PredObj(base).method


# ------------------------------------------------------------------ driver

def R(t, v=()):
    return {"t": t, "v": list(v)}


class Live:
    """one live BufferingIterator with everything needed to drive and observe it"""

    def __init__(self, rng, script, kind, style, pool=None):
        from debian._deb822_repro._util import BufferingIterator
        self.script = list(script)
        self.kind, self.style = kind, style
        self.pool = pool or Pool(rng, script, style)
        src, self.probe = make_source(kind, script, self.pool.obj_of)
        self.bi = BufferingIterator(src)
        self.gens = []
        self.kept = []           # results handed out earlier, kept alive and mutated by the "caller"
        self.events = []

    def proj_list(self, v):
        if type(v) is not list:
            return R("exc", ()) | {"x": "returned %s, not a list" % type(v).__name__}
        return R("list", [self.pool.tag(o) for o in v])

    def call(self, rng, ev):
        """execute one event {op,k,lim,p,g}; returns the projected result record"""
        bi, op = self.bi, ev["op"]
        var = rng.randrange(4)
        try:
            if op == "next":
                if var == 0:
                    v = next(bi)
                elif var == 1:
                    v = bi.__next__()
                elif var == 2:
                    v = next(bi, _SENTINEL)
                    if v is _SENTINEL:
                        return R("stop")
                else:
                    v = _SENTINEL
                    for v in bi:
                        break
                    if v is _SENTINEL:
                        return R("stop")
                return R("item", [self.pool.tag(v)])
            if op in ("peek", "peek_at"):
                if op == "peek":
                    v = bi.peek()
                else:
                    v = bi.peek_at(ev["k"]) if var % 2 == 0 else bi.peek_at(tokens_ahead=ev["k"])
                return R("none") if v is None else R("item", [self.pool.tag(v)])
            if op == "peek_many":
                v = bi.peek_many(ev["k"]) if var % 2 == 0 else bi.peek_many(number=ev["k"])
                r = self.proj_list(v)
                self.keep(rng, v)
                return r
            if op == "consume_many":
                v = bi.consume_many(ev["k"]) if var % 2 == 0 else bi.consume_many(count=ev["k"])
                r = self.proj_list(v)
                self.keep(rng, v)
                return r
            if op == "peek_buffer":
                v = bi.peek_buffer()
                r = self.proj_list(v)
                self.keep(rng, v)
                return r
            if op == "peek_find":
                pred = make_pred(rng, self.pool, ev["p"])
                if ev["lim"] < 0:
                    v = bi.peek_find(pred) if var == 0 else (bi.peek_find(pred, None) if var == 1 else
                                                             bi.peek_find(predicate=pred, limit=None) if var == 2 else bi.peek_find(pred, limit=None))
                else:
                    v = bi.peek_find(pred, ev["lim"]) if var % 2 == 0 else bi.peek_find(predicate=pred, limit=ev["lim"])
                if v is None:
                    return R("none")
                if type(v) is not int:
                    return R("exc") | {"x": "peek_find returned %r" % (v,)}
                return R("idx", [v])
            if op == "tw_new":
                pred = make_pred(rng, self.pool, ev["p"])
                g = bi.takewhile(pred) if var % 2 == 0 else bi.takewhile(predicate=pred)
                self.gens.append(iter(g))
                return R("gen", [len(self.gens)])
            if op == "tw_step":
                g = self.gens[ev["g"] - 1]
                if var % 2 == 0:
                    v = next(g)
                else:
                    v = _SENTINEL
                    for v in g:
                        break
                    if v is _SENTINEL:
                        return R("stop")
                return R("item", [self.pool.tag(v)])
            if op == "tw_close":
                g = self.gens[ev["g"] - 1]
                if hasattr(g, "close") and var % 2 == 0:
                    g.close()
                else:
                    self.gens[ev["g"] - 1] = iter(())       # abandoned: the generator object dies
                    del g
                return R("ok")
            if op == "tw_list":
                pred = make_pred(rng, self.pool, ev["p"])
                if var == 0:
                    v = list(bi.takewhile(pred))
                elif var == 1:
                    v = [x for x in bi.takewhile(pred)]
                elif var == 2:
                    v = []
                    v.extend(bi.takewhile(predicate=pred))
                else:
                    v = list(tuple(bi.takewhile(pred)))
                return self.proj_list(v)
            raise AssertionError(op)
        except StopIteration:
            return R("stop")
        except SrcError:
            return R("err")
        except Exception as ex:          # anything else is an observation no model value equals
            if self.kind == "lencheck" and isinstance(ex, ValueError) and "Value parser" in str(ex):
                return R("err")
            return R("exc") | {"x": "%s: %s" % (type(ex).__name__, str(ex)[:80])}

    def keep(self, rng, v):
        """state-leak probe: the caller keeps the lists it got; some it scribbles over, the others
        must stay exactly as they were handed out"""
        if type(v) is list:
            self.kept.append([v, list(v)])
            if len(self.kept) > 6:
                self.kept.pop(0)
            ent = rng.choice(self.kept)
            w = ent[0]
            k = rng.randrange(8)
            if k == 0:
                w.clear()
            elif k == 1:
                w.append("caller's own")
            elif k == 2 and w:
                w[0] = "overwritten"
            elif k == 3:
                w.reverse()
            ent[1] = list(w)

    def kept_changed(self):
        for w, snap in self.kept:
            if len(w) != len(snap) or any(a is not b for a, b in zip(w, snap)):
                return "a list handed out earlier changed behind the caller's back: %d items now, %d when last seen" % (len(w), len(snap))
        return None

    def step(self, rng, ev):
        """execute and record one event"""
        r = self.call(rng, ev)
        leak = self.kept_changed()
        if leak and r["t"] != "exc":
            r = dict(R("exc"), x=leak)
        rec = {"op": ev["op"], "k": ev.get("k", 0), "lim": ev.get("lim", -1), "p": sorted(ev.get("p", ())),
               "g": ev.get("g", 0), "res": r, "polls": self.probe.polls(), "pulled": self.probe.pulled()}
        self.events.append(rec)
        return rec

    def trace(self):
        return {"script": self.script, "events": self.events}


_SENTINEL = object()


def lencheck_live(rng, script, style="tok"):
    """BufferingIterator(len_check_iterator(content, scripted tokens, content_len)) as parsing._parse_str
    builds it: a script ending in -1 is a tokenisation that does not cover the content"""
    from debian._deb822_repro._util import BufferingIterator, len_check_iterator
    assert all(x > 0 for x in script[:-1]) and script and script[-1] in (ERR,) or is_plain(script)
    live = Live.__new__(Live)
    items = [x for x in script if x > 0]
    live.script = list(script)
    live.kind, live.style = "lencheck", "tok"
    pool = Pool.__new__(Pool)
    pool.style = "tok"
    texts = ["", "a", "\U0001f600b", "é", "xyz"]
    pool.obj_of = {x: FakeTok(texts[(x // NC) % len(texts)], x % NC) for x in items}
    pool.tag_of = {id(o): t for t, o in pool.obj_of.items()}
    live.pool = pool
    covered = sum(len(pool.obj_of[x].text) for x in items)
    wrong = script[-1:] == [ERR]
    want = covered + (rng.choice((1, -1, 7)) if wrong else 0)
    if want < 0 or (wrong and want == covered):
        want = covered + 1
    s = ScriptSource(items, pool.obj_of)
    content = "c" * want
    if rng.random() < 0.5:
        src = len_check_iterator(content, s)
    else:
        src = len_check_iterator("other", s, content_len=want)
    live.probe = Probe(pulled=lambda: s.pulled)
    live.bi = BufferingIterator(src)
    live.gens, live.kept, live.events = [], [], []
    return live


# ------------------------------------------------------------------ random histories

BOUNDARY = [0, 1, 2, 3, 4, 5, 6, 7, 9, 10, 11, 15, 16, 17, 31, 32, 33, 63, 64, 65, 99, 100, 101, 127, 128, 129, 255, 256, 257]


def rand_script(rng, n, special=True, dup=0.0):
    """a script of n items with random classes; tags are position-unique unless dup > 0 (the same
    OBJECT several times); special: maybe raising entries and a tail after the end signal"""
    tags = []
    for i in range(1, n + 1):
        if tags and rng.random() < dup:
            tags.append(rng.choice(tags))
        else:
            tags.append(i * NC + rng.randrange(NC) if rng.random() < 0.7 else i * NC + rng.randrange(2))
    s = list(tags)
    if special:
        r = rng.random()
        if r < 0.15 and n < 300:
            s.insert(rng.randrange(len(s) + 1), ERR)
        r = rng.random()
        if r < 0.12:
            s += [STOP, (n + 1) * NC + rng.randrange(NC)]
        elif r < 0.2:
            s += [STOP, ERR]
        elif r < 0.26:
            s += [STOP, (n + 1) * NC + 1, (n + 2) * NC, STOP, (n + 3) * NC + 2]
        elif r < 0.3:
            s += [ERR]
    return s


def near(rng, n):
    """an argument in the neighbourhood of n or of a boundary value"""
    r = rng.random()
    if r < 0.45:
        return max(0, n + rng.choice((-2, -1, 0, 0, 1, 2, 5)))
    if r < 0.8:
        return rng.choice((0, 1, 1, 2, 3, 4, 5, 6, 7, 10, 11))
    return rng.choice(BOUNDARY)


def rand_event(rng, live, nitems):
    """one random in-domain call for the live object (arguments near what is left of the source)"""
    left = max(0, nitems - sum(1 for e in live.events if e["res"]["t"] == "item")
               - sum(len(e["res"]["v"]) for e in live.events if e["op"] in ("consume_many", "tw_list") and e["res"]["t"] == "list"))
    ops = ["next"] * 4 + ["peek"] * 2 + ["peek_at"] * 2 + ["peek_many"] * 3 + ["consume_many"] * 3 + ["peek_buffer"] * 2 + \
          ["peek_find"] * 4 + ["tw_new"] * 2 + ["tw_list"] * 2
    if live.gens:
        ops += ["tw_step"] * 6 + ["tw_close"]
    op = rng.choice(ops)
    if any(x == ERR for x in live.script) and op == "tw_list":
        op = "tw_new"           # list(takewhile) over a raising source is outside the statement
    if op == "tw_new" and len(live.gens) >= 4:
        op = "tw_step"
    ev = {"op": op}
    if op == "peek_at":
        ev["k"] = max(1, near(rng, left))
    elif op in ("peek_many", "consume_many"):
        ev["k"] = near(rng, left)
    elif op in ("peek_find", "tw_new", "tw_list"):
        r = rng.random()
        if r < 0.15:
            ev["p"] = []
        elif r < 0.3:
            ev["p"] = list(range(NC))
        elif r < 0.6:
            ev["p"] = [rng.randrange(NC)]
        else:
            ev["p"] = [c for c in range(NC) if rng.random() < 0.5]
        if op == "peek_find":
            ev["lim"] = -1 if rng.random() < 0.5 else near(rng, left)
    elif op in ("tw_step", "tw_close"):
        ev["g"] = rng.randrange(len(live.gens)) + 1
    return ev
