"""X17 helpers, comment leg: concretization of the worlds of spec/FieldComment.tla, driving the comment API of
debian._deb822_repro on real paragraphs, projection of real paragraphs back to model form (traces).

Nothing in here decides a verdict on its own: expected results are the outcomes TLC printed (EDGE / NORM lines)
or are decided by TLC (TraceFieldComment); this module concretizes symbols injectively, performs calls and compares
texts / object identities."""
import io
import random

import core

BOUNDARY = [1, 2, 7, 8, 9, 15, 16, 17, 31, 32, 33, 63, 64, 65, 71, 72, 73, 79, 80, 81, 127, 128, 129, 255, 256, 257,
            1023, 1024, 1025, 4095, 4096, 4097, 8191, 8192, 8193]

# names: number order = order under lower() (sort_fields)
NAME_TRIPLES = [("Architecture", "Build-Depends", "Depends"), ("Homepage", "Maintainer", "Package"),
                ("Section", "Source", "Uploaders"), ("Files", "License", "X-Comment"), ("a", "B", "c1"),
                ("Checksums-Sha256", "Description", "Vcs-Git"), ("Breaks", "Pre-Depends", "Zz_Top.x+y")]

# visible text for "x" tokens of comment lines: first / last character neither white space nor '#'
TAME = ["foo", "note", "see", "bug-12345", "TODO:", "x", "a=b", "(c)", "Build-Depends:", "1.2~rc3"]
ODD = ["café", "café", "Å", "Å", "類", "ﬁn", "Ａ", "한", "straße",
       "İstanbul", "ı", "ſt", "σς", "\U00010400", "﻿bom", "mid﻿dle", "z‍w‌j",
       "so­ft", "‏r‎l", "\U0001f600", "\U0010ffff", "́lone", "nb sp", "em sp", "id　eo",
       "zw​sp", "a\x0bb", "a\x0cb", "a\x1cb", "a\x1db", "a\x1eb", "a\x85b", "a b", "a b", "a\rb",
       "in#side", "co:lon", "com,ma", "tab\there", "two  blanks"]
# the same without characters str.splitlines() treats as line ends (list views re-split the text they write)
ODD_NOSPLIT = [t for t in ODD if not any(c in t for c in "\x0b\x0c\x1c\x1d\x1e\x85  \r")]


def tail_char(rng):
    """U+0400..U+043F encode as D0 80..D0 BF: every UTF-8 trailing byte at the end / start of a run"""
    return chr(0x400 + rng.randrange(64))


def heavy_len(rng):
    r = rng.random()
    if r < 0.55:
        return rng.choice(BOUNDARY[:15])
    if r < 0.9:
        return rng.choice(BOUNDARY[15:29])
    return rng.choice(BOUNDARY[29:])


def visible(rng, stress, nosplit=False):
    """text of one "x" token"""
    if stress == 0:
        return rng.choice(TAME)
    if stress == 1:
        pool = ODD_NOSPLIT if nosplit else ODD
        t = rng.choice(pool)
        r = rng.random()
        if r < 0.3:
            t = tail_char(rng) + t
        elif r < 0.6:
            t = t + tail_char(rng)
        return t
    n = heavy_len(rng)
    if n == 1:
        return rng.choice("xyzQ7")
    body = "".join(rng.choice("abcdefghij klm#no\tp") for _ in range(n - 2)) if n <= 300 else ("y" * (n - 2))
    return "s" + body + "e"


def blanks(rng, stress):
    r = rng.random()
    if stress == 2 and r < 0.5:
        n = heavy_len(rng)
        if r < 0.25:
            return " " * n
        unit = "".join(rng.choice(" \t") for _ in range(rng.choice([2, 3, 5, 7])))      # (cheap: a short random unit repeated)
        return (unit * (n // len(unit) + 1))[:n]
    return rng.choice(["  ", "\t", " \t", "\t ", "   ", "\t\t", "    "])


def lines_keepends(text):
    """split at newline ONLY (never str.splitlines: \\x0b \\x85 U+2028 ... are not line ends of the format)"""
    parts = text.split("\n")
    out = [p + "\n" for p in parts[:-1]]
    if parts[-1]:
        out.append(parts[-1])
    return out


def ascii_swap(rng, s):
    return "".join(c.upper() if rng.random() < 0.5 else c.lower() for c in s)


PARSE_FORMS = ["list", "iter", "gen", "stringio", "bytes-list", "bytesio"]


def parse(text, form, **kw):
    from debian._deb822_repro import parse_deb822_file
    ls = lines_keepends(text)
    if form == "list":
        src = ls
    elif form == "iter":
        src = iter(ls)
    elif form == "gen":
        src = (x for x in ls)
    elif form == "stringio":
        src = io.StringIO(text, newline="\n")
    elif form == "bytes-list":
        src = [x.encode("utf-8") for x in ls]
    else:
        src = io.BytesIO(text.encode("utf-8"))
    return parse_deb822_file(src, **kw)


def scan_paragraph(text):
    """the fields of a paragraph, from its text alone: [[comment lines, spelled name, text after the colon], ...]
    (comment lines between two lines of a value belong to the value); None when the text is not a paragraph"""
    fields = []
    pending = []
    for ln in lines_keepends(text):
        if ln.startswith("#"):
            pending.append(ln)
            continue
        if ln[:1] in (" ", "\t"):
            if not fields:
                return None
            fields[-1][2] += "".join(pending) + ln
            pending = []
            continue
        if ":" not in ln:
            return None
        name, rest = ln.split(":", 1)
        fields.append([pending, name, rest])
        pending = []
    if pending:
        return None
    return fields


# ------------------------------------------------------------------ concretization of model worlds

class Conc(object):
    """injective map from the symbols of one model world family to texts.  stress: 0 tame, 1 odd characters, 2 sizes"""

    def __init__(self, seed, stress, nosplit=False):
        self.seed, self.stress, self.nosplit = seed, stress, nosplit
        rng = self.rng = random.Random("x17-conc-%s-%s" % (seed, stress))
        tri = list(rng.choice(NAME_TRIPLES))
        if stress == 2 and rng.random() < 0.7:
            k = rng.randrange(3)
            n = rng.choice([15, 16, 17, 31, 32, 33, 63, 64, 65, 127, 128, 129, 255, 256, 257])
            tri[k] = tri[k] + "-" + "n" * max(1, n - len(tri[k]) - 1)
        self.names = {i + 1: tri[i] for i in range(3)}
        self.runs = {}          # (class, id) -> text
        self.used = set([" "])
        self.values = {}
        self.prefix = rng.choice(["", "", "# free comment\n\n", "\n"]) if stress else ""
        self.form = rng.choice(PARSE_FORMS)

    # -- names
    def spelled(self, n, s):
        base = self.names[n]
        return base if s == "C" else base.lower() if s == "L" else s

    def anykey(self, n, rng):
        return ascii_swap(rng, self.names[n]) if rng.random() < 0.6 else rng.choice([self.names[n], self.names[n].lower(), self.names[n].upper()])

    # -- comment tokens
    def tok(self, t):
        c, i = t[0], t[1]
        if c == "h":
            return "#"
        if c == "n":
            return "\n"
        if c == "b" and i == 1:
            return " "
        key = (c, i)
        if key not in self.runs:
            for _ in range(200):
                txt = blanks(self.rng, self.stress) if c == "b" else visible(self.rng, self.stress, self.nosplit)
                if txt not in self.used:
                    break
                txt = None
            if txt is None:
                txt = ("\t" * (i + 2)) if c == "b" else "u%dq" % i
            self.used.add(txt)
            self.runs[key] = txt
        return self.runs[key]

    def line(self, toks):
        return "".join(self.tok(t) for t in toks)

    def lines(self, ls):
        return [self.line(x) for x in ls]

    # -- values: symbol -> dict(first, rest, stored, rawonly)
    def value(self, v):
        if v not in self.values:
            rng = self.rng
            w = "val%d" % v
            r = rng.random()
            if v == 0:                          # values of the start document: any layout
                opts = [" %s\n" % w, "\t%s\n" % w, "%s\n" % w, " %s  x:y #z \n" % w,
                        " %s,\n# inner %s\n z%s\n" % (w, w, w), "\n %s\n more\n" % w, " %s é中%s\n" % (w, tail_char(rng))]
                self.values[v] = dict(stored=rng.choice(opts) if self.stress else opts[0], first=None, rest=None, rawonly=True)
            elif r < 0.55 or (v >= 7 and r >= 0.8):       # (symbols >= 7 are given as dict values: never raw-only)
                first = rng.choice(["%s" % w, "%s x y" % w, "%s #no comment" % w, "%s:%s" % (w, w), "#%s" % w])
                if self.stress == 2 and rng.random() < 0.4:
                    first = w + "y" * heavy_len(rng)
                if self.stress == 1 and rng.random() < 0.5:
                    first = "%s café b %s%s" % (w, rng.choice(["Å", "\U0001f600", "ﬁ"]), tail_char(rng))
                self.values[v] = dict(stored=" " + first + "\n", first=first, rest="", rawonly=False)
            elif r < 0.8:
                first = "%s," % w
                rest = rng.choice([" b%s\n" % w, "# inline %s\n c%s\n" % (w, w), " b,\n\tc\n", " .\n end%s\n" % w])
                self.values[v] = dict(stored=" " + first + "\n" + rest, first=first, rest=rest, rawonly=False)
            else:
                stored = rng.choice(["%s\n" % w, "\t%s\n" % w, "  %s  \n" % w, "\n %s\n" % w, " %s\n#c\n\t%s\n" % (w, w)])
                self.values[v] = dict(stored=stored, first=None, rest=None, rawonly=True)
        return self.values[v]

    # -- texts
    def field_text(self, f):
        return "".join(self.lines(f["c"]["ls"])) + self.spelled(f["n"], f["s"]) + ":" + self.value(f["v"])["stored"]

    def para_text(self, fs):
        return "".join(self.field_text(f) for f in fs)

    def file_text(self, w):
        return self.prefix + "\n".join(self.para_text(fs) for fs in w["ps"])


class BadElementUnavailable(Exception):
    pass


def make_element(lines, how):
    """a detached Deb822CommentElement holding these lines.  how: 0 taken from a scratch field and detached,
    1 built from tokens"""
    from debian._deb822_repro.parsing import Deb822CommentElement
    from debian._deb822_repro.tokens import Deb822CommentToken
    if how == 0 and all(x.endswith("\n") for x in lines):
        f = parse("".join(lines) + "Scratch: y\n", "list")
        kv = next(iter(f)).get_kvpair_element("Scratch")
        e = kv.comment_element
        kv.comment_element = None
        keep_alive.append(f)
        return e
    return Deb822CommentElement([Deb822CommentToken(x) for x in lines])


def bad_element_lines(rng, last):
    """lines of an ill-formed element: well-formed lines (0..2) followed by a last line without newline"""
    return ["# well-formed line %d\n" % i for i in range(rng.choice([0, 0, 1, 2]))] + list(last)


keep_alive = []      # scratch documents stay alive for the whole run (leak probe: nothing may depend on their death)

EXC = {"ValueError": "ValueError", "AmbiguousDeb822FieldKeyError": "Ambiguous", "KeyError": "KeyError", "X17Fault": "CallerError"}


class X17Fault(Exception):
    """the private exception of a faulting caller-supplied object (SIZE_STRESS part 5)"""


class FaultyList(list):
    """a list of comment lines whose iteration raises after k items (len(), indexing and isinstance(list) work)"""

    def __init__(self, items, k):
        list.__init__(self, items)
        self._k = k

    def __iter__(self):
        for i, x in enumerate(list.__iter__(self)):
            if i >= self._k:
                raise X17Fault("line %d of the caller's list cannot be read" % (i + 1))
            yield x
        raise X17Fault("the caller's list cannot be read to its end")


class FaultyDict(dict):
    """a mapping whose items() / iteration raise after k items"""

    def __init__(self, pairs, k):
        dict.__init__(self, pairs)
        self._k = k

    def _walk(self, it):
        for i, x in enumerate(it):
            if i >= self._k:
                raise X17Fault("item %d of the caller's mapping cannot be read" % (i + 1))
            yield x
        raise X17Fault("the caller's mapping cannot be read to its end")

    def items(self):
        return self._walk(dict.items(self))

    def __iter__(self):
        return self._walk(dict.__iter__(self))

    def keys(self):
        return self._walk(dict.keys(self))


class FaultyFd(object):
    """a binary file object whose k-th write() raises"""

    def __init__(self, k):
        self.k, self.n, self.data = k, 0, []

    def write(self, b):
        self.n += 1
        if self.n > self.k:
            raise X17Fault("write %d fails" % self.n)
        self.data.append(b)
        return len(b)
_REAL = {}


def from_repo(ex):
    """core.raised_by_code_under_test with cached realpath() (thousands of expected ValueErrors per run): True when
    the innermost frame of the traceback lies in the repository under test"""
    import os
    import traceback
    if "repo" not in _REAL:
        _REAL["repo"] = os.path.realpath(os.environ.get("VERIF_REPO", "/repo")) + os.sep
    tb = traceback.extract_tb(ex.__traceback__)
    if not tb:
        return False
    fn = tb[-1].filename
    if fn not in _REAL:
        _REAL[fn] = os.path.realpath(fn)
    return _REAL[fn].startswith(_REAL["repo"])


def classify(ex):
    return EXC.get(type(ex).__name__, "?" + type(ex).__name__)


class World(object):
    """real paragraphs + the element objects the caller holds, for one model world"""

    def __init__(self, conc, w, rng, free=False):
        self.conc = conc
        self.reg = {}
        self.appended = []          # fields added by a setter (kept alive: identity is compared)
        self.kvparent_hits = []
        self.nh = w["nh"]
        self.file = None
        self.paras = []
        if not free:
            self.file = parse(conc.file_text(w), conc.form, accept_files_with_duplicated_fields=True)
            self.paras = list(self.file)
            if len(self.paras) != len(w["ps"]):
                raise core.MachineryError("start document of a world parsed into %d paragraphs, expected %d" % (len(self.paras), len(w["ps"])))
            for p, fs in enumerate(w["ps"]):
                kvs = self.kvs(p)
                for j, f in enumerate(fs):
                    if f["c"]["h"]:
                        self.reg[f["c"]["h"]] = kvs[j].comment_element
        for rec in w["held"]:
            self.reg[rec["h"]] = make_element(conc.lines(rec["ls"]), rng.randrange(2))

    def kvparent_known(self, p, kv):
        """open finding X17-dup-append-parent: a field APPENDED to a paragraph of the duplicate-fields class by one of
        the setters does not name the paragraph as parent_element"""
        if type(self.paras[p]).__name__ != "Deb822DuplicateFieldsParagraphElement":
            return False
        if not any(kv is x for x in self.appended):
            return False
        if not any(kv is x for x in self.kvparent_hits):
            self.kvparent_hits.append(kv)
        return True

    def kvs(self, p):
        from debian._deb822_repro.parsing import Deb822KeyValuePairElement
        return list(self.paras[p].iter_parts_of_type(Deb822KeyValuePairElement))

    def known(self, e):
        for h, o in self.reg.items():
            if o is e:
                return h
        return 0

    def grab(self, e):
        """the caller looks at an element object: it gets a handle number (as the specification numbers them)"""
        if e is None:
            return 0
        h = self.known(e)
        if not h:
            h = self.nh
            self.reg[h] = e
            self.nh += 1
        return h

    # ---- keys
    def key_for(self, p, key, rng, present):
        """a key object for the model key [n, s, i]"""
        conc = self.conc
        n, s, i = key["n"], key["s"], key["i"]
        if not present:
            name = conc.spelled(n, s)
            return (name, 0) if i == 0 else name
        name = conc.anykey(n, rng)
        occ = [kv for kv in self.kvs(p) if kv.field_name.lower() == conc.names[n].lower()]
        if i == -1:
            if len(occ) == 1 and rng.random() < 0.25:
                return rng.choice([(name, 0), occ[0].field_token])
            return name
        r = rng.random()
        if r < 0.3 and i < len(occ):
            return occ[i].field_token
        if r < 0.45 and i == len(occ) - 1 and len(occ) > 1:
            return (name, -1)
        return (name, i)

    # ---- calls
    def apply(self, c, rng, bad_lines=("# no newline",)):
        """perform the model call c; -> outcome class"""
        try:
            self._apply(c, rng, bad_lines)
            return "ok"
        except X17Fault:
            return "CallerError"
        except Exception as ex:      # noqa: BLE001 -- an exception of the library is an observation
            if not from_repo(ex):
                raise
            return classify(ex)

    def _comment_kw(self, c, p, rng, bad_lines):
        conc, m = self.conc, c["m"]
        k = m["k"]
        if k == "default":
            return {}
        if k == "keep":
            return {"preserve_original_field_comment": True}
        if k == "drop":
            return {"preserve_original_field_comment": False}
        if k in ("list", "confK", "confD"):
            ls = conc.lines(m["cl"])
            r = rng.random()
            given = ls if r < 0.7 else tuple(ls)
            self.last_list = given if isinstance(given, list) else None
            kw = {"field_comment": given}
            if k != "list":
                kw["preserve_original_field_comment"] = (k == "confK")
                if rng.random() < 0.3 and self.reg:
                    held = [h for h in self.reg if self.is_detached(h)]
                    if held:
                        kw["field_comment"] = self.reg[rng.choice(held)]
            return kw
        if k == "elem":
            return {"field_comment": self.reg[m["h"]]}
        if k == "self":
            kvs = [kv for kv in self.kvs(p) if kv.field_name.lower() == conc.names[c["key"]["n"]].lower()]
            kv = kvs[0 if c["key"]["i"] == -1 else c["key"]["i"]]
            e = kv.comment_element
            self.grab(e)
            return {"field_comment": e}
        if k == "bad":
            return {"field_comment": make_element(bad_element_lines(rng, bad_lines), 1)}
        raise core.MachineryError("unknown comment mode %r" % (k,))

    def is_detached(self, h):
        e = self.reg[h]
        for p in range(len(self.paras)):
            for kv in self.kvs(p):
                if kv.comment_element is e:
                    return False
        return True

    def _apply(self, c, rng, bad_lines):
        from debian._deb822_repro.parsing import Deb822ParagraphElement
        conc, op = self.conc, c["op"]
        self.last_list = None
        if op == "set":
            p = c["p"] - 1
            para = self.paras[p]
            present = any(kv.field_name.lower() == conc.names[c["key"]["n"]].lower() for kv in self.kvs(p))
            kw = self._comment_kw(c, p, rng, bad_lines)
            key = self.key_for(p, c["key"], rng, present)
            val = conc.value(c["v"])
            mode = c["m"]["k"]
            apis = ["raw"]
            if not val["rawonly"]:
                if val["rest"] == "":
                    apis.append("simple")
                if mode == "default":
                    apis += ["item", "update", "view"] + (["setdefault"] if not present else [])
                if mode == "drop":
                    apis.append("dropview")
            api = rng.choice(apis)
            self.last_api = api
            if api == "raw":
                para.set_field_from_raw_string(key, val["stored"], **kw)
            elif api == "simple":
                txt = val["first"]
                if rng.random() < 0.4:
                    txt = rng.choice(["", " ", "\t"]) + txt + rng.choice(["", "  ", "\t"])
                para.set_field_to_simple_value(key, txt, **kw)
            else:
                txt = val["first"] + ("\n" + val["rest"][:-1] if val["rest"] else "")
                if api == "item":
                    para[key] = txt
                elif api == "update":
                    para.update({key: txt})
                elif api == "setdefault":
                    para.setdefault(key, txt)
                elif api == "view":
                    para.configured_view()[key] = txt
                else:
                    para.configured_view(preserve_field_comments_on_field_updates=False)[key] = txt
            if not present:
                after = self.kvs(p)
                if after:
                    self.appended.append(after[-1])
            if self.last_list is not None:          # the caller's list is the caller's: mutating it afterwards changes nothing
                self.last_list.append("# appended after the call\n")
                self.last_list[:] = ["# overwritten\n"] * len(self.last_list)
            return
        if op == "fset":
            p = c["p"] - 1
            para = self.paras[p]
            present = any(kv.field_name.lower() == conc.names[c["key"]["n"]].lower() for kv in self.kvs(p))
            key = self.key_for(p, c["key"], rng, present)
            val = conc.value(c["v"])
            fl = FaultyList(conc.lines(c["m"]["cl"]), c["j"])
            self.last_api = "raw+fault"
            if val["rawonly"] or val["rest"] != "" or rng.random() < 0.5:
                para.set_field_from_raw_string(key, val["stored"], field_comment=fl)
            else:
                para.set_field_to_simple_value(key, val["first"], field_comment=fl)
            return
        if op == "fdict":
            pairs = []
            for it in c["it"]:
                val = conc.value(it["v"])
                pairs.append((conc.spelled(it["n"], it["s"]), val["first"] + ("\n" + val["rest"][:-1] if val["rest"] else "")))
            self.paras.append(Deb822ParagraphElement.from_dict(FaultyDict(pairs, c["j"])))
            return
        if op == "cmt":
            p = c["p"] - 1
            kv = self.kvs(p)[c["j"] - 1]
            if rng.random() < 0.5:                  # the same object through the lookup API
                occ = [x for x in self.kvs(p) if x.field_name == kv.field_name]
                got = self.paras[p].get_kvpair_element((ascii_swap(rng, str(kv.field_name)), occ.index(kv)))
                if got is not kv:
                    raise core.MachineryError("get_kvpair_element returned another object than iteration")
            if c["x"] == "bad":
                kv.comment_element = make_element(bad_element_lines(rng, bad_lines), 1)
                return
            self.grab(kv.comment_element)
            kv.comment_element = None if c["x"] == "none" else self.reg[c["m"]["h"]]
            return
        if op == "del":
            p = c["p"] - 1
            present = any(kv.field_name.lower() == conc.names[c["key"]["n"]].lower() for kv in self.kvs(p))
            key = self.key_for(p, c["key"], rng, present)
            how = rng.randrange(3)
            if how == 0:
                del self.paras[p][key]
            elif how == 1:
                self.paras[p].pop(key)
            else:
                self.paras[p].remove_kvpair_element(key)
            return
        if op == "move":
            p = c["p"] - 1
            key = self.key_for(p, c["key"], rng, True)
            (self.paras[p].order_first if c["x"] == "first" else self.paras[p].order_last)(key)
            return
        if op == "sort":
            p = c["p"] - 1
            how = rng.randrange(4)
            if how == 0:
                self.paras[p].sort_fields()
            elif how == 1:
                self.paras[p].sort_fields(key=None)
            elif how == 2:
                self.paras[p].sort_fields(key=str.lower)
            else:
                self.paras[p].sort_fields(lambda s: s.lower())
            return
        if op == "new":
            from debian._deb822_repro.parsing import Deb822NoDuplicateFieldsParagraphElement
            how = rng.randrange(3)
            if how == 0 or not self.paras:
                q = Deb822ParagraphElement.new_empty_paragraph()
            elif how == 1:
                q = Deb822NoDuplicateFieldsParagraphElement.new_empty_paragraph()
            else:
                q = self.paras[0].new_empty_paragraph()
            self.paras.append(q)
            return
        if op == "dict":
            import collections
            items = [(conc.spelled(it["n"], it["s"]), it["v"]) for it in c["it"]]
            pairs = []
            for name, v in items:
                val = conc.value(v)
                if val["rawonly"]:
                    raise core.MachineryError("from_dict needs a value that can be given as a dict value")
                pairs.append((name, val["first"] + ("\n" + val["rest"][:-1] if val["rest"] else "")))
            how = rng.randrange(3)
            mapping = dict(pairs) if how == 0 else collections.OrderedDict(pairs) if how == 1 else _Map(pairs)
            self.paras.append(Deb822ParagraphElement.from_dict(mapping))
            if isinstance(mapping, dict):           # the caller's mapping is the caller's: emptying it afterwards changes nothing
                mapping.clear()
            return
        if op == "kv":
            p = c["p"] - 1
            kvs = self.kvs(p)
            if c["x"] == "rev":
                kvs = kvs[::-1]
            self.paras[p] = Deb822ParagraphElement.from_kvpairs(kvs)
            del kvs[:]                              # ... and so is the list handed to from_kvpairs
            return
        if op == "join":
            p, q = c["p"] - 1, c["j"] - 1
            both = self.kvs(p) + self.kvs(q)
            new = Deb822ParagraphElement.from_kvpairs(both)
            both.reverse()
            self.paras[p] = new
            del self.paras[q]
            return
        raise core.MachineryError("unknown op %r" % (op,))

    # ---- comparison with a model world (texts by injective concretization, objects by identity)
    deep = True          # diff(): also parse the document afresh and compare (switched off for a share of the quick replays)

    def diff(self, w, adopt=False):
        """None when the real objects are the model world w, else a message.  adopt: the handle numbering of w is taken
        over first (an alternative outcome in which the caller's element was not used)"""
        if adopt:
            self.nh = w["nh"]
        d = self.diff2(w)
        return None if d is None else d[1]

    def diff2(self, w):
        """-> None | (kind, message)"""
        conc = self.conc
        if len(self.paras) != len(w["ps"]):
            return "count", "%d paragraphs, the specification says %d" % (len(self.paras), len(w["ps"]))
        for p, fs in enumerate(w["ps"]):
            want = conc.para_text(fs)
            try:
                got = self.paras[p].dump()
                again = self.paras[p].dump()
            except Exception as ex:      # noqa: BLE001
                if not from_repo(ex):
                    raise
                return "exc", "dump() of paragraph %d raised %s: %s" % (p + 1, type(ex).__name__, ex)
            if got != again:
                return "text", "dump() of paragraph %d differs between two calls" % (p + 1)
            if got != want:
                return "text", "paragraph %d is %r, the specification says %r" % (p + 1, clip(got), clip(want))
            kvs = self.kvs(p)
            if len(kvs) != len(fs) or len(self.paras[p]) != len(fs):
                return "count", "paragraph %d has %d fields (len() %d), the specification says %d" % (p + 1, len(kvs), len(self.paras[p]), len(fs))
            for j, (kv, f) in enumerate(zip(kvs, fs)):
                e = kv.comment_element
                wantc = "".join(conc.lines(f["c"]["ls"]))
                where = "field %d (%s) of paragraph %d" % (j + 1, kv.field_name, p + 1)
                if (e is None) != (wantc == ""):
                    return "comment", "%s: comment_element is %s, the specification says %r" % (where, "None" if e is None else repr(clip(e.convert_to_text())), clip(wantc))
                if e is not None:
                    if e.convert_to_text() != wantc or "".join(t.text for t in e) != wantc or len(e) != len(f["c"]["ls"]):
                        return "comment", "%s: comment_element holds %r, the specification says %r" % (where, clip(e.convert_to_text()), clip(wantc))
                    h = self.known(e)
                    if h != f["c"]["h"]:
                        return "handle", ("%s: its comment element is %s, the specification says %s" % (
                            where, "the object of handle %d" % h if h else "an object the caller never held",
                            "the object of handle %d" % f["c"]["h"] if f["c"]["h"] else "an object of its own"))
                    if e.parent_element is not kv:
                        return "cparent", "%s: parent_element of its comment element is not the field" % where
                if kv.parent_element is not self.paras[p]:
                    if self.kvparent_known(p, kv):
                        continue
                    return "kvparent", "%s: parent_element is not the paragraph" % where
        if self.file is not None:
            got = self.file.dump()
            want = conc.file_text(w)
            if got != want:
                return "file", "the document is %r, the specification says %r" % (clip(got), clip(want))
            if self.deep:
                back = list(parse(got, "list", accept_files_with_duplicated_fields=True))
                if [x.dump() for x in back] != [conc.para_text(fs) for fs in w["ps"]]:
                    return "file", "a fresh parse of the document %r does not give the paragraphs back" % clip(got)
        for rec in w["held"]:
            e = self.reg.get(rec["h"])
            if e is None:
                raise core.MachineryError("handle %d of the specification is unknown to the harness" % rec["h"])
            if e.convert_to_text() != "".join(conc.lines(rec["ls"])):
                return "held", "the detached element of handle %d holds %r, the specification says %r" % (rec["h"], clip(e.convert_to_text()), clip("".join(conc.lines(rec["ls"]))))
            if not self.is_detached(rec["h"]):
                return "held", "the element of handle %d should be detached but is still the comment of a field" % rec["h"]
            if e.parent_element is not None:
                return "held", "the detached element of handle %d still has a parent_element" % rec["h"]
        if self.nh != w["nh"]:
            raise core.MachineryError("handle numbering diverged: harness %d, specification %d" % (self.nh, w["nh"]))
        return None

    def file_diff(self, w, parts):
        """Deb822FileElement.new_empty_file() + append of every non-empty paragraph"""
        from debian._deb822_repro.parsing import Deb822FileElement
        conc = self.conc
        f = Deb822FileElement.new_empty_file()
        g = Deb822FileElement.new_empty_file()
        if f.dump() != "" or list(f) != [] or f.is_valid_file:
            return "new_empty_file() is not empty: dump() %r, %d paragraphs" % (clip(f.dump()), len(list(f)))
        want = ""
        added = []
        for part in parts:
            if part[0] == "p":
                f.append(self.paras[part[1] - 1])
                added.append(self.paras[part[1] - 1])
                want += conc.para_text(w["ps"][part[1] - 1])
            else:
                want += "\n"
        if f.dump() != want:
            return "new_empty_file() + append gives %r, the specification says %r" % (clip(f.dump()), clip(want))
        if len(list(f)) != len(added) or any(a is not b for a, b in zip(f, added)):
            return "iterating the new file does not give the appended paragraphs"
        out = io.BytesIO()
        f.dump(out)
        if out.getvalue() != want.encode("utf-8"):
            return "dump(fd) of the new file differs from dump()"
        if want:
            bad = FaultyFd(len(want) % 3)                # the caller's fd fails at its 1st..3rd write: its exception, nothing else
            try:
                f.dump(bad)
                return "dump(fd) with a failing fd did not let the caller's exception out"
            except X17Fault:
                pass
            if f.dump() != want or not want.encode("utf-8").startswith(b"".join(bad.data)):
                return "after dump(fd) with a failing fd the document is %r, the specification says %r" % (clip(f.dump()), clip(want))
        if g.dump() != "" or list(g) != []:
            return "a second new_empty_file() created before the appends is not empty any more: %r" % clip(g.dump())
        return None


class _Map(object):
    """a Mapping that is not a dict"""

    def __init__(self, pairs):
        self._p = list(pairs)

    def items(self):
        seen = {}
        for k, v in self._p:
            seen[k] = v
        return list(seen.items())

    def __getitem__(self, k):
        return dict(self._p)[k]

    def __iter__(self):
        return iter(dict(self._p))

    def __len__(self):
        return len(dict(self._p))

    def keys(self):
        return dict(self._p).keys()


def clip(s, n=400):
    return s if len(s) <= n else s[:n // 2] + "...(%d)..." % len(s) + s[-n // 2:]


# ------------------------------------------------------------------ code -> spec: recorded histories

class Intern(object):
    """payload texts -> ids (TLC needs equality only); comparison by code point"""

    def __init__(self):
        self.sp, self.val = {}, {}
        self.run = {"b": {" ": 1}, "x": {}}

    def spelling(self, s):
        return self.sp.setdefault(s, "s%d" % (len(self.sp) + 1))

    def value(self, s):
        return self.val.setdefault(s, len(self.val) + 1)

    def _run(self, c, txt):
        t = self.run[c]
        if txt not in t:
            t[txt] = len(t) + 2
        return t[txt]

    def lex(self, line):
        """a comment line as tokens: maximal runs of blanks (space / tab), single newlines, visible runs; the '#'
        that starts a visible run is a token of its own"""
        out = []
        i, n = 0, len(line)
        while i < n:
            ch = line[i]
            if ch == "\n":
                out.append(["n", 0])
                i += 1
            elif ch in " \t":
                j = i
                while j < n and line[j] in " \t":
                    j += 1
                out.append(["b", self._run("b", line[i:j])])
                i = j
            else:
                j = i
                while j < n and line[j] not in " \t\n":
                    j += 1
                run = line[i:j]
                if run[0] == "#":
                    out.append(["h", 0])
                    run = run[1:]
                if run:
                    out.append(["x", self._run("x", run)])
                i = j
        return out


def line_in_domain(line):
    """white space other than blank / tab / the final newline at the edges of a comment line is not specified"""
    if not isinstance(line, str):
        return False
    body = line[:-1] if line.endswith("\n") else line
    core_ = body.strip(" \t")
    if "\n" in body:
        return True                       # refused whatever else it holds
    return core_ == "" or not (core_[0].isspace() or core_[-1].isspace())


def random_line(rng, stress, nosplit=False):
    """a comment line as a caller may hand it in"""
    r = rng.random()
    if r < 0.06:
        return ""
    if r < 0.11:
        return rng.choice([" ", "\t", "   ", "\n", " \n", "\t \n", " " * heavy_len(rng) if stress == 2 else "  "])
    if r < 0.16:
        return visible(rng, stress, nosplit) + "\n" + rng.choice(["", "x", "\n", " more\n"])
    words = [visible(rng, rng.choice([0, stress]), nosplit) for _ in range(rng.choice([1, 1, 2, 3]))]
    if stress == 2 and rng.random() < 0.3:
        words = [visible(rng, 2, nosplit)]
    body = words[0]
    for w in words[1:]:
        body += blanks(rng, 0 if rng.random() < 0.8 else stress) + w
    lead = rng.choice(["", "", "#", "# ", "#" + blanks(rng, stress), blanks(rng, stress), blanks(rng, stress) + "#", "##", " # "])
    trail = rng.choice(["", "", "\n", "\n", blanks(rng, stress), blanks(rng, stress) + "\n"])
    if rng.random() < 0.04:
        trail = rng.choice(["\r", "\r\n", "\x0b", " \x0c\n", " "]) if not nosplit else "\r"          # outside the domain
    if rng.random() < 0.03:
        lead = rng.choice([" ", "\x0b", "　"]) + lead
    return lead + body + trail


class Recorder(object):
    """one random history on real paragraphs; every event carries the call, the outcome and the whole observed world"""

    def __init__(self, rng, size):
        self.rng, self.size = rng, size
        self.it = Intern()
        self.reg, self.held = {}, set()
        self.nh = 1
        self.appended = []
        self.events = []
        self.stress = rng.choice([0, 1, 1, 2])
        base = ["Architecture", "Build-Depends", "Depends", "Homepage", "Maintainer", "Package", "Section", "Source", "Uploaders",
                "Vcs-Git", "X-Custom", "Zz-Top", "a", "B7", "c.d_e+f"]
        k = rng.choice([4, 5, 6]) if size != "fields" else rng.choice([31, 32, 33, 99, 100, 101, 255, 256, 257])
        names = rng.sample(base, min(k, len(base)))
        i = 0
        while len(names) < k:
            ln = rng.choice([1, 15, 16, 17, 63, 64, 65, 255, 256, 257]) if i % 25 == 0 else 3
            names.append("X-%04d-%s" % (i, "y" * ln))
            i += 1
        names.sort(key=lambda s: s.lower())
        self.names = names
        self.num = {x.lower(): i + 1 for i, x in enumerate(names)}
        self._start()

    # ---- start document
    def _comment_lines(self, lo=0):
        rng = self.rng
        n = rng.choice([lo, 0, 1, 1, 2, 3]) if self.size != "lines" else rng.choice([9, 10, 11, 99, 100, 101, 255, 256, 257])
        out = []
        for _ in range(n):
            ln = random_line(rng, self.stress)
            if not line_in_domain(ln) or "\n" in ln[:-1] or ln.strip(" \t\n") == "":
                ln = "# plain " + visible(rng, 0)
            ln = ln.rstrip(" \t\n")
            out.append((ln if ln.startswith("#") else "# " + ln.lstrip(" \t")) + "\n")
        return out

    def _new_value(self):
        """-> (api, text to hand in, text stored behind the colon)"""
        rng = self.rng
        w = "v%d" % rng.randrange(10 ** 6)
        r = rng.random()
        if r < 0.5:
            first = rng.choice([w, w + " x y", w + " #not a comment", "#" + w, w + ":" + w, w + tail_char(rng)])
            if self.stress == 2 and rng.random() < 0.3:
                first = w + "y" * heavy_len(rng)
            pad = rng.choice(["", "", " ", "\t", "  "])
            return "simple", pad + first + rng.choice(["", "", " "]), " " + first + "\n"
        if r < 0.7:
            first = w + ","
            rest = rng.choice([" b\n", "# inline\n c%s\n" % w, " b,\n\tc\n", " .\n end\n"])
            return "item", first + "\n" + rest[:-1], " " + first + "\n" + rest
        stored = rng.choice(["%s\n", "\t%s\n", "  %s  \n", "\n %s\n", " %s\n#c\n\t%s\n".replace("%s", "%s", 1)]).replace("%s", w)
        return "raw", stored, stored

    def _start(self):
        rng = self.rng
        npara = rng.choice([1, 1, 2, 3])
        paras_txt = []
        for p in range(npara):
            if self.size == "fields" and p == 0:
                chosen = [x for x in self.names if rng.random() < 0.9]
            else:
                chosen = rng.sample(self.names[:15] if self.size == "fields" else self.names, rng.choice([1, 2, 3, 4]))
            fields = []
            for nm in chosen:
                fields.append((nm if rng.random() < 0.7 else ascii_swap(rng, nm), self._new_value()[2], self._comment_lines()))
            if rng.random() < 0.35 and len(fields) >= 2 and self.size != "fields":       # a duplicated field
                src = rng.choice(fields)
                fields.insert(rng.randrange(len(fields) + 1), (ascii_swap(rng, src[0]), self._new_value()[2], self._comment_lines()))
            paras_txt.append("".join("".join(c) + n + ":" + v for n, v, c in fields))
        prefix = rng.choice(["", "", "# free\n\n", "\n"])
        self.file = parse(prefix + "\n".join(paras_txt), rng.choice(PARSE_FORMS), accept_files_with_duplicated_fields=True)
        self.paras = list(self.file)
        for _ in range(rng.choice([0, 1, 2])):                   # detached elements the caller holds from the start
            ls = self._comment_lines(lo=1) or ["# held\n"]
            self._hold(make_element(ls, rng.randrange(2)))
        if rng.random() < 0.5:                                   # ... and a look at some attached ones
            for p in range(len(self.paras)):
                for kv in self.kvs(p):
                    if kv.comment_element is not None and rng.random() < 0.4:
                        self.grab(kv.comment_element)
        self.init = self.observe()

    def _hold(self, e):
        h = self.nh
        self.reg[h] = e
        self.held.add(h)
        self.nh += 1
        return h

    def kvs(self, p):
        from debian._deb822_repro.parsing import Deb822KeyValuePairElement
        return list(self.paras[p].iter_parts_of_type(Deb822KeyValuePairElement))

    def known(self, e):
        for h, o in self.reg.items():
            if o is e:
                return h
        return 0

    def grab(self, e):
        if e is None:
            return 0
        h = self.known(e)
        if not h:
            h = self.nh
            self.reg[h] = e
            self.nh += 1
        return h

    # ---- projection of the real world
    def observe(self):
        it = self.it
        attached = set()
        ps = []
        for p, para in enumerate(self.paras):
            text = para.dump()
            scanned = scan_paragraph(text)
            kvs = self.kvs(p)
            fs = []
            if scanned is None or len(scanned) != len(kvs) or text != para.dump():
                ps.append([{"n": 0, "s": "?not a paragraph: " + clip(text, 200), "v": 0, "c": {"h": 0, "ls": []}}])
                continue
            for (cl, name, vtxt), kv in zip(scanned, kvs):
                e = kv.comment_element
                api = ["".join(t.text for t in e)] if e is not None else [""]
                s = it.spelling(name)
                if (name != str(kv.field_name) or "".join(cl) != api[0] or vtxt != kv.value_element.convert_to_text()
                        or (e is not None and (e.convert_to_text() != api[0] or len(e) != len(cl)))):
                    s = "?text and API disagree on field %s" % name
                elif e is not None and e.parent_element is not kv:
                    s = "?comment element of %s has another parent_element" % name
                elif kv.parent_element is not para and not (type(para).__name__ == "Deb822DuplicateFieldsParagraphElement"
                                                             and any(kv is x for x in self.appended)):
                    s = "?field %s has another parent_element" % name
                h = self.known(e) if e is not None else 0
                if h:
                    attached.add(h)
                fs.append({"n": self.num.get(name.lower(), 0), "s": s, "v": it.value(vtxt), "c": {"h": h, "ls": [it.lex(x) for x in cl]}})
            ps.append(fs)
        for h in list(self.reg):
            if h in attached:
                self.held.discard(h)
            elif h not in self.held:
                del self.reg[h]              # lost with a field that was removed or replaced
        held = []
        for h in sorted(self.held):
            e = self.reg[h]
            ls = [it.lex(t.text) for t in e]
            if e.parent_element is not None:
                ls = ls + [[["x", -1]]]      # a detached element must not have a parent
            held.append({"h": h, "ls": ls})
        return {"ps": ps, "held": held, "nh": self.nh}

    # ---- one random call
    def step(self):
        from debian._deb822_repro.parsing import Deb822ParagraphElement
        rng, it = self.rng, self.it
        ev = {"op": "", "p": 0, "n": 0, "key": {"n": 0, "s": "C", "i": -1}, "m": {"k": "", "cl": [], "h": 0}, "j": 0, "x": "", "it": [],
              "v": 0, "unspec": False}
        r = rng.random()
        nonempty = [p for p in range(len(self.paras)) if len(self.paras[p])]
        free = [p for p in range(len(self.paras)) if self.paras[p].parent_element is None]
        call = None
        if r < 0.5 or not nonempty:
            if not self.paras:
                return self._ctor(ev, "new")
            p = rng.randrange(len(self.paras))
            kvs = self.kvs(p)
            ev.update(op="set", p=p + 1)
            if kvs and rng.random() < 0.7:
                kv = rng.choice(kvs)
                name = str(kv.field_name)
            else:
                name = rng.choice(self.names[:40])
            n = self.num[name.lower()]
            occ = [x for x in kvs if x.field_name.lower() == name.lower()]
            keytxt = ascii_swap(rng, name) if rng.random() < 0.5 else name
            idx = -1
            key = keytxt
            if occ and rng.random() < 0.35:
                idx = rng.randrange(len(occ))
                key = rng.choice([(keytxt, idx), occ[idx].field_token]) if len(occ) > 1 or idx == 0 else (keytxt, idx)
                if len(occ) == 1 and rng.random() < 0.5:
                    idx = -1                                     # (name, 0) / the token of a unique field is the plain key
            elif not occ and rng.random() < 0.2:
                idx, key = 0, (keytxt, 0)
            ev.update(n=n, key={"n": n, "s": it.spelling(keytxt), "i": idx})
            api, given, stored = self._new_value()
            ev["v"] = it.value(stored)
            para = self.paras[p]
            present = bool(occ)
            if rng.random() < 0.06:                 # the caller's list of comment lines faults while it is read
                ls = [x for x in (random_line(rng, self.stress) for _ in range(rng.choice([1, 2, 3, 5]))) if "\n" not in x[:-1] and x.strip(" \t\n")]
                k = rng.randrange(len(ls) + 1)
                ev.update(op="fset", j=k, m={"k": "list", "cl": [it.lex(t) for t in ls], "h": 0})
                fl = FaultyList(ls, k)
                return self._run(ev, lambda: para.set_field_from_raw_string(key, stored, field_comment=fl))
            kw, mode = self._mode(ev, p, occ, idx)

            def call():
                a = api
                if a == "item" and (mode not in ("default", "drop") or rng.random() < 0.3):
                    a = "raw"
                if a == "simple" and mode in ("default", "drop") and rng.random() < 0.4:
                    a = "item"
                if a == "raw":
                    para.set_field_from_raw_string(key, stored, **kw)
                elif a == "simple":
                    para.set_field_to_simple_value(key, given, **kw)
                else:
                    txt = given.strip() if api == "simple" else given
                    if mode == "drop":
                        para.configured_view(preserve_field_comments_on_field_updates=False)[key] = txt
                    else:
                        rng.choice([lambda: para.__setitem__(key, txt), lambda: para.update({key: txt}),
                                    lambda: para.configured_view().__setitem__(key, txt)])()
                if not present:
                    after = self.kvs(p)
                    if after:
                        self.appended.append(after[-1])
        elif r < 0.7:
            p = rng.choice(nonempty)
            kvs = self.kvs(p)
            j = rng.randrange(len(kvs))
            kv = kvs[j]
            ev.update(op="cmt", p=p + 1, j=j + 1, n=self.num.get(kv.field_name.lower(), 0))
            x = rng.random()
            if x < 0.12:
                ev["x"] = "bad"
                bad = make_element(["# ok\n"] * rng.choice([0, 1]) + [rng.choice(["# no newline", "#", "# x" + tail_char(rng)])], 1)

                def call():
                    kv.comment_element = bad
            elif x < 0.55 or not self.held:
                ev["x"] = "none"
                h = self.grab(kv.comment_element)
                if h:
                    self.held.add(h)

                def call():
                    kv.comment_element = None
            else:
                h = rng.choice(sorted(self.held))
                ev["x"] = "elem"
                ev["m"] = {"k": "", "cl": [], "h": h}
                old = self.grab(kv.comment_element)
                if old:
                    self.held.add(old)
                new = self.reg[h]

                def call():
                    kv.comment_element = new
        elif r < 0.78:
            p = rng.choice(nonempty)
            kvs = self.kvs(p)
            if len(kvs) < 2 and rng.random() < 0.9:
                name, occ = rng.choice(self.names[:40]), []
                if any(x.field_name.lower() == name.lower() for x in kvs):
                    return None
            else:
                kv = rng.choice(kvs)
                name = str(kv.field_name)
                occ = [x for x in kvs if x.field_name.lower() == name.lower()]
                if len(occ) == len(kvs) and self.paras[p].parent_element is not None:
                    return None              # would empty a paragraph of the document
            n = self.num[name.lower()]
            keytxt = ascii_swap(rng, name)
            idx, key = -1, keytxt
            if len(occ) > 1 and rng.random() < 0.6:
                idx = rng.randrange(len(occ))
                key = rng.choice([(keytxt, idx), occ[idx].field_token])
                if len(occ) == len(kvs) and len(occ) == 1:
                    return None
            ev.update(op="del", p=p + 1, n=n, key={"n": n, "s": it.spelling(keytxt), "i": idx})
            para = self.paras[p]
            how = rng.randrange(3)

            def call():
                if how == 0:
                    del para[key]
                elif how == 1:
                    para.pop(key)
                else:
                    para.remove_kvpair_element(key)
        elif r < 0.86:
            p = rng.choice(nonempty)
            kvs = self.kvs(p)
            kv = rng.choice(kvs)
            name = str(kv.field_name)
            if len([x for x in kvs if x.field_name.lower() == name.lower()]) != 1:
                return None
            how = rng.choice(["first", "last"])
            ev.update(op="move", p=p + 1, n=self.num[name.lower()], x=how)
            para, key = self.paras[p], rng.choice([ascii_swap(rng, name), (name, 0), kv.field_token])

            def call():
                (para.order_first if how == "first" else para.order_last)(key)
        elif r < 0.9:
            p = rng.choice(nonempty)
            ev.update(op="sort", p=p + 1)
            para, how = self.paras[p], rng.randrange(3)

            def call():
                if how == 0:
                    para.sort_fields()
                elif how == 1:
                    para.sort_fields(key=str.lower)
                else:
                    para.sort_fields(lambda s: s.lower())
        else:
            kind = rng.choice(["new", "dict", "kv", "join"])
            return self._ctor(ev, kind)
        return self._run(ev, call)

    def _mode(self, ev, p, occ, idx):
        """comment keywords of a setter call -> (kwargs, mode); fills ev["m"] / ev["unspec"]"""
        rng, it = self.rng, self.it
        r = rng.random()
        tgt = None
        if occ:
            tgt = occ[0 if idx == -1 else idx]
        mk = lambda k, cl=(), h=0: {"k": k, "cl": list(cl), "h": h}      # noqa: E731
        if r < 0.18:
            ev["m"] = mk("default")
            return {}, "default"
        if r < 0.28:
            ev["m"] = mk("keep")
            return {"preserve_original_field_comment": True}, "keep"
        if r < 0.38:
            ev["m"] = mk("drop")
            return {"preserve_original_field_comment": False}, "drop"
        if r < 0.72 or (r < 0.9 and not self.held):
            n = rng.choice([0, 1, 1, 2, 3])
            if self.size == "lines" and rng.random() < 0.5:
                n = rng.choice([9, 10, 11, 99, 100, 101, 255, 256, 257])
            ls = [random_line(rng, self.stress) for _ in range(n)]
            if n > 3:            # many lines: keep them acceptable so that the size is what is tested
                ls = [x for x in ls if "\n" not in x[:-1] and x.strip(" \t\n") != ""]
            given = ls
            x = rng.random()
            if x < 0.15:
                given = tuple(ls)
            elif x < 0.2 and ls:
                given = "".join(ls)          # a plain str is iterated character by character: not documented
                ev["unspec"] = True
            if any(not line_in_domain(t) for t in ls):
                ev["unspec"] = True
            ev["m"] = mk("list", [it.lex(t) for t in ls])
            if rng.random() < 0.12:
                pres = rng.random() < 0.5
                ev["m"]["k"] = "confK" if pres else "confD"
                return {"field_comment": given, "preserve_original_field_comment": pres}, ev["m"]["k"]
            return {"field_comment": given}, "list"
        if r < 0.8 and tgt is not None and tgt.comment_element is not None:
            e = tgt.comment_element
            self.grab(e)
            ev["m"] = mk("self")
            return {"field_comment": e}, "self"
        if r < 0.9 and self.held:
            h = rng.choice(sorted(self.held))
            ev["m"] = mk("elem", (), h)
            if rng.random() < 0.1:
                pres = rng.random() < 0.5
                ev["m"] = mk("confK" if pres else "confD", (), 0)
                return {"field_comment": self.reg[h], "preserve_original_field_comment": pres}, ev["m"]["k"]
            return {"field_comment": self.reg[h]}, "elem"
        ev["m"] = mk("bad")
        return {"field_comment": make_element([rng.choice(["# no newline", "#x", "# " + tail_char(rng)])], 1)}, "bad"

    def _ctor(self, ev, kind):
        from debian._deb822_repro.parsing import Deb822ParagraphElement
        rng, it = self.rng, self.it
        free = [p for p in range(len(self.paras)) if self.paras[p].parent_element is None]
        if kind == "new":
            ev.update(op="new")

            def call():
                self.paras.append(Deb822ParagraphElement.new_empty_paragraph())
        elif kind == "dict":
            items, pairs = [], []
            for _ in range(rng.choice([1, 2, 3]) if self.size != "fields" else rng.choice([31, 32, 33, 100])):
                name = rng.choice(self.names)
                keytxt = ascii_swap(rng, name) if rng.random() < 0.4 else name
                if any(k == keytxt for k, _ in pairs):
                    continue
                api, given, stored = self._new_value()
                if api == "raw":
                    continue
                pairs.append((keytxt, given.strip() if api == "simple" else given))
                items.append({"n": self.num[name.lower()], "s": it.spelling(keytxt), "v": it.value(stored)})
            if not pairs:
                return None
            ev.update(op="dict", it=items)
            import collections
            mapping = dict(pairs) if rng.random() < 0.6 else collections.OrderedDict(pairs)
            if rng.random() < 0.2:                  # the caller's mapping faults while it is read
                k = rng.randrange(len(pairs) + 1)
                ev.update(op="fdict", j=k)
                mapping = FaultyDict(pairs, k)

            def call():
                self.paras.append(Deb822ParagraphElement.from_dict(mapping))
        elif kind == "kv":
            if not free:
                return None
            p = rng.choice(free)
            rev = rng.random() < 0.5
            ev.update(op="kv", p=p + 1, x="rev" if rev else "same")

            def call():
                kvs = self.kvs(p)
                self.paras[p] = Deb822ParagraphElement.from_kvpairs(kvs[::-1] if rev else kvs)
        else:
            if len(free) < 2:
                return None
            p, q = rng.sample(free, 2)
            ev.update(op="join", p=p + 1, j=q + 1)

            def call():
                new = Deb822ParagraphElement.from_kvpairs(self.kvs(p) + self.kvs(q))
                self.paras[p] = new
                del self.paras[q]
        return self._run(ev, call)

    def _run(self, ev, call):
        try:
            call()
            ev["res"] = "ok"
        except X17Fault:
            ev["res"] = "CallerError"
        except Exception as ex:      # noqa: BLE001 -- an exception of the library is an observation
            if not from_repo(ex):
                raise
            ev["res"] = classify(ex)
        ev["obs"] = self.observe()
        self.events.append(ev)
        return ev

    def trace(self):
        return {"init": self.init, "events": self.events}
