"""Labelled transition systems emitted by TLC as EDGE lines:
{"from": state, "op": str, "args": [...], "res": ..., "to": state, ...}"""
import json
from collections import deque


def skey(state):
    return json.dumps(state, sort_keys=True, separators=(",", ":"))


class LTS:
    def __init__(self, edges, init):
        self.init = skey(init)
        self.states = {self.init: init}
        self.out = {}
        seen = set()
        self.edges = []
        for e in edges:
            f, t = skey(e["from"]), skey(e["to"])
            k = (f, e["op"], skey(e.get("args")), skey(e.get("res")), t)
            if k in seen:
                continue
            seen.add(k)
            e = dict(e)
            e["_f"], e["_t"] = f, t
            self.states.setdefault(f, e["from"])
            self.states.setdefault(t, e["to"])
            self.out.setdefault(f, []).append(e)
            self.edges.append(e)
        self._paths = None

    def paths(self):
        """shortest path (list of edges) from the initial state to every state"""
        if self._paths is None:
            p = {self.init: []}
            q = deque([self.init])
            while q:
                s = q.popleft()
                for e in self.out.get(s, []):
                    if e["_t"] not in p:
                        p[e["_t"]] = p[s] + [e]
                        q.append(e["_t"])
            self._paths = p
        return self._paths

    def walk(self, rng, start, n, weight=None):
        s = start
        path = []
        for _ in range(n):
            outs = self.out.get(s)
            if not outs:
                break
            if weight:
                e = rng.choices(outs, weights=[weight(x) for x in outs])[0]
            else:
                e = rng.choice(outs)
            path.append(e)
            s = e["_t"]
        return path

    def all_paths(self, depth, start=None):
        """every path of exactly `depth` edges (or shorter if stuck) from start"""
        start = start or self.init

        def rec(s, d):
            if d == 0:
                yield []
                return
            for e in self.out.get(s, []):
                for rest in rec(e["_t"], d - 1):
                    yield [e] + rest
        return rec(start, depth)


def strip(e):
    return {k: v for k, v in e.items() if not k.startswith("_")}
