"""X08 worker process: executes scripts of calls against the REAL debian.changelog.get_maintainer /
format_date and debian.debian_support.Release / intern_release under a controlled process state.

usage:  worker_x08.py <repo>/lib     (jobs as JSON on stdin, results as JSON on stdout)

The parent (harness/props/x08.py) must not touch its own os.environ / time zone while TLC runs in
other threads, and get_maintainer() reads the REAL os.environ: so the calls happen here.  Nothing of
/repo is edited; what is controlled is the process around the library:

  os.environ          set / deleted by the script (the four variables, TZ)
  pwd.getpwuid        replaced by a stand-in that returns a real pwd.struct_passwd / raises KeyError;
                      "no pwd module" = the global `pwd` of debian.changelog deleted (NameError) or an
                      object without getpwuid (AttributeError) -- both named in the code's comments
  /etc/mailname       builtins.open and os.path.exists / isfile / lexists / os.stat answer for this
                      one path from a scratch file (or "absent"); every other path is passed through
  socket.getfqdn      returns the script's text (gethostname & co. return a marker that is never expected)
  time.time           returns the script's "now" for format_date(timestamp=None)
  time zone           os.environ['TZ'] + time.tzset()

A job is a list of steps executed in ONE process state (histories); results are returned raw
(texts, exception type names) -- tokenizing and verdicts are the parent's and TLC's business.
"""
import builtins
import io
import json
import os
import sys
import tempfile
import time
import traceback
import warnings

MAILNAME = "/etc/mailname"
VARS = ("DEBFULLNAME", "NAME", "DEBEMAIL", "EMAIL")
MARK = "☠not-the-fqdn☠"


class World:
    """the controlled surroundings of the library"""

    def __init__(self, C):
        import pwd
        import socket
        self.C = C
        self.pwd = pwd
        self.socket = socket
        self.real_open = builtins.open
        self.real_exists = os.path.exists
        self.real_isfile = os.path.isfile
        self.real_lexists = os.path.lexists
        self.real_stat = os.stat
        self.real_time = time.time
        self.real_getpwuid = pwd.getpwuid
        self.had_pwd = hasattr(C, "pwd")
        self.real_C_pwd = getattr(C, "pwd", None)
        self.scratch = tempfile.mkdtemp(prefix="x08-worker-")
        self.mn_path = os.path.join(self.scratch, "mailname")
        self.mn_present = False
        self.mn_bytes = b""
        with self.real_open(self.mn_path, "wb"):
            pass
        self.pw = {"k": "noentry"}
        self.fq = ""
        self.now = None
        self.uids = []
        w = self

        def fake_open(file, mode="r", buffering=-1, encoding=None, errors=None, newline=None, *a, **kw):
            if isinstance(file, (str, bytes, os.PathLike)) and os.fspath(file) in (MAILNAME, MAILNAME.encode()):
                if not w.mn_present:
                    raise FileNotFoundError(2, "No such file or directory", MAILNAME)
                if any(c in mode for c in "wax+"):
                    raise PermissionError(13, "Permission denied", MAILNAME)
                raw = io.BytesIO(w.mn_bytes)       # same decoding / newline handling as a real file
                if "b" in mode:
                    return raw
                return io.TextIOWrapper(raw, encoding=encoding or "utf-8", errors=errors, newline=newline)
            return w.real_open(file, mode, buffering, encoding, errors, newline, *a, **kw)

        def answer(real):
            def f(path, *a, **kw):
                try:
                    hit = os.fspath(path) in (MAILNAME, MAILNAME.encode())
                except TypeError:
                    hit = False
                if hit:
                    if not w.mn_present:
                        if real is w.real_stat:
                            raise FileNotFoundError(2, "No such file or directory", MAILNAME)
                        return False
                    return real(w.mn_path, *a, **kw)      # an existing regular scratch file stands in
                return real(path, *a, **kw)
            return f

        def getpwuid(uid):
            w.uids.append(uid)
            if w.pw["k"] != "entry":
                raise KeyError("getpwuid(): uid not found: %s" % uid)
            return pwd.struct_passwd((w.pw["user"], "x", uid, uid, w.pw["gecos"], "/nonexistent", "/bin/false"))

        builtins.open = fake_open
        os.path.exists = answer(self.real_exists)
        os.path.isfile = answer(self.real_isfile)
        os.path.lexists = answer(self.real_lexists)
        os.stat = answer(self.real_stat)
        pwd.getpwuid = getpwuid
        socket.getfqdn = lambda name="": w.fq
        socket.gethostname = lambda: MARK
        socket.gethostbyaddr = lambda *a: (MARK, [], [])
        time.time = lambda: w.real_time() if w.now is None else w.now

    def set_sys(self, s):
        """s = {pw: {k, user, gecos, how}, mn: {present, content}, fq: text}"""
        self.pw = s["pw"]
        C = self.C
        if s["pw"]["k"] == "nomod":
            if s["pw"].get("how") == "noattr":
                C.pwd = object()
            elif hasattr(C, "pwd"):
                del C.pwd
        else:
            C.pwd = self.pwd
        self.mn_present = bool(s["mn"]["present"])
        self.mn_bytes = s["mn"]["content"].encode("utf-8") if self.mn_present else b""
        self.fq = s["fq"]

    def reset(self):
        for v in VARS + ("TZ",):
            os.environ.pop(v, None)
        time.tzset()
        self.now = None
        self.uids = []
        self.set_sys({"pw": {"k": "noentry"}, "mn": {"present": False, "content": ""}, "fq": ""})


def exc_info(e, repo_lib):
    tb = traceback.extract_tb(e.__traceback__)
    inner = os.path.realpath(tb[-1].filename) if tb else ""
    return {"type": type(e).__name__, "msg": str(e)[:300],
            "from_repo": inner.startswith(os.path.realpath(os.path.dirname(repo_lib)) + os.sep)}


class Objects:
    """live objects numbered by first appearance (all are kept alive)"""

    def __init__(self):
        self.objs = []
        self.tables = {}
        self.handles = {}

    def oid(self, o):
        for i, x in enumerate(self.objs):
            if x is o:
                return i + 1
        self.objs.append(o)
        return len(self.objs)

    def get(self, i):
        return self.objs[i - 1]


def mk_order(x):
    if isinstance(x, list):
        kind, v = x
        if kind == "str":
            return v
        if kind == "tuple":
            return tuple(mk_order(y) for y in v)
        if kind == "float":
            return float(v)
        if kind == "int":
            return int(v)
    return x


def run_job(job, W, C, S, repo_lib):
    W.reset()
    O = Objects()
    out = []
    for step in job:
        op = step[0]
        try:
            if op == "set":
                os.environ[step[1]] = step[2]
                out.append(None)
            elif op == "del":
                os.environ.pop(step[1], None)
                out.append(None)
            elif op == "sys":
                W.set_sys(step[1])
                out.append(None)
            elif op == "call":
                before = dict(os.environ)
                W.uids = []
                try:
                    with warnings.catch_warnings():
                        warnings.simplefilter("ignore")
                        r = C.get_maintainer()
                    if isinstance(r, tuple) and len(r) == 2 and all(x is None or isinstance(x, str) for x in r):
                        res = ["ok", r[0], r[1]]
                    else:
                        res = ["odd", repr(r)[:300]]
                except Exception as e:     # an observation
                    res = ["exc", exc_info(e, repo_lib)]
                after = dict(os.environ)
                others = sorted(k for k in set(before) | set(after)
                                if k not in VARS and before.get(k) != after.get(k))
                out.append({"res": res, "env": {v: after.get(v) for v in VARS}, "others": others,
                            "uids": [u == os.getuid() for u in W.uids]})
            elif op == "tz":
                os.environ["TZ"] = step[1]
                time.tzset()
                out.append(None)
            elif op == "now":
                W.now = step[1]
                out.append(None)
            elif op == "fmt":
                how, ts, lt = step[1], step[2], step[3]
                if isinstance(ts, list):       # ["float", "123.5"] / ["int", "123"]
                    ts = float(ts[1]) if ts[0] == "float" else int(ts[1])
                try:
                    if how == "pos2":
                        r = C.format_date(ts, lt)
                    elif how == "kw2":
                        r = C.format_date(timestamp=ts, localtime=lt)
                    elif how == "kwswap":
                        r = C.format_date(localtime=lt, timestamp=ts)
                    elif how == "pos1":         # localtime defaults to True
                        r = C.format_date(ts)
                    elif how == "kw1":
                        r = C.format_date(timestamp=ts)
                    elif how == "none0":        # timestamp defaults to None = now, localtime to True
                        r = C.format_date()
                    elif how == "nonekw":
                        r = C.format_date(localtime=lt)
                    elif how == "nonepos":
                        r = C.format_date(None, lt)
                    else:
                        raise RuntimeError("unknown fmt variant " + how)
                    out.append(["ok", r if isinstance(r, str) else ["notstr", repr(r)[:200]]])
                except RuntimeError:
                    raise
                except Exception as e:
                    out.append(["exc", exc_info(e, repo_lib)])
            elif op == "intern":
                via, tab, name, h = step[1], step[2], step[3], step[4]
                try:
                    with warnings.catch_warnings(record=True) as wl:
                        warnings.simplefilter("always")
                        if tab:
                            t = O.tables[tab]
                            snap = list(t.items())
                            if via == "fn":
                                r = S.intern_release(name, t)
                            elif via == "fnkw":
                                r = S.intern_release(name, releases=t)
                            elif via == "allkw":
                                r = S.intern_release(name=name, releases=t)
                            elif via == "alias":
                                r = S.internRelease(name, t)
                            elif via == "aliaskw":
                                r = S.internRelease(name, releases=t)
                            else:
                                raise RuntimeError("unknown intern variant " + via)
                        elif via == "fn":
                            r = S.intern_release(name)
                        elif via == "fnkw":
                            r = S.intern_release(name, releases=None)
                        elif via == "fnpos":
                            r = S.intern_release(name, None)
                        elif via == "allkw":
                            r = S.intern_release(name=name)
                        elif via == "alias":
                            r = S.internRelease(name)
                        elif via == "aliaskw":
                            r = S.internRelease(name, releases=None)
                        elif via == "attr":
                            r = S.Release.releases.get(name)
                        elif via == "attrobj":      # the class attribute through an instance
                            r = S.Release("probe", -1).releases.get(name)
                        else:
                            raise RuntimeError("unknown intern variant " + via)
                    dep = any(issubclass(x.category, DeprecationWarning) for x in wl)
                    if h:
                        O.handles[h] = r
                    if tab and (len(snap) != len(t) or any(k1 != k2 or v1 is not v2 for (k1, v1), (k2, v2) in zip(snap, t.items()))):
                        out.append(["exc", {"type": "CallerTableModified", "msg": "", "from_repo": True}])
                    else:
                        out.append(["none", dep] if r is None else ["obj", O.oid(r), dep])
                except RuntimeError:
                    raise
                except Exception as e:
                    if h:
                        O.handles[h] = None
                    out.append(["exc", exc_info(e, repo_lib)])
            elif op == "new":
                cls, name, order, ver, h = step[1], step[2], mk_order(step[3]), step[4], step[5]
                if cls == "PseudoEnum":
                    o = S.PseudoEnum(name, order)
                elif cls == "ReleaseDefault":
                    o = S.Release(name, order)
                elif cls == "ReleaseKw":
                    o = S.Release(name=name, order=order, version=ver)
                else:
                    o = S.Release(name, order, ver)
                O.handles[h] = o
                out.append(O.oid(o))
            elif op == "table":
                O.tables[step[1]] = {n: O.handles[h] for n, h in step[2]}
                out.append([O.oid(O.handles[h]) for n, h in step[2]])
            elif op == "attr":
                o = O.handles[step[1]]
                if o is None:
                    out.append({"id": 0})
                else:
                    out.append({"id": O.oid(o), "str": str(o), "repr": repr(o), "cls": type(o).__name__,
                                "version": getattr(o, "version", None), "fmt": "%s" % (o,)})
            elif op == "cmp":
                x, y = O.handles[step[1]], O.handles[step[2]]
                if x is None or y is None:
                    out.append({"x": 0, "y": 0})
                else:
                    r = {"x": O.oid(x), "y": O.oid(y)}
                    try:
                        r.update({"lt": x < y, "le": x <= y, "eq": x == y, "ne": x != y, "ge": x >= y, "gt": x > y,
                                  "heq": hash(x) == hash(y)})
                    except Exception as e:
                        r["exc"] = exc_info(e, repo_lib)
                    out.append(r)
            elif op in ("sort", "sortrev", "distinct", "min", "max", "index"):
                objs = [O.handles[h] for h in step[1]]
                if any(o is None for o in objs):
                    out.append({"ids": []})
                else:
                    r = {"ids": [O.oid(o) for o in objs]}
                    try:
                        if op == "sort":
                            r["res"] = [O.oid(o) for o in sorted(objs)]
                        elif op == "sortrev":
                            objs.sort(reverse=True)
                            r["res"] = [O.oid(o) for o in objs]
                        elif op == "distinct":
                            d = {}
                            for o in objs:
                                d.setdefault(o, None)
                            r["res"] = len(set(objs))
                            r["dict"] = len(d)
                        elif op == "min":
                            r["res"] = O.oid(min(objs))
                        elif op == "max":
                            r["res"] = O.oid(max(objs))
                        else:
                            x = O.handles[step[2]]
                            r["x"] = O.oid(x)
                            r["res"] = objs.index(x) + 1
                            r["in"] = x in objs
                    except Exception as e:
                        r["exc"] = exc_info(e, repo_lib)
                    out.append(r)
            elif op == "mutcopy":      # a caller mutates its own copy of the table (and the list of its values)
                d = dict(S.Release.releases)
                vals = sorted(d.values())
                vals.reverse()
                d.clear()
                d["sid"] = None
                out.append(None)
            elif op == "tablekeys":
                t = S.Release.releases
                out.append({"keys": list(t), "same": t is getattr(S, "_release_list", t), "n": len(t),
                            "public": [n for n in ("list_releases", "listReleases") if hasattr(S, n)]})
            elif op == "foreign":      # diagnostic only: comparison with a non-PseudoEnum
                o = O.handles[step[1]]
                try:
                    out.append(["ok", repr(o == step[2])])
                except Exception as e:
                    out.append(["exc", type(e).__name__])
            else:
                raise RuntimeError("unknown step " + repr(step)[:100])
        except RuntimeError:
            raise
        except Exception as e:      # the harness's own set-up failed (e.g. an unencodable environment value)
            out.append({"setup_error": "%s: %s" % (type(e).__name__, str(e)[:200])})
    return out


def main():
    repo_lib = sys.argv[1]
    sys.path.insert(0, repo_lib)
    sys.dont_write_bytecode = True
    jobs = json.load(sys.stdin)
    try:
        import debian.changelog as C
        import debian.debian_support as S
    except Exception as e:
        json.dump({"import_error": "%s: %s" % (type(e).__name__, e)}, sys.stdout)
        return 0
    W = World(C)
    try:
        res = [run_job(j, W, C, S, repo_lib) for j in jobs]
    finally:
        import shutil
        shutil.rmtree(W.scratch, ignore_errors=True)
    sys.stdout.write(json.dumps({"results": res}))
    return 0


if __name__ == "__main__":
    sys.exit(main())
