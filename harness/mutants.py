"""Source mutations used by selftest.py: each keeps the repository's 234 tests green (checked
with --tests) and breaks the named property. {id, prop, file, old, new}"""
MUTANTS = [
    # ---- C09
    dict(id="c09-remove-tail", prop="C09", file="lib/debian/_util.py",
         old="        elif node is self.tail_node:\n            self.tail_node = node.previous_node",
         new="        elif node is self.tail_node and False:\n            self.tail_node = node.previous_node",
         note="remove_node forgets to move the tail"),
    dict(id="c09-after-is-before", prop="C09", file="lib/debian/_util.py",
         old="self._reorder(item, lambda x: self.__order.insert_after(x, reference_node))",
         new="self._reorder(item, lambda x: self.__order.insert_before(x, reference_node))"),
    dict(id="c09-respell", prop="C09", file="lib/debian/deb822.py",
         old="        keyi = _strI(key)\n        self.__keys.add(keyi)\n        self.__dict[keyi] = value",
         new="        keyi = _strI(key)\n        if keyi in self.__keys and len(self.__keys) > 2:\n            self.__keys.remove(keyi)\n        self.__keys.add(keyi)\n        self.__dict[keyi] = value",
         note="re-assignment moves the key to the end with the new spelling when >2 keys"),
    dict(id="c09-self-check", prop="C09", file="lib/debian/_util.py",
         old="        if item == reference_item:\n            raise ValueError(\"Cannot re-order an item relative to itself\")\n        reference_node = self.__table[reference_item]\n        self._reorder(item, lambda x: self.__order.insert_before",
         new="        reference_node = self.__table[reference_item]\n        self._reorder(item, lambda x: self.__order.insert_before",
         note="order_before(k,k) no longer raises ValueError"),
    dict(id="c09-sort-case", prop="C09", file="lib/debian/_util.py",
         old="    return x.lower()", new="    return x",
         note="sort_fields sorts case-sensitively"),
    dict(id="c09-del-keeps-value", prop="C09", file="lib/debian/deb822.py",
         old="        self.__keys.remove(keyi)\n        try:\n            del self.__dict[keyi]",
         new="        self.__keys.remove(keyi)\n        try:\n            if len(self.__keys) != 1: del self.__dict[keyi]",
         note="stale value survives delete when exactly one key remains; visible after re-adding? no: get() of absent key returns stale value"),
]
