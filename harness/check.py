#!/venv/bin/python
"""CLI:  check.py <ID> [--tier quick|thorough] [--replay path]
exit 0: property held on everything explored (KNOWN-FINDING lines possible)
exit 1: VIOLATION property=<id> replay=<path>
exit 2: machinery failure (TLC crash, spec error, harness exception)"""
import argparse
import importlib
import json
import os
import sys
import traceback

sys.dont_write_bytecode = True
HERE = os.path.dirname(os.path.abspath(__file__))
sys.path.insert(0, HERE)
os.environ.setdefault("PYTHONHASHSEED", "0")

import core  # noqa: E402


def main():
    ap = argparse.ArgumentParser()
    ap.add_argument("prop")
    ap.add_argument("--tier", default=os.environ.get("VERIF_TIER", "quick"), choices=["quick", "thorough"])
    ap.add_argument("--seed", type=int, default=int(os.environ.get("VERIF_SEED", "0") or 0))
    ap.add_argument("--replay")
    a = ap.parse_args()
    prop = a.prop.upper()
    mod = importlib.import_module("props.%s" % prop.lower())
    ctx = core.Ctx(prop, a.tier, a.seed)
    ctx.import_repo()
    try:
        if a.replay:
            case = core.unbytes(json.load(open(a.replay)))
            msg = mod.replay(ctx, case)
            ctx.cleanup()
            if msg:
                print("VIOLATION property=%s replay=%s" % (prop, a.replay))
                print("  " + str(msg))
                return 1
            print("replay: case passes on this tree")
            return 0
        mod.run(ctx)
        level = getattr(mod, "LEVEL", "model_checking")
        return ctx.finish(level)
    except core.MachineryError as e:
        print("MACHINERY-FAILURE property=%s: %s" % (prop, e), file=sys.stderr)
        ctx.cleanup()
        return 2
    except Exception:
        traceback.print_exc()
        print("MACHINERY-FAILURE property=%s: harness exception" % prop, file=sys.stderr)
        ctx.cleanup()
        return 2


if __name__ == "__main__":
    sys.exit(main())
