"""X11 helpers: realisation of the abstract scenarios of spec/DebParts.tla as real .deb files, calling the real
debian.debfile objects and projecting what they return / raise into the vocabulary of the specification.

Nothing in here decides a verdict.  A scenario (the ENV lines TLC prints, or a random one generated for trace
recording) names paths as token lists ('.', '/', atoms), blobs by id with the properties the API depends on
(ascii / utf8 / bin; md5sums lines; gzip kind; package name).  `Real` turns atoms into real path components,
blob ids into real bytes (stress levels: 0 tame, 1 odd characters, 2 sizes, 3 big sizes -- notes/SIZE_STRESS.md) and
packs them (own tar writer on tarfile, c07_build's ar writer and compressors); `World` opens the packages
through one of the public entry points and performs the calls of the specification through rotating variants of
the API (notes/API_SURFACE.md); results are mapped back to symbols by exact comparison with what was packed
(code points / bytes, never normalised); bytes.decode(codec, errors) is the reference for text mode."""
import gzip
import io
import os
import random
import tarfile

import core
import c07_build as B

MAINT_SCRIPTS = ["preinst", "postinst", "prerm", "postrm", "config"]
LITERAL = set(MAINT_SCRIPTS) | {"control", "md5sums"}
FIXED = {"D": "usr/share/doc", "cD": "changelog.Debian.gz", "cN": "changelog.gz",
         "usr": "usr", "share": "share", "doc": "doc"}
WS_BYTES = b" \t\n\r\x0b\x0c"
BOUNDARY = [1, 2, 7, 8, 9, 15, 16, 17, 31, 32, 33, 63, 64, 65, 71, 72, 73, 79, 80, 81, 99, 100, 101, 127, 128, 129, 155, 156, 255, 256, 257]
BLOB_SIZES = [511, 512, 513, 8191, 8192, 8193, 65535, 65536, 65537, 131071, 131073]
BIG_BLOB = 1048576 + 17
EXTS = ["gz", "", "xz", "bz2", "lzma"]

# ------------------------------------------------------------------ payload pools

TAME_ATOMS = ["alpha", "bin", "hello", "lib", "conf", "x1", "tool", "readme", "data", "share", "file", "etc", "opt", "srv"]
ODD_ATOMS = ["ünï cödé", "中文", "é", "é", "a b", "x y", "zw​j", "naïve.so.1", "with'quote",
             "straße", "İiı", "smile\U0001F600", "a.", "a..b", "-dash", "~tilde", "﻿bom", "nel\u0085x", "tab\tx",
             "ls x", "fs\x1cx", "vt\x0bx", "ff\x0cx", "Ångström", "Ångström", "ﬁlig", "Ａwide", "end́",
             "cr\rx", "sp ", "*star", "[glob]", "100%", "a\\b", "‮rtl", "\U0010ffffmax", "#hash", "semi;colon", "q?"]
PKG_PAIRS = [("hello", "hello-doc"), ("libfoo++", "libfoo"), ("python3.11-minimal", "python3.11"), ("g++-12", "g++"),
             ("a0", "a0a0"), ("foo", "foo.bar"), ("x" * 60, "x" * 59), ("lib2geom1.2.0", "lib2geom1.2"), ("0ad", "0ad-data")]
U8_SPACES = [" ", " ", "　", " ", "\u0085", " ", " ", " ", " ", " "]
FS_SPACES = ["\x1c", "\x1d", "\x1e", "\x1f"]
TRAIL = [chr(c) for c in range(0x400, 0x440)]          # UTF-8 D0 80 .. D0 BF: every trailing byte


def ascii_text(rng, n, cr=False):
    """n bytes of ASCII lines (a few random lines, repeated: large contents stay cheap to generate)"""
    alpha = "abcdefghijklmnopqrstuvwxyz ABCXYZ0123456789 .,:-_/#\t"
    lines = []
    for _ in range(min(12, n // 20 + 1)):
        lines.append("".join(rng.choice(alpha) for _ in range(rng.randint(0, 60))) + (rng.choice(["\n", "\r\n", "\r", "\n"]) if cr else "\n"))
    unit = "".join(lines) or "\n"
    return (unit * (n // len(unit) + 1))[:n].encode("ascii")


def gen_blob(rng, bid, cls, stress, want_empty=False):
    """content of one blob: cls ascii | utf8 (valid, not ASCII) | bin (not valid UTF-8)"""
    tag = ("<%s:%d>" % (bid, rng.randrange(10 ** 9))).encode()
    size = rng.choice([0, 1, 3, 17, 64, 200])
    if stress >= 2:
        size = rng.choice(BLOB_SIZES if stress == 3 else BLOB_SIZES[:9])
    cr = stress == 1 and rng.random() < 0.5
    if cls == "ascii":
        if want_empty:
            return b""
        body = ascii_text(rng, size, cr)
        if stress == 1 and rng.random() < 0.5:
            body += rng.choice([b"\x0b", b"\x0c", b"\x1c", b"\x1d", b"\x1e", b"\x7f", b"\x00"]) + b"tail"
        return tag + body
    if cls == "utf8":
        extra = "".join(rng.choice(["é", "é", "中", "\U0001F600", " ", " ", "\u0085", "﻿", "ß", "Å"])
                        for _ in range(rng.randint(1, 6))) + rng.choice(TRAIL)
        return tag + ascii_text(rng, size, cr) + extra.encode("utf-8") + (b"\n" if rng.random() < 0.5 else b"")
    extra = rng.choice([b"\xff", b"\xfe\xff", b"\xc3", b"caf\xe9", b"\x80abc", b"\xed\xa0\x80", b"\xf8\x88\x80\x80\x80", b"\xc0\xaf"])
    if stress >= 2 and rng.random() < 0.7:
        body = rng.randbytes(size)          # incompressible
        if not _invalid_utf8(tag + body + extra):
            body += b"\xff"
        return tag + body + extra
    return tag + ascii_text(rng, size, cr) + extra + (b"\n" if rng.random() < 0.5 else b"x")


def _invalid_utf8(b):
    try:
        b.decode("utf-8")
        return False
    except UnicodeDecodeError:
        return True


def univ_newlines(s):
    return s.replace("\r\n", "\n").replace("\r", "\n")


def changelog_text(rng, ident, stress):
    """a changelog whose first block identifies it; stress 2: larger than the gzip / tar read buffers"""
    src = "src-%s" % ident.lower()
    blocks = rng.choice([1, 2, 3]) if stress < 2 else rng.choice([120, 160]) if stress == 2 else rng.choice([400, 900])
    out = []
    for i in range(blocks):
        ver = "%d.%d-%s%d" % (blocks - i, rng.randrange(100), ident.lower(), i)
        who = rng.choice(["A Maintainer <a@example.org>", "Zoë Müller <zoe@example.org>"]) if stress else "A Maintainer <a@example.org>"
        lines = ["  * change %d of %s %s" % (j, ident, "é中" if stress == 1 else "x" * rng.choice([1, 30, 70])) for j in range(rng.randint(1, 3))]
        out.append("%s (%s) unstable; urgency=medium\n\n%s\n\n -- %s  Mon, %02d Jan 2024 10:00:00 +0000\n" % (src, ver, "\n".join(lines), who, 1 + i % 28))
    return "\n".join(out).encode("utf-8")


def gzip_stream(rng, raw, kind):
    if kind == "one":
        if rng.random() < 0.5:
            return gzip.compress(raw, rng.choice([1, 6, 9]), mtime=rng.choice([0, 1700000000]))
        buf = io.BytesIO()
        with gzip.GzipFile(filename="changelog", mode="wb", fileobj=buf, mtime=12345) as g:
            g.write(raw)
        return buf.getvalue()
    if kind == "multi":
        k = rng.choice([2, 3, 5])
        cuts = sorted(rng.randrange(0, len(raw) + 1) for _ in range(k - 1))
        parts = [raw[a:b] for a, b in zip([0] + cuts, cuts + [len(raw)])]
        return b"".join(gzip.compress(p, rng.choice([1, 9]), mtime=0) for p in parts)
    return rng.choice([raw, b"not gzip at all\n" + raw[:40], b"\x1f\x8b" + raw[:40]]) + b"\xff"


# ------------------------------------------------------------------ tar writer

def build_tar(entries, fmt, rng, fillers=()):
    """entries: [(stored name without './', type, data or link target)] in archive order -> tar bytes.
    Members are './name' (directories './name/', the root './') the way dpkg-deb writes them"""
    buf = io.BytesIO()
    tf = tarfile.GNU_FORMAT if fmt == "gnu" else tarfile.PAX_FORMAT
    items = list(entries)
    for f in fillers:
        items.insert(rng.randint(1 if items else 0, len(items)), f)
    with tarfile.open(fileobj=buf, mode="w", format=tf, encoding="utf-8", errors="surrogateescape") as t:
        for name, typ, data in items:
            ti = tarfile.TarInfo("./" + name if name else "./")
            ti.mtime = 1700000000
            if typ == "dir":
                ti.type = tarfile.DIRTYPE
                ti.mode = 0o755
                if name:
                    ti.name += "/"
            elif typ == "sym":
                ti.type = tarfile.SYMTYPE
                ti.linkname = data
            elif typ == "hard":
                ti.type = tarfile.LNKTYPE
                ti.linkname = data
            elif typ == "other":
                ti.type = rng.choice([tarfile.FIFOTYPE, tarfile.CHRTYPE, tarfile.BLKTYPE])
            if typ == "file":
                ti.size = len(data)
                ti.mode = 0o755 if name in MAINT_SCRIPTS else 0o644
                t.addfile(ti, io.BytesIO(data))
            else:
                t.addfile(ti)
    return buf.getvalue()


def garbage(rng):
    """a payload that is not a (compressed) tar archive at all (truncated streams are outside the domain)"""
    return rng.choice([rng.randbytes(rng.choice([1, 60, 700])), b"", b"\x1f\x8b\x08\x00" + rng.randbytes(300),
                       b"./control" + b"\0" * 80, b"\xfd7zXZ\x00" + rng.randbytes(200), b"BZh9" + rng.randbytes(200),
                       b"hello world\n" * 50, gzip.compress(rng.randbytes(2000))])


# ------------------------------------------------------------------ realisation

class Real(object):
    """one realisation of a scenario.  stress: 0 tame, 1 odd characters, 2 sizes, 3 big sizes (1 MiB file, 1000 members / lines)"""

    def __init__(self, env, seed, stress):
        self.env, self.seed, self.stress = env, seed, stress
        rng = self.rng = random.Random("x11-real-%s-%s-%s" % (env["id"], seed, stress))
        self.atom = dict(FIXED)
        self._atoms(rng)
        self.blob = {}            # blob id -> bytes
        self.chlog = {}           # inner id -> changelog text (bytes)
        self.md5 = {}             # blob id -> [concrete line dict]
        self.fields = {}          # control blob id -> [(key, value)]
        self._blobs(rng)
        self.rblob = {}
        for b, v in self.blob.items():
            if v in self.rblob:
                raise core.MachineryError("realisation: blobs %s and %s have the same content" % (b, self.rblob[v]))
            self.rblob[v] = b
        self.pk = [self._package(rng, k, pk) for k, pk in enumerate(env["pk"])]

    # -- names
    def _atoms(self, rng):
        env = self.env
        atoms = []

        def note(q):
            for tok in q:
                if tok not in (".", "/") and tok not in atoms:
                    atoms.append(tok)
        for pk in env["pk"]:
            for part in (pk["ctl"], pk["dat"]):
                for e in part["ents"]:
                    note(e["n"])
        for c in env.get("calls", []):
            note(c["q"])
        for q in env.get("qnames", []):
            note(q)
        note(env["doc"])
        for b in env["blob"].values():
            if b["pn"]:
                note([b["pn"]])
        for kind in ("cD", "cN"):
            self.atom[env["kinds"][kind]] = FIXED[kind]
        pkgs = sorted({b["pn"] for b in env["blob"].values() if b["pn"]})
        if pkgs and "pnreal" not in env:
            pair = list(rng.choice(PKG_PAIRS))
            rng.shuffle(pair)
            extra = ["pkg%d" % i for i in range(len(pkgs))]
            for i, p in enumerate(pkgs):
                self.atom[p] = pair[i] if i < 2 else extra[i]
        used = set(self.atom.values()) | {"pad"}
        pool = TAME_ATOMS if (self.stress != 1 or not B.UTF8_FS) else TAME_ATOMS[:4] + ODD_ATOMS
        for a in atoms:
            if a in self.atom:
                continue
            if a in LITERAL:
                self.atom[a] = a
                continue
            if "areal" in env and a in env["areal"]:
                self.atom[a] = env["areal"][a]
                continue
            for _ in range(200):
                s = rng.choice(pool)
                if self.stress == 1 and B.UTF8_FS and rng.random() < 0.3:
                    s = s + rng.choice(TRAIL)
                if self.stress >= 2 and rng.random() < 0.6:
                    ln = rng.choice([x for x in BOUNDARY if x >= 31])
                    s = "L" + "".join(rng.choice("abcdefghij-_.+ ") for _ in range(ln - 2)) + "z"
                if s not in used and s not in LITERAL and not s.startswith("."):
                    break
            else:
                s = "atom-%s-%d" % (len(used), rng.randrange(10 ** 6))
            used.add(s)
            self.atom[a] = s
        self.ratom = {v: k for k, v in self.atom.items()}

    def path(self, q):
        return "".join(t if t in (".", "/") else self._atom(t) for t in q)

    def _atom(self, t):
        s = self.atom.get(t)
        if s is None:
            if t in LITERAL:
                s = t
            elif t in self.env.get("areal", {}):
                s = self.env["areal"][t]
            else:
                raise core.MachineryError("no realisation for the atom %r" % (t,))
            self.atom[t] = s
        return s

    # -- blobs
    def _blobs(self, rng):
        env = self.env
        inner = {}
        used = {e["b"] for pk in env["pk"] for part in (pk["ctl"], pk["dat"]) for e in part["ents"] if e["b"]}
        special = lambda b: env["blob"][b]["pn"] != "" or b.startswith(("ctl", "md5")) or env["blob"][b]["gz"] != "no" \
            or env["blob"][b]["inner"] or env["blob"][b]["lines"]      # noqa: E731
        for bid in sorted(env["blob"], key=lambda b: (not special(b), b)):
            if bid not in used:
                continue
            rec = env["blob"][bid]
            if rec["pn"] != "" or bid.startswith("ctl"):
                self.fields[bid] = self._control_fields(rng, rec["pn"], rec["k"])
                self.blob[bid] = B.render_control(self.fields[bid])
            elif rec["gz"] != "no" or rec["inner"]:
                ident = rec["inner"] or bid
                if ident not in inner:
                    inner[ident] = changelog_text(rng, ident, self.stress)
                self.chlog[ident] = inner[ident]
                self.blob[bid] = gzip_stream(rng, inner[ident], rec["gz"])
            elif bid.startswith("md5") or rec["lines"]:
                self.md5[bid] = self._md5_lines(rng, rec["lines"])
                self.blob[bid] = b"".join(x["raw"] for x in self.md5[bid])
            else:
                want_empty = rec["k"] == "ascii" and bid == "b4" and self.stress == 0 and b"" not in self.blob.values()
                for _ in range(50):
                    v = gen_blob(rng, bid, rec["k"], self.stress, want_empty)
                    if v not in self.blob.values():
                        break
                self.blob[bid] = v
        if self.stress == 3:      # one really big file (beyond 1 MiB) per realisation
            cand = [b for b in self.blob if b.startswith("b") and self.env["blob"][b]["k"] == "bin"]
            if cand:
                b = rng.choice(cand)
                self.blob[b] = self.blob[b][:40] + rng.randbytes(BIG_BLOB) + b"\xff"

    def _control_fields(self, rng, pn, cls):
        fields = [("Version", rng.choice(["1.0-1", "2:3.4~rc1+dfsg-2.1", "0.0.1"])), ("Architecture", "all"),
                  ("Maintainer", "Zoë Müller <zoe@example.org>" if cls == "utf8" else "A Maintainer <a@example.org>"),
                  ("Description", "short text\n long line one\n .\n more" if rng.random() < 0.5 else "short")]
        if self.stress >= 2:
            fields.insert(2, ("Depends", ", ".join("libdep%d (>= %d.0)" % (i, i) for i in range(rng.choice([100, 257] if self.stress == 2 else [1000])))))
        fields.append(("X-Build-Id", "%032x" % rng.getrandbits(128)))
        if pn:
            key = rng.choice(["Package", "Package", "package", "PACKAGE", "pAcKaGe"])
            fields.insert(rng.choice([0, 0, 1, len(fields)]), (key, self.atom[pn]))
        return fields

    def _md5_name(self, rng, ln, j):
        """bytes of the j-th concrete name of an abstract md5sums line (no CR / LF; does not start with ASCII white
        space; an ASCII tail keeps names apart under lossy decoding)"""
        tail = ("-%s-%d" % (ln["n"], j)).encode()
        odd = self.stress == 1
        mid_ascii = rng.choice([b"", b"\x0b", b"\x0c", b"\x1c", b"\x1e", b"\x7f"]) if odd else b""
        if ln["cls"] == "ascii":
            body = b"usr/share/my dir/file name  " + mid_ascii + b"v" + tail + (b"  " if ln["sep"] == "1sp" else b"")
            if ln["sep"] != "1sp" and rng.random() < 0.5:
                body = b"usr/bin/tool" + mid_ascii + tail
        elif ln["cls"] == "utf8":
            mid = rng.choice(["ünï", "éé", "中文", "\U0001F600", "x y", "l s", "n\u0085l", "﻿b", "ßİ"])
            body = "usr/share/doc/".encode() + mid.encode("utf-8") + mid_ascii + b"/f" + tail + rng.choice(TRAIL).encode("utf-8")
        else:
            body = b"usr/lib/" + rng.choice([b"caf\xe9", b"\xff\xfe", b"x\x80y", b"\xc3", b"\xed\xa0\x80"]) + mid_ascii + tail
            if odd and rng.random() < 0.5:
                body += rng.choice([b"\x85", b"\xa0", b"\xff"])
        if ln["sp"] == "u8":
            body = rng.choice(U8_SPACES).encode("utf-8") * rng.choice([1, 1, 2]) + body
        elif ln["sp"] == "all":
            body = rng.choice(FS_SPACES).encode() * rng.choice([1, 2]) + body
        if self.stress >= 2 and rng.random() < 0.2:
            want = rng.choice([255, 256, 257, 1023, 1025, 4095, 4097, 8191, 8193])
            body = body[:-len(tail)] + b"/" + b"d" * max(1, want - len(body) - 1) + tail
        return body

    def _md5_lines(self, rng, lines):
        """abstract lines -> concrete lines {n, idx (abstract occurrence), name, hex, raw}.  Lines naming the same
        abstract file are identical duplicates.  stress 2: one abstract line stands for a run of 33..1000 lines"""
        out = []
        names = {}
        mult = {}
        for i, ln in enumerate(lines):
            if ln["n"] not in names:
                m = 1
                if self.stress >= 2:
                    m = rng.choice([1, 2, 33, 100, 257] if self.stress == 2 or len(lines) > 2 else [1000, 1025])
                elif self.stress == 1 and rng.random() < 0.3:
                    m = rng.choice([2, 3])
                mult[ln["n"]] = m
                names[ln["n"]] = [(self._md5_name(rng, ln, j), "%032x" % rng.getrandbits(128)) for j in range(m)]
            for j, (name, hx) in enumerate(names[ln["n"]]):
                sep = {"2sp": b"  ", "1sp": b" ", "tab": b"\t"}[ln["sep"]]
                if self.stress == 1 and ln["sep"] == "tab" and rng.random() < 0.5:
                    sep = rng.choice([b"\t\t", b" \t", b"\t "])
                last = i == len(lines) - 1 and j == len(names[ln["n"]]) - 1
                eol = {"lf": b"\n", "crlf": b"\r\n", "none": b""}[ln["eol"]]
                if ln["eol"] == "none" and not last:
                    eol = b"\n"
                out.append({"n": ln["n"], "i": i, "name": name, "hex": hx, "raw": hx.encode() + sep + name + eol, "eol": ln["eol"]})
        return out

    # -- packages
    def _entries(self, rng, part, fill):
        ents = []
        files = [e for e in part["ents"] if e["t"] == "file"]
        for e in part["ents"]:
            name = self.path(e["n"])
            if e["t"] == "file":
                ents.append((name, "file", self.blob[e["b"]]))
            elif e["t"] == "dir":
                ents.append((name, "dir", None))
            elif e["t"] == "sym":
                tgt = os.path.basename(self.path(files[0]["n"])) if files and rng.random() < 0.7 else "no-such-target"
                ents.append((name, "sym", tgt))
            elif e["t"] == "hard":
                ents.append((name, "hard", "./" + self.path(files[0]["n"]) if files else "./nothing"))
            else:
                ents.append((name, "other", None))
        fillers = []
        if fill:
            count = rng.choice([9, 10, 11, 16, 17, 31, 32, 33] if self.stress < 2 else [99, 100, 101] if self.stress == 2 else [255, 256, 257, 1000])
            fillers.append(("pad", "dir", None))
            for i in range(count):
                nm = "pad/%04d-%s" % (i, "x" * rng.choice([1, 8, 60] if rng.random() < 0.9 else [90, 120, 200]))
                fillers.append((nm, "file", rng.randbytes(rng.choice([0, 1, 511, 512, 513])) if rng.random() < 0.7 else b"pad"))
        return ents, fillers

    def _package(self, rng, k, pk):
        out = {"info": self.info_bytes(rng, pk["info"]), "parts": {}}
        for key, p in (("ctl", "c"), ("dat", "d")):
            part = pk[key]
            # (random access into bz2 / lzma streams re-decompresses from the start: drawn less often, not for big parts)
            ext = rng.choice(EXTS[:2] * 3 + EXTS[2:]) if self.stress < 2 else rng.choice(EXTS[:2] * 4 + EXTS[2:3])
            if not part["good"]:
                payload = garbage(rng)
            else:
                fill = (self.stress >= 2 and rng.random() < 0.6 or (self.stress == 1 and rng.random() < 0.2)) and \
                    (self.env.get("table", True) or self.stress == 3)      # session walks re-open the package every time
                ents, fillers = self._entries(rng, part, fill)
                raw = build_tar(ents, "gnu" if rng.random() < 0.75 else "pax", rng, fillers)
                payload = B.compress(ext, raw)
            base = "control.tar" if p == "c" else "data.tar"
            member = base + ("." + ext if ext else "")
            if part["gate"] != "ok":
                member = rng.choice(["foo", base + ".Z", base + ".gzs", base.replace(".tar", ".tgz"), base + ".txt", "part.7z", base[:-4]])
            out["parts"][p] = {"member": member, "payload": payload, "ext": ext, "gate": part["gate"]}
        return out

    def info_bytes(self, rng, toks):
        out = b""
        for t in toks:
            if t == "w":
                out += b"\n" if (self.stress == 0 and rng.random() < 0.6) else bytes(rng.choice(WS_BYTES) for _ in range(rng.randint(1, 3)))
            else:
                out += self.info_atom(t)
        return out

    def info_atom(self, t):
        return t.encode("latin-1")

    def deb_bytes(self, k, rng, direct):
        """the .deb of package k.  direct: the parts are reached through ArFile.getmember(member name) and may carry
        any member name; otherwise the members are the regular three (+ a foreign one)"""
        pk = self.pk[k]
        mem = [("debian-binary", pk["info"])]
        for p in ("c", "d"):
            part = pk["parts"][p]
            mem.append((part["member"], part["payload"]))
        if rng.random() < 0.3:
            mem.append(("_gpgorigin", b"-----BEGIN PGP SIGNATURE-----\n"))
        if direct and rng.random() < 0.5:
            head, rest = mem[0], mem[1:]
            rng.shuffle(rest)
            mem = [head] + rest
        return B.build_ar(mem, rng.choice(["dpkg", "dpkg", "gnu"]))


# ------------------------------------------------------------------ the real objects

HOWS = ["fileobj", "fileobj", "fileobj-pos", "realfile", "filename", "filename-pos", "subclass"]
_counter = [0]


def classify(e):
    from debian.debfile import DebError
    if isinstance(e, DebError):
        return "DebError"
    return type(e).__name__


class World(object):
    """the live objects of one realisation: per package a DebFile (or an ArFile and directly constructed parts)"""

    def __init__(self, real, rng, work, via=None, how=None):
        from debian.debfile import DebFile, DebControl, DebData, DebPart
        from debian.arfile import ArFile
        self.real = real
        self.debs, self.parts, self.paths, self.fhs = [], [], [], []
        self.handles = []
        self.opened_as = []
        need_direct = any(pk["parts"][p]["gate"] != "ok" for pk in real.pk for p in ("c", "d"))
        for k, pk in enumerate(real.pk):
            v = via or ("direct" if need_direct else "deb")
            h = how or rng.choice(HOWS)
            blob = real.deb_bytes(k, rng, v == "direct")
            path = None
            if h in ("realfile", "filename", "filename-pos", "subclass"):
                _counter[0] += 1
                path = os.path.join(work, "x11-%d-%d.deb" % (os.getpid(), _counter[0]))
                with open(path, "wb") as f:
                    f.write(blob)
                self.paths.append(path)
            if v == "direct":
                if path and h != "realfile":
                    ar = ArFile(filename=path) if h != "filename-pos" else ArFile(path, "r")
                elif path:
                    fh = open(path, "rb")
                    self.fhs.append(fh)
                    ar = ArFile(fileobj=fh)
                else:
                    ar = ArFile(fileobj=io.BytesIO(blob))
                ctl = DebControl(ar.getmember(pk["parts"]["c"]["member"]))
                dcls = rng.choice([DebData, DebData, DebPart])
                dat = dcls(ar.getmember(pk["parts"]["d"]["member"]))
                self.debs.append(None)
                self.parts.append({"c": ctl, "d": dat})
                self.opened_as.append("direct/" + h)
                continue
            if h == "fileobj":
                deb = DebFile(fileobj=io.BytesIO(blob))
            elif h == "fileobj-pos":
                deb = DebFile(None, "r", io.BytesIO(blob))
            elif h == "realfile":
                fh = open(path, "rb")
                self.fhs.append(fh)
                deb = DebFile(fileobj=fh)
            elif h == "filename":
                deb = DebFile(filename=path)
            elif h == "filename-pos":
                deb = DebFile(path, "r")
            else:
                class PackageReader(DebFile):
                    """a user subclass that adds nothing"""
                deb = PackageReader(filename=path, mode="r")
            self.debs.append(deb)
            self.parts.append(None)
            self.opened_as.append(h)

    def part(self, k, p):
        if self.parts[k] is not None:
            return self.parts[k][p]
        deb = self.debs[k]
        return deb.control if p == "c" else deb.data

    def drop(self):
        for h in self.handles:
            try:
                h[0].close()
            except Exception:      # noqa: BLE001
                pass
        for fh in self.fhs:
            try:
                fh.close()
            except Exception:      # noqa: BLE001
                pass
        for p in self.paths:
            try:
                os.unlink(p)
            except OSError:
                pass

    # -- projections
    def blob_sym(self, data):
        if not isinstance(data, bytes):
            return {"t": "?", "x": "returned %s instead of bytes" % type(data).__name__}
        b = self.real.rblob.get(data)
        if b is None:
            return {"t": "?", "x": "bytes that were not packed: %r" % (data[:60],)}
        return {"t": "bytes", "x": b}

    def text_sym(self, text, m):
        """which blob, decoded with the requested codec, is this text?  (io.TextIOWrapper translates '\\r\\n' and
        '\\r' to '\\n' in its default mode: both readings are accepted, see the module header of x11.py)"""
        if not isinstance(text, str):
            return {"t": "?", "x": "returned %s instead of str" % type(text).__name__}
        errs = "strict" if m["errs"] in ("", "strict") else m["errs"]
        cache = self.real.__dict__.setdefault("_dectab", {})
        tab = cache.get((m["codec"], errs))
        if tab is None:
            tab = cache[(m["codec"], errs)] = {}
            for b, raw in self.real.blob.items():
                try:
                    exp = raw.decode(m["codec"], errs)
                except UnicodeDecodeError:
                    continue
                tab.setdefault(exp, b)
                tab.setdefault(univ_newlines(exp), b)
        b = tab.get(text)
        if b is not None:
            return {"t": "text", "x": [b, m["codec"], errs]}
        return {"t": "?", "x": "text that is not the decoded content of a packed file: %r" % (text[:60],)}

    def read_file(self, f, m, rng):
        """read a file object returned by get_file through one of the reading protocols"""
        how = rng.randrange(5)
        if how == 0:
            out = [f.read()]
        elif how == 1:
            out = list(f.readlines())
        elif how == 2:
            out = [line for line in f]
        elif how == 3:
            out = []
            while True:
                piece = f.read(rng.choice([1, 2, 7, 64, 4096, 8191, 8192, 8193, 65536]) if len(out) < 30 else 1 << 20)
                if not piece:
                    break
                out.append(piece)
        else:
            out = [f.read(rng.choice([0, 1, 5])), f.read()]
        f.close()
        if not out:
            return b"" if m["codec"] == "" else ""
        if all(isinstance(x, bytes) for x in out):
            return b"".join(out)
        if all(isinstance(x, str) for x in out):
            return "".join(out)
        return out            # neither bytes nor text: reported by the projection

    def content_sym(self, data, m):
        if data is None:
            return {"t": "none", "x": ""}
        return self.blob_sym(data) if m["codec"] == "" else self.text_sym(data, m)

    def get_args(self, q, m, rng, allow_item=False):
        """(positional args, keyword args) for get_content / get_file in one of the calling conventions"""
        enc, errs = m["codec"] or None, m["errs"] or None
        r = rng.randrange(4)
        if enc is None and errs is None:
            return [((q,), {}), ((q, None), {}), ((q,), {"encoding": None}), ((q, None, None), {})][r]
        if errs is None:
            return [((q, enc), {}), ((q,), {"encoding": enc}), ((q, enc, None), {}), ((q,), {"encoding": enc, "errors": None})][r]
        return [((q, enc, errs), {}), ((q,), {"encoding": enc, "errors": errs}), ((q, enc), {"errors": errs}), ((q,), {"errors": errs, "encoding": enc})][r]

    # -- one call of the specification on the real objects
    def apply(self, c, rng):
        """-> result in the vocabulary of the specification, or None when this world cannot perform the call
        (DebFile-level calls on directly constructed parts)"""
        try:
            return self._apply(c, rng)
        except Exception as ex:      # noqa: BLE001 -- what the library raises is an observation
            if isinstance(ex, core.MachineryError):
                raise
            if not _from_library(ex):
                raise
            return {"t": "err", "x": classify(ex)}

    def _apply(self, c, rng):
        real, op, k = self.real, c["op"], c["k"] - 1
        m = c["m"]
        if op == "rd":
            f, hm = self.handles.pop(c["h"] - 1)
            return self.content_sym(self.read_file(f, hm, rng), hm)
        deb = self.debs[k]
        if op in ("chlog", "ver", "enter", "exit", "close") and deb is None:
            if op == "close":
                self.parts[k]["c"].close()
                self.parts[k]["d"].close()
                return {"t": "ok", "x": ""}
            return None
        if op in ("has", "getc", "getf", "gf", "iter", "tgz", "closep"):
            part = self.part(k, c["p"])
        if op in ("has", "getc", "getf", "gf"):
            q = real.path(c["q"])
        if op == "has":
            a = part.has_file(q)
            b = q in part
            d = part.__contains__(q)
            if not (a is b is d) or not isinstance(a, bool):
                return {"t": "?", "x": "has_file / in / __contains__ = %r %r %r" % (a, b, d)}
            return {"t": "bool", "x": "true" if a else "false"}
        if op == "getc":
            if m["codec"] == "" and m["errs"] == "" and rng.random() < 0.4:
                data = part[q] if rng.random() < 0.5 else part.__getitem__(q)
            else:
                args, kw = self.get_args(q, m, rng)
                data = part.get_content(*args, **kw)
            return self.content_sym(data, m)
        if op in ("getf", "gf"):
            args, kw = self.get_args(q, m, rng)
            f = part.get_file(*args, **kw)
            if f is None:
                return {"t": "none", "x": ""}
            if op == "gf":
                if c.get("nokeep"):
                    f.close()
                else:
                    self.handles.append((f, m))
                return {"t": "handle", "x": ""}
            return self.content_sym(self.read_file(f, m, rng), m)
        if op == "iter":
            a = [n for n in part]
            b = list(iter(part))
            d = list(part.tgz().getnames())
            if not (a == b == d):
                return {"t": "?", "x": "iteration and tgz().getnames() disagree"}
            names = [n for n in a if n != "./pad" and not n.startswith("./pad/")]
            return {"t": "names", "x": [self.name_tokens(n) for n in names]}
        if op == "tgz":
            t1 = part.tgz()
            if not isinstance(t1, tarfile.TarFile):
                return {"t": "?", "x": "tgz() returned %s" % type(t1).__name__}
            return {"t": "tar", "x": ""}
        if op == "closep":
            r = part.close()
            return {"t": "ok", "x": ""} if r is None else {"t": "?", "x": "close() returned %r" % (r,)}
        who = deb if (deb is not None and rng.random() < 0.5) else self.part(k, "c")
        if op == "scripts":
            d = who.scripts()
            return self.scripts_sym(d)
        if op == "ctl":
            d = who.debcontrol()
            return self.ctl_sym(d)
        if op == "md5":
            enc, errs = m["codec"] or None, m["errs"] or None
            r = rng.randrange(3)
            if enc is None and errs is None:
                d = [who.md5sums, lambda: who.md5sums(None), lambda: who.md5sums(encoding=None)][r]()
            elif errs is None:
                d = [lambda: who.md5sums(enc), lambda: who.md5sums(encoding=enc), lambda: who.md5sums(enc, None)][r]()
            else:
                d = [lambda: who.md5sums(enc, errs), lambda: who.md5sums(encoding=enc, errors=errs), lambda: who.md5sums(enc, errors=errs)][r]()
            return self.md5_sym(d, m, k)
        if op == "chlog":
            ch = deb.changelog()
            return self.chlog_sym(ch)
        if op == "ver":
            v = deb.version
            return self.ver_sym(v)
        if op == "enter":
            r = deb.__enter__()
            return {"t": "self", "x": ""} if r is deb else {"t": "?", "x": "__enter__ returned another object"}
        if op == "exit":
            r = deb.__exit__(None, None, None)
            return {"t": "ok", "x": ""} if not r else {"t": "?", "x": "__exit__ returned a true value (would swallow exceptions)"}
        if op == "close":
            r = deb.close()
            return {"t": "ok", "x": ""} if r is None else {"t": "?", "x": "close() returned %r" % (r,)}
        raise core.MachineryError("unknown operation %r" % op)

    def name_tokens(self, stored):
        rev = getattr(self, "_stored", None)
        if rev is None:
            rev = self._stored = {}
            for pk in self.real.env["pk"]:
                for part in (pk["ctl"], pk["dat"]):
                    for e in part["ents"]:
                        toks = ["."] if not e["n"] else [".", "/"] + list(e["n"])
                        rev[self.real.path(toks)] = toks
        return rev.get(stored, ["?" + stored])

    def scripts_sym(self, d):
        if not isinstance(d, dict):
            return {"t": "?", "x": "scripts() returned %s" % type(d).__name__}
        out = []
        for n in MAINT_SCRIPTS:
            if n in d:
                s = self.blob_sym(d[n])
                out.append({"n": n, "b": s["x"] if s["t"] == "bytes" else "?" + s["x"]})
        extra = [k for k in d if k not in MAINT_SCRIPTS]
        if extra:
            out.append({"n": "?%r" % (extra[0],), "b": ""})
        _mutate(d)
        return {"t": "map", "x": out}

    def ctl_sym(self, d):
        try:
            got = [(k, d[k]) for k in d]
        except Exception as ex:      # noqa: BLE001
            return {"t": "?", "x": "reading the result of debcontrol(): %s" % type(ex).__name__}
        for b, fields in self.real.fields.items():
            if got == fields:
                _mutate(d)
                return {"t": "ctl", "x": b}
        return {"t": "?", "x": "debcontrol() = %r" % (got[:3],)}

    def md5_sym(self, d, m, k):
        if not isinstance(d, dict):
            return {"t": "?", "x": "md5sums() returned %s" % type(d).__name__}
        real = self.real
        text = m["codec"] != ""
        errs = "strict" if m["errs"] in ("", "strict") else m["errs"]
        ctl = real.env["pk"][k]["ctl"]["ents"]
        bid = next((e["b"] for e in ctl if e["n"] == ["md5sums"] and e["t"] == "file"), None)
        cache = real.__dict__.setdefault("_md5tab", {})
        table = cache.get((bid, m["codec"], errs))
        if table is None:
            table = cache[(bid, m["codec"], errs)] = self._md5_table(bid, m, text, errs)
        out = []
        for key, val in d.items():
            hit = table.get(key)
            ty = "bytes" if isinstance(key, bytes) else "str" if isinstance(key, str) else "?" + type(key).__name__
            if hit is None:
                out.append({"key": {"n": "?%r" % (key,), "ty": ty, "dec": [], "cut": False, "cr": False}, "sum": ""})
                continue
            ln, cut, cr = hit
            rec = {"key": {"n": ln["n"], "ty": ty, "dec": [m["codec"], errs] if ty == "str" else [], "cut": cut, "cr": cr},
                   "sum": self._sum_sym(ln, val)}
            if not out or out[-1] != rec:
                out.append(rec)
        _mutate(d)
        return {"t": "md5", "x": out}

    def _md5_table(self, bid, m, text, errs):
        """concrete key -> (concrete line, leading white space lost, '\\r' kept) for every way the specification knows"""
        table = {}
        for ln in self.real.md5.get(bid, []):
            nb = ln["name"]
            try:
                base = nb.decode(m["codec"], errs) if text else nb
            except UnicodeDecodeError:
                continue
            crc = "\r" if text else b"\r"
            cands = [(base, False, False)]
            if text and base.lstrip() != base:
                cands.append((base.lstrip(), True, False))
            if ln["eol"] == "crlf":
                cands.append((base + crc, False, True))
            for key, cut, cr in cands:
                table.setdefault(key, (ln, cut, cr))
        return table

    def _sum_sym(self, ln, val):
        if not isinstance(val, str):
            return "?sum of type %s" % type(val).__name__
        if val != ln["hex"]:
            return "?sum %r, listed %r" % (val, ln["hex"])
        lines = self.real.env["blob"]
        for b in self.real.md5:
            for al in lines[b]["lines"]:
                if al["n"] == ln["n"]:
                    return al["sum"]
        return "?"

    def chlog_sym(self, ch):
        if ch is None:
            return {"t": "none", "x": ""}
        from debian.changelog import Changelog
        try:
            got = str(ch)
        except Exception as ex:      # noqa: BLE001
            return {"t": "?", "x": "str(changelog) raised %s" % type(ex).__name__}
        if not isinstance(ch, Changelog):
            return {"t": "?", "x": "changelog() returned %s" % type(ch).__name__}
        cache = getattr(self.real, "_chstr", None)
        if cache is None:
            cache = self.real._chstr = {i: str(Changelog(t)) for i, t in self.real.chlog.items()}
        for ident, s in cache.items():
            if got == s:
                return {"t": "chlog", "x": ident}
        return {"t": "?", "x": "a changelog that was not packed: %r" % (got[:80],)}

    def ver_sym(self, v):
        if not isinstance(v, bytes):
            return {"t": "?", "x": "version is %s" % type(v).__name__}
        return {"t": "ver", "x": tokenize_info(v)}


def tokenize_info(v):
    """bytes of debian-binary -> ['w' for a run of white space, the text of a run of other bytes]"""
    out = []
    cur = b""
    ws = None
    for ch in v:
        isw = ch in WS_BYTES
        if ws is not None and isw != ws:
            out.append("w" if ws else cur.decode("latin-1"))
            cur = b""
        cur += bytes([ch])
        ws = isw
    if ws is not None:
        out.append("w" if ws else cur.decode("latin-1"))
    return out


def _mutate(d):
    """what a caller may do with a dictionary it was handed: drop a key, change a value, add a key"""
    try:
        keys = list(d.keys())
        if keys:
            del d[keys[0]]
        for k in keys[1:2]:
            d[k] = d[k] + d[k][:1]
        d["Junk"] = "mutated"
    except Exception:      # noqa: BLE001
        pass


def _from_library(exc):
    """exceptions raised by the code under test or by the standard library underneath it (tarfile, gzip, codecs)
    while it runs are observations; exceptions of the harness' own frames are not"""
    import traceback
    tb = traceback.extract_tb(exc.__traceback__)
    here = os.path.dirname(os.path.abspath(__file__))
    # the innermost frame decides: inside the harness directory -> harness bug
    return bool(tb) and not os.path.abspath(tb[-1].filename).startswith(here)
