"""X14 payload generators and input forms (self-contained: other checks' helper modules change under our feet).
The generators follow harness/changelog_common.py (C04 / C15): well-formed payloads per deb-changelog(5), with the
size stress of notes/SIZE_STRESS.md (lengths, counts, numbers) and its character stress."""
import io
import tempfile

# DESIGN D1: characters str.splitlines() treats as line boundaries never occur inside a line
D1 = "\n\r\v\f\x1c\x1d\x1e\x85\u2028\u2029"

PKG_FIRST = "abcdefghijklmnopqrstuvwxyz0123456789"
PKG_REST = PKG_FIRST + "+.-"
VER_CH = "ABCXYZabcdxyz0123456789.+~"
DISTS = ["unstable", "stable", "experimental", "UNRELEASED", "stable-security", "bookworm-backports",
         "oldstable-proposed-updates", "sid", "buster.1", "jessie-backports-sloppy", "testing", "xenial", "12.5-updates"]
URG = ["low", "medium", "high", "emergency", "critical", "HIGH", "Low", "Medium"]
COMMENTS = ["(HIGH for users of diversions)", "(security)", "(a=b)", "because: reasons; more", "(é ü)", "x", "(#12345 fixed)"]
KEYS = ["binary-only", "XS-Foo", "XC-Bar", "xb-baz", "Closes", "a", "x-v2", "Key"]
VALS = ["yes", "no", "a b c", "x=y;z", "1.0-1", "é", "(v)", "#1", "v:w", "e\u0301", "\ufb01", "\uff21", "a\u00a0b", "\u212b", "\u00c5", "x\u0100",
        "y\u013f", "\ufeffv", "\U0001f600"]
WORDS = ["fix", "the", "frobnicator", "Closes: #123456", "LP: #99", "naïve", "中文", "#", ":", "key: value", "a\tb",
         "-- Joe <j@x>  Mon, 01 Jan 2001 00:00:00 +0000", "(pkg) unstable; urgency=low", "[ Someone Else ]",
         "$Id$", "vim:", "/* c */", "ÀÉÎ", "ß", "𝔘", " ", "'quoted'", "\"dq\"", "\\", "%s", "{}", "--", "*", "+"]
# character stress: text that is not NFC/NFKC-stable next to its precomposed twin, case-mapping hazards,
# U+FEFF, joiners, soft hyphen, bidi marks, non-BMP, white-space look-alikes INSIDE tokens (at the ends of a
# header value they would be stripped as white space, which deb-changelog does not define), lone combining mark
CHAR_WORDS = ["e\u0301", "\u00e9", "A\u030a", "\u00c5", "\u212b", "\u2126", "\u03a9", "\uf9d0", "\ufb01", "fi", "\uff21",
              "\u1112\u1161\u11ab", "\ud55c", "\u00df", "\u0130", "\u0131", "\u017f", "\u03c3\u03c2", "\U00010400",
              "\ufeffbom", "mid\ufeffdle", "a\u200db", "a\u200cb", "so\u00adft", "\u200eltr\u200f", "\U0001f600", "\U0010ffff",
              "a\u00a0b", "a\u2003b", "a\u3000b", "a\u200bb", "\u0301lone"]
NAMES = ["Ange\u0301lique A\u030astro\u0308m", "Ang\u00e9lique \u00c5str\u00f6m", "\u212bngstr\u00f6m \u2126", "\u0130stanbul \u0131\u017f",
         "Joe Hacker", "J. R. Hacker", "\"Quoted, Name\"", "Name [team]", "Zoë Müller", "x", "A <B> C", "名前", "O'Neil", "Sole",
         "Joe (work)", "Dr.-Ing. X"]
MAILS = ["joe@example.org", "j.h+tag@sub.example.co.uk", "", "a@b", "first.last@例え.jp", "root@localhost"]
DOW = ["Mon", "Tue", "Wed", "Thu", "Fri", "Sat", "Sun"]
MON = ["Jan", "Feb", "Mar", "Apr", "May", "Jun", "Jul", "Aug", "Sep", "Oct", "Nov", "Dec"]


# size / threshold stress (notes/SIZE_STRESS.md): lengths, counts and numbers hit boundary neighbourhoods.
# The abstract case (line classes, block structure from TLC) does not change; only the payload grows.
LEN_B = [1, 2, 7, 8, 9, 15, 16, 17, 31, 32, 33, 63, 64, 65, 71, 72, 73, 79, 80, 81, 127, 128, 129, 255, 256, 257,
         1023, 1024, 1025, 4095, 4096, 4097, 8191, 8192, 8193]
CNT_B = [1, 2, 3, 9, 10, 11, 16, 17, 31, 32, 33, 99, 100, 101, 255, 256, 257]
NUM_B = [0, 9, 10, 99, 100, 2 ** 15, 2 ** 16, 2 ** 31 - 1, 2 ** 31, 2 ** 32 - 1, 2 ** 32, 2 ** 63 - 1, 2 ** 63, 10 ** 18]


def pick_len(rng, lo=1, hi=8193):
    """heavy-tailed: mostly the small boundaries, regularly the big ones, sometimes 64 Ki"""
    r = rng.random()
    pool = [n for n in LEN_B if lo <= n <= hi]
    if r < 0.03 and hi >= 65537:
        return rng.choice([65535, 65536, 65537])
    if r < 0.55:
        pool = [n for n in pool if n <= 130] or pool
    elif r < 0.85:
        pool = [n for n in pool if n <= 1025] or pool
    return rng.choice(pool)


def pick_count(rng, hi=257):
    r = rng.random()
    pool = [n for n in CNT_B if n <= hi]
    if r < 0.6:
        pool = [n for n in pool if n <= 33] or pool
    return rng.choice(pool)


def gen_package(rng, stress=False):
    n = pick_len(rng, 2, 1025) if stress else rng.randint(2, 9)
    return rng.choice(PKG_FIRST) + "".join(rng.choice(PKG_REST) for _ in range(n - 1))


def gen_dists(rng, stress=False):
    if stress:
        return " ".join(rng.choice(DISTS) + rng.choice(["", "", "-x", ".%d" % rng.choice(NUM_B)]) for _ in range(pick_count(rng, 101)))
    return " ".join(rng.sample(DISTS, rng.choice([1, 1, 1, 2, 3])))


def _boundary_times():
    import datetime
    D = datetime.datetime
    return [D(1970, 1, 1), D(1999, 12, 31, 23, 59, 59), D(2000, 1, 1), D(2000, 2, 29, 12), D(2001, 9, 9, 1, 46, 40),
            D(2038, 1, 19, 3, 14, 7), D(2038, 1, 19, 3, 14, 8), D(2100, 2, 28, 23, 59, 59), D(9999, 12, 31, 23, 59, 59),
            D(1995, 1, 9, 9, 9, 9), D(2024, 2, 29), D(2010, 10, 10, 10, 10, 10)]


def gen_date(rng, stress=False):
    """a real calendar date (the weekday, when written, is the right one) in the documented form
    [day-of-week, ]d[d] month yyyy h[h]:mm:ss +zzzz with a real-world zone; stress: boundary dates"""
    import datetime
    if stress and rng.random() < 0.7:
        t = rng.choice(_boundary_times())
    else:
        t = datetime.datetime(1995, 1, 1) + datetime.timedelta(seconds=rng.randrange(0, 43 * 365 * 86400))
    day = rng.choice(["%d" % t.day, "%02d" % t.day])
    hour = rng.choice(["%d" % t.hour, "%02d" % t.hour])
    s = "%s %s %04d %s:%02d:%02d %s%04d" % (day, MON[t.month - 1], t.year, hour, t.minute, t.second, rng.choice("+-"),
                                           rng.choice([0, 100, 200, 330, 530, 545, 800, 930, 1000, 1200, 1245, 1400]))
    if rng.random() < 0.75:
        s = DOW[t.weekday()] + "," + rng.choice([" ", " ", "  "] if len(day) == 1 else [" "]) + s
    return s


def gen_text(rng, n):
    """n characters of change / name payload (no D1 character, no leading / trailing blank)"""
    if n <= 0:
        return ""
    alphabet = "abcdefghij klmnop qrstuvwxyz#:é中-.,;()<>=*"
    t = "".join(rng.choice(alphabet) for _ in range(n))
    return "x" + t[1:-1] + "y" if n > 1 else "x"


def gen_author(rng, stress=False):
    if stress:
        return "%s <%s>" % (gen_text(rng, pick_len(rng, 1, 4097)).replace("<", "(").replace(">", ")"),
                            rng.choice(MAILS) if rng.random() < 0.5 else gen_text(rng, pick_len(rng, 1, 1025)).replace("<", "").replace(">", "").replace(" ", ".") + "@x")
    return "%s <%s>" % (rng.choice(NAMES), rng.choice(MAILS))


def gen_change_text(rng, stress=False):
    if stress:
        return "  " + rng.choice(["* ", "", "  "]) + gen_text(rng, pick_len(rng, 1, 65537))
    n = rng.randint(1, 5)
    body = " ".join(rng.choice(CHAR_WORDS if rng.random() < 0.3 else WORDS) for _ in range(n))
    lead = rng.choice(["* ", "* ", "  ", "- ", "", "+ ", "\t", "    ", "\ufeff* "])
    s = "  " + lead + body + rng.choice(["", "", "", " ", ".", "\t"])
    if rng.random() < 0.25:          # line-final characters whose UTF-8 form ends in every byte 0x80 .. 0xBF
        s += chr(0x100 + rng.randrange(64))
    if not s.strip():
        s += "x"
    return s



BASE_TEXT = ("str", "bytes")
BASE_LINES = ("stringio", "bytesio", "file", "file_bin", "textwrap", "list_nl", "list", "list_bytes", "iter", "iter_bytes", "tuple")
BYTES_FORMS = ("bytes", "bytesio", "file_bin", "textwrap", "list_bytes", "iter_bytes")


def make_source(text, form, enc="utf-8"):
    """the text in one of the documented input forms of Changelog(); bytes forms are written in `enc` (the
    encoding the Changelog is told); falls back to str when the text cannot be written in it or when the
    re-decoded bytes would contain a str.splitlines() boundary the text does not have"""
    if form in BYTES_FORMS:
        try:
            data = text.encode(enc)
            if data.decode(enc) != text or len(data.decode(enc).splitlines()) != len(text.splitlines()):
                form = "str"
        except UnicodeError:
            form = "str"
    if form == "str":
        return text
    if form == "bytes":
        return data
    if form == "stringio":
        return io.StringIO(text)
    if form == "bytesio":
        return io.BytesIO(data)
    if form == "file":
        f = tempfile.TemporaryFile("w+", encoding="utf-8", newline="\n")
        f.write(text)
        f.seek(0)
        return f
    if form == "file_bin":
        f = tempfile.TemporaryFile("w+b")
        f.write(data)
        f.seek(0)
        return f
    if form == "textwrap":
        return io.TextIOWrapper(io.BytesIO(data), encoding=enc, newline="\n")
    lines = text.split("\n")[:-1] if text.endswith("\n") else text.split("\n")
    if form == "list_nl":
        return [l + "\n" for l in lines]
    if form == "list":
        return lines
    if form == "list_bytes":
        return [(l + "\n").encode(enc) for l in lines]
    if form == "iter":
        return (l + "\n" for l in lines)
    if form == "iter_bytes":
        return ((l + "\n").encode(enc) for l in lines)
    if form == "tuple":
        return tuple(lines)
    raise AssertionError(form)
