#!/venv/bin/python
"""Mutation self-test (not a registered check): applies source mutations that keep the
repository's tests green to a scratch copy of /repo/lib and requires the quick check of the
targeted property to report VIOLATION.  usage: selftest.py [PROP ...] [--list] [--tests]"""
import json
import os
import shutil
import subprocess
import sys
import tempfile
import time

HERE = os.path.dirname(os.path.abspath(__file__))
VERIF = os.path.dirname(HERE)
sys.path.insert(0, HERE)
from mutants import MUTANTS  # noqa: E402


def main():
    if "--help" in sys.argv or "-h" in sys.argv:
        print(__doc__)
        return 0
    args = [a for a in sys.argv[1:] if not a.startswith("--")]
    run_tests = "--tests" in sys.argv
    want = [a.upper() for a in args]
    base = tempfile.mkdtemp(prefix="pd-selftest-", dir=os.environ.get("TMPDIR", "/tmp"))
    results = []
    try:
        for m in MUTANTS:
            if want and m["prop"] not in want and m["id"] not in args:
                continue
            if "--list" in sys.argv:
                print(m["id"], m["prop"], m.get("file") or m.get("patch"), m.get("note", ""))
                continue
            root = os.path.join(base, m["id"])
            shutil.copytree("/repo", root, ignore=shutil.ignore_patterns(".git", "__pycache__", ".pytest_cache"))
            if m.get("patch"):
                pp = subprocess.run(["patch", "-p1", "-s", "-i", os.path.join(VERIF, m["patch"])], cwd=root,
                                    capture_output=True, text=True)
                if pp.returncode != 0:
                    results.append((m["id"], m["prop"], "STALE (patch does not apply) " + pp.stdout[-200:]))
                    print(*results[-1], flush=True)
                    shutil.rmtree(root)
                    continue
            else:
                path = os.path.join(root, m["file"])
                src = open(path).read()
                if src.count(m["old"]) < 1:
                    results.append((m["id"], m["prop"], "STALE (pattern not found)"))
                    print(*results[-1], flush=True)
                    shutil.rmtree(root)
                    continue
                src = src.replace(m["old"], m["new"], m.get("count", 1))
                open(path, "w").write(src)
            tests = ""
            if run_tests:
                p = subprocess.run(["/venv/bin/python", "-m", "pytest", "-q", "-x", "-p", "no:cacheprovider", "lib"],
                                   cwd=root, capture_output=True, text=True)
                tests = " tests:" + (p.stdout.strip().splitlines() or ["?"])[-1]
            env = dict(os.environ, VERIF_REPO=root, VERIF_EVIDENCE_DIR=os.path.join(base, "ev"),
                       VERIF_REPLAY_DIR=os.path.join(base, "replays"))
            t0 = time.time()
            p = subprocess.run([os.path.join(VERIF, "check"), m["prop"]], env=env, capture_output=True, text=True)
            viol = [l for l in p.stdout.splitlines() if l.startswith("VIOLATION")]
            detail = [l for l in p.stdout.splitlines() if l.startswith("  ")][:1]
            if m.get("expect") == "quiet":   # property-preserving change: the check must NOT alarm
                status = "DETECTED(quiet as required)" if p.returncode == 0 else "FALSE-ALARM rc=%d" % p.returncode
            else:
                status = "DETECTED" if p.returncode == 1 and viol else ("MISSED" if p.returncode == 0 else "ERROR rc=%d %s" % (p.returncode, p.stderr[-300:]))
            results.append((m["id"], m["prop"], "%s (%.0fs)%s %s" % (status, time.time() - t0, tests, detail[0].strip()[:150] if detail else "")))
            print(*results[-1], flush=True)
            shutil.rmtree(root)
    finally:
        shutil.rmtree(base, ignore_errors=True)
    missed = [r for r in results if not r[2].startswith("DETECTED")]
    print("%d mutants, %d not detected" % (len(results), len(missed)))
    return 1 if missed else 0


if __name__ == "__main__":
    sys.exit(main())
