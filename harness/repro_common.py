"""Shared binding for C05 and C10 (spec/ReproDoc.tla): concretization of model documents,
driving debian._deb822_repro, projection of the real document back to model form.

API surface (notes/API_SURFACE.md): every public way of performing the operations of C05 / C10
  entry point / variant                                             exercised by
  parse_deb822_file(list of str / list of bytes / iterator or       parse(): rotating per replay (lts legs) AND per recorded
      generator of str / bytes lines / io.StringIO / io.BytesIO /       history (trace leg): FORMS, counted in
      real file text, binary buffered, binary unbuffered /              ctx.extra["file_object_kinds"]; line ends of the start
      BufferedReader over a short-read raw stream / GzipFile /          document steered to offsets 2^k-1, 2^k, 2^k+1 (k = 9..17,
      BZ2File / LZMAFile / gzip text wrapper /                          bytes or code points) on a share of the concretizations
      SpooledTemporaryFile binary and text)                             (Conc.align, ctx.extra["aligned_cases"])
  Deb822FileElement.new_empty_file()                                 run_path() for the empty start document (config E)
  p[k], p[(k, i)], p.get(k), p.get(k, default),                      apply_edge "get": rotating per call; every case variant of k
      p.configured_view()[k], `k in p`, len(p), iteration             (check_state reads all occurrences under three spellings)
  p[k] = v, p[(k, i)] = v, p.update({k: v}), p.setdefault(k, v)      apply_edge "set": rotating per call (setdefault only for an
      (absent k), set_field_to_simple_value,                          absent field, where it is an assignment)
      set_field_from_raw_string
  the same setters with a value they REJECT (ValueError,             apply_edge "set" with the model blob BAD (bad_value(): pool of
      nothing may change - C05)                                        texts that are not deb822 syntax for one field), C05 legs
  del p[k], del p[(k, i)], p.pop(k), remove_kvpair_element           apply_edge "del": rotating per call
  order_first / order_last / order_before / order_after              apply_edge, keys in any case variant, indexed and unindexed
  sort_fields(), sort_fields(key=None), sort_fields(key=str.lower)   apply_edge "sort": rotating per call
  sort_fields(key=f) / sort_fields(f) with an ARBITRARY key          apply_edge "sortby" (model action SortBy, key table kt): keys
      function ("same semantics as for sorted": stable sort of           WITH TIES (two-valued, constant, buckets, one name first /
      the current order), keys returning int / tuple / str               last) and without (reversed), after any history of moves,
                                                                         sorts and edits; both paragraph classes; lts + trace legs
  Deb822FileElement.insert / append with a paragraph from            apply_edge "insert"/"append": rotating per call
      new_empty_paragraph()+item assignment or from_dict()
  Deb822FileElement.append(q) / insert(i, q) with a paragraph q      apply_edge "appendo"/"inserto" (model actions AppendOwned /
      that ALREADY belongs to a file (paragraph of another parsed        InsertOwned, C10): refused calls as ordinary history steps:
      file, of a file built with new_empty_file()+append, or of          ValueError, dump() byte-identical to the dump before the
      THIS file - also the one an earlier step inserted), at every       call, history goes on; insert in front of an existing
      index                                                              paragraph: refusal unspecified, an accepted call ends the history
  dump(), dump(fd), convert_to_text(), iteration over paragraphs,    check_state after every (deep) step; a fresh parse of the dump
      keys(), (name, i) lookup
  input form: comment lines of the start document - the field's       Conc / value_layouts / comment_block: text lines and BLANK
      own comment block, inner comments of a value, free comments        comment lines ("#", "# ", "#\t", "#  \t ") alone, first,
      between paragraphs                                                  last, in the middle of a block, doubled (CMT_SHAPES)
  out of domain: from_kvpairs() (re-parents the elements of another paragraph: aliasing by design),
      the state of a document after insert() ACCEPTED a paragraph that already belongs to a file, the interpreted
      views of X04/C11, configured_view flags other than the defaults (extra X10), removal of paragraphs
      (no public remove for paragraphs on the file element in the statement's operation list)."""
import json

WORDS = ["Architecture", "Build-Depends", "Depends", "Homepage", "Maintainer", "Package",
         "Section", "Source", "Uploaders", "Vcs-Git", "X-Custom", "Zz-Top"]
NEWS, NEWM, NEWSEP = 101, 102, 100
BAD = 103       # model blob of a value the setters reject (ReproDoc.BadV)


def spelled(base, s):
    return {"U": base, "L": base.lower(), "X": base.upper()}[s]


# comment lines that consist of the marker and blanks only (a comment blob of the model stands for ANY
# block of comment lines; these are the lines an implementation is tempted to "normalise" to "#")
BLANK_CMT = ["#", "# ", "#\t", "#  \t "]
# shapes of a comment block: T = line with text (carries the identity of the blob), U = second text
# line, B = blank comment line -- alone, first, last, in the middle, doubled
CMT_SHAPES = ["BT", "TB", "TBU", "BTB", "BBT", "TBB", "TUB", "BTU", "TBBU", "B", "B", "BB"]


def comment_block(rng, first, second, taken=()):
    """text of one block of comment lines with at least one blank comment line; blocks made of blank
    comment lines only are distinguishable by content from the blocks in `taken` (else the shape
    falls back to one with a text line), so that a projection can look blobs up by text"""
    # the text line in other spellings of the marker and with blanks at its end (same temptation)
    if first.startswith("# "):
        first = rng.choice(["# ", "# ", "#", "#\t", "## ", "#  "]) + first[2:] + rng.choice(["", "", " ", "\t", "  \t"])
    for shape in (rng.choice(CMT_SHAPES), "BT"):
        lines = [{"T": first, "U": second}.get(ch) or rng.choice(BLANK_CMT) for ch in shape]
        text = "".join(x + "\n" for x in lines)
        if "T" in shape or text not in taken:
            return text
    return text


# value layouts for original fields: (text after the colon, value as read back through p[key])
def value_layouts(rng, tag, final_nl=True):
    w = "v%s" % tag
    opts = [
        (" %s\n" % w, w),
        (" %s  x:y #z \n" % w, "%s  x:y #z" % w),
        ("\t%s\n" % w, w),
        ("%s\n" % w, w),
        (" %s\n more %s\n" % (w, w), "%s\n more %s" % (w, w)),
        (" %s,\n\tb-%s,\n c-%s\n" % (w, w, w), "%s,\n\tb-%s,\n c-%s" % (w, w, w)),
        ("\n line1-%s\n line2-%s\n" % (w, w), "\n line1-%s\n line2-%s" % (w, w)),
        (" %s,\n# inner comment %s\n z-%s\n" % (w, w, w), "%s,\n z-%s" % (w, w)),
        (" %s é中\n .\n end-%s\n" % (w, w), "%s é中\n .\n end-%s" % (w, w)),
        # character stress: not NFC-stable text, singletons, BOM / zero-width / NBSP, non-BMP
        (" %s cafe\u0301 \u212b\n \ufeffx\u200d \U0001f600\n" % w, "%s cafe\u0301 \u212b\n \ufeffx\u200d \U0001f600" % w),
        (" %s caf\u00e9\u00a0b\n" % w, "%s caf\u00e9\u00a0b" % w),
    ]
    tc = [chr(0x400 + rng.randrange(64)) for _ in range(3)]   # character stress: every UTF-8 trailing byte at line ends
    opts.append((" %s%s\n c%s\n" % (w, tc[0], tc[1]), "%s%s\n c%s" % (w, tc[0], tc[1])))
    opts.append((" %s %s\n" % (w, tc[2]), "%s %s" % (w, tc[2])))
    # inner comments with BLANK comment lines (marker + blanks only) in every position of the block:
    # alone, first / last / in the middle of a block, directly behind the field's own line
    b = [rng.choice(BLANK_CMT) for _ in range(4)]
    opts.append((" %s,\n%s\n z-%s\n" % (w, b[0], w), "%s,\n z-%s" % (w, w)))
    opts.append((" %s,\n%s\n# inner %s\n%s\n z-%s\n%s\n%s\n y-%s\n" % (w, b[0], w, b[1], w, b[2], b[3], w),
                 "%s,\n z-%s\n y-%s" % (w, w, w)))
    opts.append((" %s,\n# inner %s\n%s\n#  more\n z-%s\n" % (w, w, b[1], w), "%s,\n z-%s" % (w, w)))
    opts.append(("\n%s\n line1-%s\n# c\n%s\n line2-%s\n" % (b[2], w, b[3], w), "\n line1-%s\n line2-%s" % (w, w)))
    if rng.random() < 0.05:          # size stress: long lines, many continuation lines
        k = rng.choice([72, 73, 255, 256, 1023, 1024, 4095, 4096, 4097, 8192])
        n = rng.choice([10, 11, 100, 101])
        long1 = w + "y" * k
        cont = "".join(" c%d-%s\n" % (i, w) for i in range(n))
        opts = opts + [(" %s\n" % long1, long1)] * 3 + [(" %s\n%s" % (w, cont), ("%s\n%s" % (w, cont))[:-1])] * 3
    return opts


def tracks_nl(doc):
    """does this model document carry the optional attribute nl (text of the field ends in a newline)?"""
    return any("nl" in f for part in doc if part["t"] == "p" for f in part["fs"])


def bad_value(k):
    """concretization of the model blob BAD: (value for the dict interface / setdefault / update /
    set_field_to_simple_value, text for set_field_from_raw_string, None).  Every entry is rejected
    by documented behaviour: it is not deb822 syntax for ONE field (continuation line without
    leading blank, empty or blank-only line inside the value, another field's line, a comment as
    the last line), the raw text may also just lack its final newline."""
    if k is None:
        return ("bad\nnot-indented", " bad\nnot-indented\n", None)
    import random
    r = random.Random(k)
    api = r.choice(["b%d\nnot-indented", "b%d\n\n after-empty-line", "b%d\n \n after-blank-line", "b%d\n\t\n x",
                    "b%d\n cont\n# last line is a comment", "b%d\nOther-Field: x", "b%d \u00e9\n cont\nlate",
                    "\n cont-%d\nlate", "b%d\n# c\nnot-indented", "b%d\n " + "c" * 300 + "\nlate"]) % k
    first, rest = api.split("\n", 1)
    raw = " " + first.strip() + "\n" + rest + "\n"
    if r.random() < 0.25:
        raw = r.choice([" r%d", " r%d\n cont", "r%d\n\n"]) % k      # no final newline / empty line at the end
    return (api, raw, None)


class Conc:
    """One concretization of a model run: names, texts of original blobs, comments, separators,
    new values.  Everything needed to compute the expected text of any model document."""

    def __init__(self, rng, start_doc, names=(1, 2, 3, 4, 5), canonical=False, final_newline=None,
                 unique_seps=False):
        pool = sorted(WORDS, key=str.lower)
        if len(names) > len(pool):      # size stress: many names
            pool = sorted(["%s-%03d" % (WORDS[i % len(WORDS)], i) for i in range(len(names))], key=str.lower)
        chosen = pool[:len(names)] if canonical else sorted(rng.sample(pool, len(names)), key=str.lower)
        if not canonical and rng.random() < 0.12:
            # size stress: field names of boundary lengths (the base word stays a prefix, so the
            # lower-case sort order between names is unchanged)
            L = rng.choice([16, 17, 31, 32, 33, 63, 64, 65, 72, 73, 127, 128, 129, 255, 256, 257])
            chosen = [b if L <= len(b) + 1 else b + "-" + "x" * (L - len(b) - 1) for b in chosen]
        self.base = dict(zip(sorted(names), chosen))
        self.val = {}       # blob id -> (text after colon, readback)
        self.cmt = {0: ""}  # comment id -> text
        self.sep = {NEWSEP: "\n"}
        last_para_is_last = bool(start_doc) and start_doc[-1]["t"] == "p"
        for part in start_doc:
            if part["t"] == "p":
                for f in part["fs"]:
                    lay = value_layouts(rng, f["v"])
                    self.val[f["v"]] = lay[0] if canonical else rng.choice(lay)
                    if f["c"]:
                        self.cmt[f["c"]] = ("# comment %d\n" % f["c"]) if canonical or rng.random() < 0.5 \
                            else "# comment %d\n#  second line é\n" % f["c"]
                        if not canonical and rng.random() < 0.4:      # blank comment lines in the field's comment
                            self.cmt[f["c"]] = comment_block(rng, "# comment %d" % f["c"], "#  second line é",
                                                             set(self.cmt.values()))
        nparts = len(start_doc)
        for i, part in enumerate(start_doc):
            if part["t"] == "s":
                if i == 0:
                    opts = ["\n", "# leading free comment\n\n", "\n\n", " \n"]
                elif i == nparts - 1:
                    opts = ["\n", "\n# trailing free comment\n\n", "\n\n", "\t\n"]
                else:
                    opts = ["\n", "\n# free comment %d\n\n" % part["id"], "\n\n", " \n", "\n# c1\n# c2\n\n"]
                if unique_seps:     # texts distinguishable by content (needed to project seps back to ids)
                    k = part["id"]
                    opts = ["\t" * k + "\n", " " * k + "\n"]
                    if i == 0:
                        opts.append("# leading free comment %d\n\n" % k)
                    else:
                        opts.append("\n# free comment %d\n\n" % k)
                self.sep[part["id"]] = opts[0] if canonical else rng.choice(opts)
                if not canonical and rng.random() < 0.25:
                    # free comments with blank comment lines in every position of the block; a block of
                    # blank comment lines only is told apart by the number of blanks (unique_seps)
                    what = ("leading " if i == 0 else ("trailing " if i == nparts - 1 else "")) + "free comment %d" % part["id"]
                    blk = comment_block(rng, "# " + what, "# c2")
                    if unique_seps and "comment" not in blk:
                        blk = "#" + rng.choice(" \t") * part["id"] + "\n"
                    self.sep[part["id"]] = ("" if i == 0 else "\n") + blk + "\n"
        # new values written by edits: (value passed to the API, text after colon, readback)
        if canonical:
            self.new = {NEWS: ("new-s", " new-s\n", "new-s"),
                        NEWM: ("new-m\n second\n\tthird", " new-m\n second\n\tthird\n", "new-m\n second\n\tthird")}
        else:
            k = rng.randrange(1000)
            # character stress inside a single-line value: tabs, runs of blanks, NBSP / zero-width /
            # not NFC-stable / non-BMP text, characters str.splitlines() does not treat as line ends
            s_in = rng.choice(["n%d", "  n%d  ", "n%d a:b #c", "\tn%d", "n%d,\tb,\t\tc", "n%d  two   three",
                               "n%d\u00a0x\u200by cafe\u0301 \u212b \U0001f600", "n%d \t x", "a\tn%d",
                               "n%d " + "w" * 300 + "\tz"]) % k
            m_in = rng.choice(["m%d\n second\n\tthird", " m%d \n x", "m%d\n .\n y é", "\n only-cont-%d",
                               "usage %d\n   $ run --all\n   $ run --none", "m%d\n  two\n    four\n      six",
                               "m%d\n\ttab1\n\ttab2", "m%d\n \tmixed\n  x  y  ", "\n   deep-%d\n   deep2",
                               "m%d,\tb\n c,\t\td  e", "m%d\u00a0x\n caf\u00e9\u200b \U0001f600\ty",
                               "m%d\n " + "c" * 300 + "\n  d"]) % k
            first, rest = m_in.split("\n", 1)
            self.new = {NEWS: (s_in, " " + s_in.strip() + "\n", s_in.strip()),
                        NEWM: (m_in, " " + first.strip() + "\n" + rest + "\n", first.strip() + "\n" + rest)}
        self.new[BAD] = bad_value(None if canonical else k)
        # does the document end without a newline?  only possible when it ends in a paragraph
        if final_newline is None:
            final_newline = canonical or rng.random() < 0.5
        if tracks_nl(start_doc):      # the model document says which field lacks its newline (attribute nl)
            final_newline = True
        self.final_newline = final_newline or not last_para_is_last
        self.aligned = None
        if not canonical and start_doc and rng.random() < 0.06:
            self.align(rng, start_doc)

    def align(self, rng, start_doc):
        """SIZE_STRESS part 4: pad the first line of the value of one original field so that a line
        end further down - inside a value, between two fields, at a separator or a paragraph
        boundary, at the very end of the document - falls at offset 2^k - 1, 2^k or 2^k + 1 of the
        start text, counted in UTF-8 bytes or in code points.  The model document is unchanged
        (the blob just has a longer text)."""
        blobs = [f["v"] for part in start_doc if part["t"] == "p" for f in part["fs"]]
        if not blobs:
            return
        v = rng.choice(blobs[:2])
        w = "v%s" % v
        text, rb = self.val[v]
        if w not in text or w not in rb:
            return
        marker = "\x00PAD\x00"
        self.val[v] = (text.replace(w, w + marker, 1), rb)
        t = self.start_text(start_doc)
        self.val[v] = (text, rb)
        at = t.index(marker)
        t = t.replace(marker, "")
        unit = rng.choice(["bytes", "chars"])
        measure = (lambda x: len(x.encode("utf-8"))) if unit == "bytes" else len
        ends = [i + 1 for i in range(at, len(t)) if t[i] == "\n"]
        if not t.endswith("\n"):
            ends.append(len(t))
        if not ends:
            return
        end = rng.choice(ends + [ends[-1]] * 2 + [ends[0]])
        k = rng.choice([9, 10, 11, 12, 12, 13, 13, 13, 14, 15, 16, 16, 17])
        delta = rng.choice([-1, 0, 0, 1])
        pad = (1 << k) + delta - measure(t[:end])
        if pad <= 0:
            return
        self.val[v] = (text.replace(w, w + "y" * pad, 1), rb.replace(w, w + "y" * pad, 1))
        where = "end-of-document" if end == ends[-1] else ("padded-line" if end == ends[0] else "inner-line")
        self.aligned = {"offset": "2^%d%+d" % (k, delta), "unit": unit, "line_end": where}

    # ---- texts
    def value_text(self, v):
        return self.new[v][1] if v in self.new else self.val[v][0]

    def readback(self, v):
        return self.new[v][2] if v in self.new else self.val[v][1]

    def inst_text(self, f):
        t = self.cmt[f["c"]] + spelled(self.base[f["n"]], f["s"]) + ":" + self.value_text(f["v"])
        if f.get("nl") is False and t.endswith("\n"):      # a field whose text does not end in a newline
            t = t[:-1]
        return t

    def doc_text(self, doc):
        out = []
        for part in doc:
            if part["t"] == "p":
                out.extend(self.inst_text(f) for f in part["fs"])
            else:
                out.append(self.sep[part["id"]])
        return "".join(out)

    def start_text(self, doc):
        t = self.doc_text(doc)
        if not self.final_newline and t.endswith("\n"):
            t = t[:-1]
        return t

    def key(self, rng, karg):
        n, i = karg
        name = rng.choice([self.base[n], self.base[n].lower(), self.base[n].upper()]) if rng else self.base[n]
        return name if i < 0 else (name, i)

    def to_json(self):
        return {"base": {str(k): v for k, v in self.base.items()},
                "val": {str(k): list(v) for k, v in self.val.items()},
                "cmt": {str(k): v for k, v in self.cmt.items()},
                "sep": {str(k): v for k, v in self.sep.items()},
                "new": {str(k): list(v) for k, v in self.new.items()},
                "final_newline": self.final_newline, "aligned": self.aligned}

    @classmethod
    def from_json(cls, j):
        c = cls.__new__(cls)
        c.base = {int(k): v for k, v in j["base"].items()}
        c.val = {int(k): tuple(v) for k, v in j["val"].items()}
        c.cmt = {int(k): v for k, v in j["cmt"].items()}
        c.sep = {int(k): v for k, v in j["sep"].items()}
        c.new = {int(k): tuple(v) for k, v in j["new"].items()}
        c.final_newline = j["final_newline"]
        c.aligned = j.get("aligned")
        return c


# ------------------------------------------------------------------ the real thing

WORKDIR = None      # scratch directory for real files (ctx.work; set by the legs before forking workers)
FORMS = ["list-str", "list-bytes", "iter-str", "StringIO", "BytesIO", "gen-str", "gen-bytes",
         "file-text", "file-binary", "file-unbuffered", "short-read-BufferedReader", "GzipFile",
         "BZ2File", "LZMAFile", "gzip-text", "Spooled-binary", "Spooled-text"]


def split_lines(text):
    """lines with their line ends, split at \\n only (never str.splitlines: SIZE_STRESS part 3)"""
    parts = text.split("\n")
    lines = [x + "\n" for x in parts[:-1]]
    if parts[-1]:
        lines.append(parts[-1])
    return lines


def _short_reader(data, rng):
    """io.BufferedReader over a raw stream that hands out 1..7 bytes per read call"""
    import io
    import random
    r = random.Random(rng.getrandbits(30))

    class Raw(io.RawIOBase):
        def __init__(self):
            self.pos = 0

        def readable(self):
            return True

        def readinto(self, b):
            n = min(len(b), r.randint(1, 7), len(data) - self.pos)
            b[:n] = data[self.pos:self.pos + n]
            self.pos += n
            return n
    return io.BufferedReader(Raw(), buffer_size=rng.choice([16, 512, 8192]))


def open_source(text, form, rng):
    """(source object handed to the parser, list of things to close afterwards)"""
    import io
    import os
    import tempfile
    kind = FORMS[form]
    lines = split_lines(text)
    data = text.encode("utf-8")
    if kind == "list-str":
        return lines, []
    if kind == "list-bytes":
        return [l.encode("utf-8") for l in lines], []
    if kind == "iter-str":
        return iter(lines), []
    if kind == "StringIO":
        return io.StringIO(text), []
    if kind == "BytesIO":
        return io.BytesIO(data), []
    if kind == "gen-str":
        return (l for l in lines), []
    if kind == "gen-bytes":
        return (l.encode("utf-8") for l in lines), []
    if kind in ("file-text", "file-binary", "file-unbuffered"):
        fd, path = tempfile.mkstemp(prefix="doc-", dir=WORKDIR)
        with os.fdopen(fd, "wb") as out:
            out.write(data)
        if kind == "file-text":
            fo = open(path, "r", encoding="utf-8", newline="\n")
        elif kind == "file-binary":
            fo = open(path, "rb")
        else:
            fo = open(path, "rb", buffering=0)
        os.unlink(path)
        return fo, [fo]
    if kind == "short-read-BufferedReader":
        fo = _short_reader(data, rng)
        return fo, [fo]
    def stored(blob):
        # compressed bytes in memory, or in a real file (then fileno() names the COMPRESSED file)
        if rng.random() < 0.5:
            return io.BytesIO(blob)
        fd, path = tempfile.mkstemp(prefix="doc-", dir=WORKDIR)
        with os.fdopen(fd, "wb") as out:
            out.write(blob)
        raw = open(path, "rb")
        os.unlink(path)
        return raw
    if kind in ("GzipFile", "gzip-text"):
        import gzip
        raw = stored(gzip.compress(data, 1))
        fo = gzip.GzipFile(fileobj=raw, mode="rb")
        if kind == "gzip-text":
            tw = io.TextIOWrapper(fo, encoding="utf-8", newline="\n")
            return tw, [tw, raw]
        return fo, [fo, raw]
    if kind == "BZ2File":
        import bz2
        raw = stored(bz2.compress(data, 1))
        fo = bz2.BZ2File(raw)
        return fo, [fo, raw]
    if kind == "LZMAFile":
        import lzma
        raw = stored(lzma.compress(data, preset=0))
        fo = lzma.LZMAFile(raw)
        return fo, [fo, raw]
    if kind == "Spooled-binary":
        fo = tempfile.SpooledTemporaryFile(max_size=rng.choice([64, 1 << 20]), mode="w+b", dir=WORKDIR)
        fo.write(data)
        fo.seek(0)
        return fo, [fo]
    if kind == "Spooled-text":
        fo = tempfile.SpooledTemporaryFile(max_size=rng.choice([64, 1 << 20]), mode="w+", encoding="utf-8",
                                           newline="\n", dir=WORKDIR)
        fo.write(text)
        fo.seek(0)
        return fo, [fo]
    raise AssertionError(kind)


def parse(text, rng=None, info=None):
    """API surface / SIZE_STRESS part 4: the same text is handed over as a list of str or bytes lines,
    an iterator / generator, or one of the kinds of text / binary file objects in FORMS (the expected
    document does not depend on the form; the form is recorded in info for the evidence)"""
    from debian._deb822_repro import parse_deb822_file
    form = rng.randrange(len(FORMS)) if rng is not None else 0
    if info is not None:
        info["form"] = FORMS[form]
    src, closers = open_source(text, form, rng)
    try:
        return parse_deb822_file(src, accept_files_with_duplicated_fields=True,
                                 accept_files_with_error_tokens=True)
    finally:
        for c in closers:
            try:
                c.close()
            except Exception:
                pass


def new_paragraph(conc, n, rng=None):
    from debian._deb822_repro.parsing import Deb822ParagraphElement
    if rng is not None and rng.random() < 0.5:
        return Deb822ParagraphElement.from_dict({spelled(conc.base[n], "U"): conc.new[NEWS][0]})
    q = Deb822ParagraphElement.new_empty_paragraph()
    q[spelled(conc.base[n], "U")] = conc.new[NEWS][0]
    return q


def owned_paragraph(f, w, conc, rng=None):
    """a paragraph that already belongs to a file, and that file (the caller keeps it referenced
    during the call).  w >= 1: paragraph number w of f itself; w = 0: a paragraph of another file -
    parsed from text (first / last paragraph, with or without final newline, possibly with
    duplicated fields) or built with new_empty_file() + append"""
    if w >= 1:
        return list(f)[w - 1], f
    from debian._deb822_repro.parsing import Deb822FileElement
    v = rng.randrange(4) if rng is not None else 0
    names = [spelled(b, "U") for _, b in sorted(conc.base.items())]
    if v == 0:
        other = Deb822FileElement.new_empty_file()
        other.append(new_paragraph(conc, sorted(conc.base)[0], rng))
        if rng is not None and rng.random() < 0.5:
            other.append(new_paragraph(conc, sorted(conc.base)[-1], rng))
    else:
        text = "%s: o1\n%s: o2\n\n# other file\n%s: o3\n%s: o4%s" % (
            names[0], names[-1], names[0], names[0] if v == 3 else names[-1], "\n" if v != 2 else "")
        other = parse(text)
    paras = list(other)
    return (paras[-1] if rng is not None and rng.random() < 0.5 else paras[0]), other


def key_function(conc, kt, variant=0):
    """the Python key function for the model's key table kt (kt[n - 1] = key of the name of rank n):
    it sees the field name in whatever spelling the paragraph hands out; the keys are ints, 1-tuples
    or zero-padded strings (same order)"""
    rank = {b.lower(): n for n, b in conc.base.items()}

    def kf(name):
        n = rank.get(str(name).lower(), 0)
        k = kt[n - 1] if 1 <= n <= len(kt) else 0
        return k if variant == 0 else ((k,) if variant == 1 else "%06d" % k)
    return kf


def apply_edge(f, e, conc, rng):
    """perform the call of one model edge on the real file object; returns the outcome:
    "ok", ("VAL", text), or the exception class name"""
    op, a = e["op"], e["args"]
    try:
        if op in ("insert", "append"):
            q = new_paragraph(conc, a[-1], rng)
            if op == "insert":
                f.insert(a[0], q)
            else:
                f.append(q)
            return "ok"
        if op in ("inserto", "appendo"):
            # a paragraph that already belongs to a file: w = 0 another file (kept alive here: parents
            # are weak references), w >= 1 paragraph number w of this very file
            q, owner = owned_paragraph(f, a[-1], conc, rng)
            if op == "inserto":
                f.insert(a[0], q)
            else:
                f.append(q)
            del owner
            return "ok"
        paras = list(f)
        p = paras[a[0] - 1]
        pick = (lambda n: rng.randrange(n)) if rng is not None else (lambda n: 0)
        if op == "get":
            k = conc.key(rng, a[1])
            v = pick(4)
            if v == 0:
                return ("VAL", p[k])
            if v == 1:
                r = p.get(k)
                if r is None:
                    raise KeyError(k)
                return ("VAL", r)
            if v == 2:
                marker = object()
                r = p.get(k, marker)
                if r is marker:
                    raise KeyError(k)
                return ("VAL", r)
            return ("VAL", p.configured_view()[k])
        if op == "set":
            n, i = a[1]
            name = spelled(conc.base[n], a[2])
            # an existing field is addressed in any case variant; a new field gets the model's spelling
            if any(k.lower() == name.lower() for k in p.keys()):
                name = conc.key(rng, (n, -1))
            key = name if i < 0 else (name, i)
            v = pick(4)
            absent = not any(k.lower() == name.lower() for k in p.keys())
            if absent and i < 0 and pick(3) == 0:
                # MutableMapping.setdefault on an absent field is an assignment
                p.setdefault(key, conc.new[a[3]][0])      # (its return value is not part of the statement)
            elif v == 0:
                p[key] = conc.new[a[3]][0]
            elif v == 1:
                p.update({key: conc.new[a[3]][0]})
            elif v == 2 and a[3] == NEWS:
                p.set_field_to_simple_value(key, conc.new[NEWS][0])
            elif v == 2 and a[3] == BAD and "\n" in conc.new[BAD][0].strip() and (
                    i < 0 or p.get_kvpair_element(key, use_get=True) is not None):
                p.set_field_to_simple_value(key, conc.new[BAD][0])      # documented: ValueError (newline)
            else:
                # the raw-string setter takes the exact text after the colon; a lookup error of the
                # dict interface for an invalid (name, i) is raised by __setitem__'s own lookup
                if v == 3 and (i < 0 or p.get_kvpair_element(key, use_get=True) is not None or i == 0):
                    p.set_field_from_raw_string(key, conc.new[a[3]][1])
                else:
                    p[key] = conc.new[a[3]][0]
        elif op == "del":
            k = conc.key(rng, a[1])
            v = pick(3)
            if v == 0:
                del p[k]
            elif v == 1:
                p.pop(k)
            else:
                p.remove_kvpair_element(k)
        elif op == "first":
            p.order_first(conc.key(rng, a[1]))
        elif op == "last":
            p.order_last(conc.key(rng, a[1]))
        elif op == "before":
            p.order_before(conc.key(rng, a[1]), conc.key(rng, a[2]))
        elif op == "after":
            p.order_after(conc.key(rng, a[1]), conc.key(rng, a[2]))
        elif op == "sort":
            v = pick(3)
            if v == 0:
                p.sort_fields()
            elif v == 1:
                p.sort_fields(key=None)
            else:
                p.sort_fields(key=lambda x: x.lower())
        elif op == "sortby":
            kf = key_function(conc, a[1], pick(3))
            if pick(2):
                p.sort_fields(key=kf)
            else:
                p.sort_fields(kf)
        else:
            raise AssertionError(op)
        return "ok"
    except KeyError:
        return "KeyError"
    except ValueError:
        return "ValueError"
    except IndexError:
        return "IndexError"
    except Exception as ex:  # observation, not a harness failure
        return "EXC:" + type(ex).__name__


def outcome_matches(model_res, real):
    """model result vs observed outcome (error types in the unspecified zone are interchangeable)"""
    if model_res == "ok":
        return real == "ok"
    if model_res == "KeyError":
        return real == "KeyError"
    if model_res == "ValueError":
        return real == "ValueError"
    if model_res == "IndexError":            # index out of range: exception type unspecified
        return real in ("KeyError", "IndexError")
    if model_res == "KeyOrValueError":
        return real in ("KeyError", "ValueError")
    if model_res == "LookupOrValueError":    # rejected value AND unusable key: which error comes first is unspecified
        return real in ("KeyError", "IndexError", "ValueError")
    if model_res == "ValueErrorOrAccepted":  # insert of an owned paragraph in front of an existing one: refusal unspecified
        return real in ("ValueError", "ok")
    return None   # a value: compared by the caller


# structural calls whose refusal (model: error result, doc' = doc) is checked byte for byte (same_text) in the lts legs
EXACT_WHEN_REFUSED = ("appendo", "inserto", "first", "last", "before", "after")
REFUSALS = ("KeyError", "ValueError", "IndexError", "KeyOrValueError", "ValueErrorOrAccepted")


def same_text(f, before):
    """observation after a refused call: dump() and the token texts are byte-identical to the dump
    before the call - up to supplying a MISSING newline at the very end of the document (the one
    change the statement permits; order_before/after terminate the last line before they refuse)"""
    after = f.dump()
    if "".join(t.text for t in f.iter_tokens()) != after:
        return False
    return after == before or (not before.endswith("\n") and after == before + "\n")


def eq_mod_final_newline(exp, got):
    return exp == got or exp + "\n" == got or exp == got + "\n"


def structure(f):
    """paragraphs of the real file as lists of (field name, kvpair text)"""
    out = []
    for p in f:
        out.append([(kv.field_name, kv.convert_to_text()) for kv in p.iter_parts()])
    return out


def check_state(f, model_doc, conc, deep=True):
    """verdict observables after a step.  Returns None or a message."""
    exp = conc.doc_text(model_doc)
    got = f.dump()
    if deep:
        import io
        buf = io.BytesIO()
        f.dump(buf)
        if buf.getvalue().decode("utf-8") != got:
            return "dump(fd) writes %r but dump() returns %r" % (buf.getvalue().decode("utf-8", "replace"), got)
        if f.convert_to_text() != got:
            return "convert_to_text() gives %r but dump() returns %r" % (f.convert_to_text(), got)
    mparas = [part for part in model_doc if part["t"] == "p"]
    if not eq_mod_final_newline(exp, got):
        # fall back to what the statement promises: same paragraphs, same fields in the same
        # order with byte-identical field text, all separator texts still present in order
        # (the side of a free comment on which insert() places a paragraph is unspecified;
        #  the exact formatting of a newly written value is not part of the statement)
        weak = weak_check(got, mparas, model_doc, conc)
        if weak:
            return "dump() is %r; the model gives %r (%s)" % (got, exp, weak)
        return ("DRIFT", "dump differs from the model text only in unspecified layout: %r vs %r" % (got, exp))
    if not deep:
        return None
    rparas = list(f)
    if len(rparas) != len(mparas):
        return "document has %d paragraphs, model %d" % (len(rparas), len(mparas))
    for pi, (rp, mp) in enumerate(zip(rparas, mparas)):
        keys = list(rp.keys())
        expk = [spelled(conc.base[x["n"]], x["s"]) for x in mp["fs"]]
        if [str(k) for k in keys] != expk:
            return "paragraph %d iterates keys %r, model %r" % (pi + 1, keys, expk)
        if len(rp) != len(expk):
            return "len(paragraph %d) = %d, model %d" % (pi + 1, len(rp), len(expk))
        seen = {}
        for x in mp["fs"]:
            i = seen.get(x["n"], 0)
            seen[x["n"]] = i + 1
            name = conc.base[x["n"]]
            if not mp["dup"] and i > 0:
                return "model bug: duplicate in nodup paragraph"
            for variant in (name, name.lower(), name.upper()):
                try:
                    v = rp[(variant, i)]
                except Exception as ex:
                    return "paragraph %d: (%r, %d) raised %s, model has that occurrence" % (pi + 1, variant, i, type(ex).__name__)
                if v != conc.readback(x["v"]):
                    return "paragraph %d: (%r, %d) reads %r, model says %r" % (pi + 1, variant, i, v, conc.readback(x["v"]))
                if i == 0:
                    try:
                        v0 = rp[variant]
                        # ("name" in paragraph) raises AmbiguousDeb822FieldKeyError for a duplicated
                        # field; membership of duplicated names is not part of the statement
                        ok = True if sum(1 for y in mp["fs"] if y["n"] == x["n"]) > 1 else (variant in rp)
                    except Exception as ex:
                        return "paragraph %d: [%r] raised %s" % (pi + 1, variant, type(ex).__name__)
                    if v0 != v or not ok:
                        return "paragraph %d: [%r] reads %r, first occurrence is %r" % (pi + 1, variant, v0, v)
        for n, name in conc.base.items():
            if n not in seen and (name in rp or name.lower() in rp):
                return "paragraph %d: %r reported present, model says absent" % (pi + 1, name)
    # a fresh parse of the dump shows the same paragraphs and byte-identical fields
    msg = weak_check(got, mparas, model_doc, conc)
    if msg:
        return "re-parsing dump() %r: %s" % (got, msg)
    return None


def weak_check(text, mparas, model_doc, conc):
    try:
        f2 = parse(text)
    except Exception as ex:
        return "dump does not re-parse: %s" % type(ex).__name__
    if f2.find_first_error_element() is not None:
        return "re-parsed dump contains an error element"
    st = structure(f2)
    if len(st) != len(mparas):
        return "re-parse has %d paragraphs, model %d" % (len(st), len(mparas))
    for pi, (rp, mp) in enumerate(zip(st, mparas)):
        if len(rp) != len(mp["fs"]):
            return "re-parsed paragraph %d has fields %r, model %r" % (pi + 1, [k for k, _ in rp], [x["n"] for x in mp["fs"]])
        for (k, t), x in zip(rp, mp["fs"]):
            et = conc.inst_text(x)
            if x["v"] in conc.new:
                # newly written value: name, kept comment and read-back value must be right
                if k != spelled(conc.base[x["n"]], x["s"]) or not t.startswith(conc.cmt[x["c"]]):
                    return "re-parsed paragraph %d: field %r text %r, model %r" % (pi + 1, k, t, et)
            elif not eq_mod_final_newline(et, t):
                return "re-parsed paragraph %d: field %r has text %r, model %r" % (pi + 1, k, t, et)
    pos = 0
    for part in model_doc:
        if part["t"] == "s" and part["id"] != NEWSEP:
            s = conc.sep[part["id"]].strip("\n") if conc.sep[part["id"]].strip() else ""
            if s:
                j = text.find(s, pos)
                if j < 0:
                    return "separator text %r lost or reordered" % s
                pos = j + len(s)
    # values read back through the fresh parse
    for rp, mp in zip(list(f2), mparas):
        seen = {}
        for x in mp["fs"]:
            i = seen.get(x["n"], 0)
            seen[x["n"]] = i + 1
            try:
                v = rp[(conc.base[x["n"]].lower(), i)]
            except Exception as ex:
                return "re-parse: (%r, %d) raised %s" % (conc.base[x["n"]], i, type(ex).__name__)
            if v != conc.readback(x["v"]):
                return "re-parse: (%r, %d) reads %r, model %r" % (conc.base[x["n"]], i, v, conc.readback(x["v"]))
    return None


def run_path(start_doc, path, conc, rng, deep_every=1, drifts=None, info=None):
    """replay one model behaviour from a start document; None or a message"""
    text = conc.start_text(start_doc)
    if start_doc:
        f = parse(text, rng, info)
    else:
        from debian._deb822_repro.parsing import Deb822FileElement
        f = Deb822FileElement.new_empty_file()
    m = check_state(f, start_doc, conc)
    if isinstance(m, str):
        return "step 0 (parse of %r): %s" % (text, m)
    for i, e in enumerate(path):
        # the model REFUSES this structural call (error result, document unchanged): byte-identical dump
        refused = e["op"] in EXACT_WHEN_REFUSED and e["res"] in REFUSALS
        before = f.dump() if refused else None
        real = apply_edge(f, e, conc, rng)
        where = "step %d %s%s" % (i + 1, e["op"], json.dumps(e["args"]))
        if e["res"] == "ValueErrorOrAccepted" and real == "ok":
            # unspecified zone: the call was accepted, the document is outside the model from here on
            if drifts is not None:
                drifts.append("%s: insert() accepted a paragraph that already belongs to a file (unspecified; history ends)" % where)
            return None
        if refused and real != "ok" and not isinstance(real, tuple):
            after = f.dump()
            if not same_text(f, before):
                return "%s: the call was refused (%s), yet the document changed: dump() was %r, is now %r" % (
                    where, real, before, after)
        ok = outcome_matches(e["res"], real if not isinstance(real, tuple) else "VAL")
        if ok is None:
            # model result is a value blob id
            if not isinstance(real, tuple):
                return "%s: outcome %s, model returns value blob %s" % (where, real, e["res"])
            if real[1] != conc.readback(int(e["res"])):
                return "%s: returned %r, model says %r" % (where, real[1], conc.readback(int(e["res"])))
        elif not ok:
            return "%s: outcome %r, model says %r" % (where, real, e["res"])
        m = check_state(f, e["to"], conc, deep=(deep_every and (i % deep_every == 0 or i == len(path) - 1)))
        if isinstance(m, tuple):
            if drifts is not None:
                drifts.append("%s: %s" % (where, m[1]))
        elif m:
            return "%s: %s" % (where, m)
    return None


# ------------------------------------------------------------------ projection for trace validation

def project(f, conc, rank, nl=False):
    """real document -> model form (ids looked up by text); unknown text gets id 999;
    nl: also report for every field whether its text ends in a newline (attribute nl of ReproDoc)"""
    vt = {}
    for vid, (t, _) in conc.val.items():
        vt[t] = vid
        vt[t.rstrip("\n")] = vid
    def norm(t):      # a value text up to the blanks around its first line (= the value as read back)
        first, nlc, rest = t.partition("\n")
        return first.strip() + nlc + rest
    vn = {}           # the exact formatting of a newly written value is not part of the statements
    for vid, (_, t, _) in conc.new.items():
        if vid != BAD:
            vt[t] = vid
            vn[norm(t)] = vid
    ct = {t: cid for cid, t in conc.cmt.items()}
    st = {t: sid for sid, t in conc.sep.items()}
    doc = []
    pending = ""

    def flush(pending):
        if not pending:
            return
        ids = [st.get(pending)]
        if ids[0] is None and pending.startswith("\n") and pending[1:] in st:
            ids = [NEWSEP, st[pending[1:]]]          # newline token of insert() in front of a separator
        elif ids[0] is None and pending.endswith("\n") and pending[:-1] in st:
            ids = [st[pending[:-1]], NEWSEP]
        for i in ids:
            doc.append({"t": "s", "dup": False, "fs": [], "id": 999 if i is None else i})

    for part in f.iter_parts():
        if hasattr(part, "kvpair_count"):
            flush(pending)
            pending = ""
            fs = []
            for kv in part.iter_parts():
                name = str(kv.field_name)
                n = rank.get(name.lower(), 0)
                base = conc.base.get(n, "")
                s = "U" if name == base else ("L" if name == base.lower() else "?")
                c = kv.comment_element.convert_to_text() if kv.comment_element is not None else ""
                vtext = kv.value_element.convert_to_text()
                vid = vt.get(vtext)
                if vid is None:
                    vid = vn.get(norm(vtext), 999)
                fs.append({"n": n, "s": s, "v": vid, "c": ct.get(c, 999)})
                if nl:
                    fs[-1]["nl"] = kv.convert_to_text().endswith("\n")
            doc.append({"t": "p", "dup": type(part).__name__ == "Deb822DuplicateFieldsParagraphElement", "fs": fs, "id": 0})
        else:
            pending += part.convert_to_text()
    flush(pending)
    return doc


# ------------------------------------------------------------------ recording histories (code -> spec)

def random_start_doc(rng, nnames=5, nl=False):
    """a random document in model form: 1..3 paragraphs, duplicates in some, comments, separators;
    nl: every field carries the attribute nl, and a document that ends in a paragraph has (2 of 3)
    no final newline: nl = False on its very last field"""
    doc = []
    vid = [0]
    sid = [0]

    def sep():
        sid[0] += 1
        return {"t": "s", "dup": False, "fs": [], "id": sid[0]}

    if rng.random() < 0.3:
        doc.append(sep())
    big = nnames > 12
    npar = rng.randint(1, 3) if not big else rng.choice([1, 2, 9, 10, 11])
    for pi in range(npar):
        dup = rng.random() < 0.5
        k = rng.randint(2 if dup else 1, 4) if not big else rng.choice([9, 10, 11, 16, 17, 25])
        if not dup:
            k = min(k, nnames)
        if dup:
            names = [rng.randint(1, nnames if not big else 4) for _ in range(k)]   # big: ~k/4 occurrences per name
            if len(set(names)) == len(names):
                names[-1] = names[0]
        else:
            names = rng.sample(range(1, nnames + 1), k)
        fs = []
        for n in names:
            vid[0] += 1
            if vid[0] == 100:       # 100..199 are the model's blobs of separators / written / rejected values
                vid[0] = 200
            fs.append({"n": n, "s": rng.choice("UL"), "v": vid[0], "c": vid[0] if rng.random() < 0.35 else 0})
        doc.append({"t": "p", "dup": dup, "fs": fs, "id": 0})
        if pi < npar - 1 or rng.random() < 0.3:
            doc.append(sep())
    if nl:
        for part in doc:
            for x in part["fs"]:
                x["nl"] = True
        if doc[-1]["t"] == "p" and rng.random() < 0.67:
            doc[-1]["fs"][-1]["nl"] = False
    return doc


def record_trace(rng, nops, ops, nnames=5, nl=False, vals=(NEWS, NEWM)):
    """nl: the document tracks the final newline of every field (C05); vals: value blobs offered to
    assignments (BAD = a value the setters reject)"""
    start = random_start_doc(rng, nnames, nl)
    if nnames > 12:
        nops = nops * 4
    conc = Conc(rng, start, names=tuple(range(1, nnames + 1)), unique_seps=True)
    rank = {b.lower(): n for n, b in conc.base.items()}
    info = {"aligned": conc.aligned}
    f = parse(conc.start_text(start), rng, info)
    init = project(f, conc, rank, nl)
    open_end = nl and start[-1]["t"] == "p" and not start[-1]["fs"][-1]["nl"]
    events = []
    rb = {}
    for vid in list(conc.val) + list(conc.new):
        rb[conc.readback(vid)] = str(vid)
    # size stress: a big document ends with one sort_fields per paragraph (thresholds in the sort)
    forced = list(range(1, 12)) if nnames > 12 and "sort" in ops else []
    for step in range(nops + len(forced)):
        op = rng.choice(ops)
        paras = list(f)
        p = rng.randint(1, max(1, len(paras)))
        if step >= nops:
            if forced[step - nops] > len(paras):
                break
            op, p = "sort", forced[step - nops]
        if open_end and rng.random() < 0.5:
            p = len(paras)      # histories of adds and deletes on the paragraph whose last field has no newline
        n, r = rng.randint(1, nnames), rng.randint(1, nnames)
        par = paras[p - 1] if paras else None
        present = [rank[str(k).lower()] for k in par.keys()] if par is not None else []
        if present and rng.random() < 0.75:
            n = rng.choice(present)
        if open_end and p == len(paras) and op == "set" and rng.random() < 0.5:
            n = rng.randint(1, nnames)      # ... more adds than the 1 in 4 of the ordinary histories
        if present and rng.random() < 0.75:
            r = rng.choice(present)
        cnt = present.count(n)
        i = rng.choice([-1, -1, 0, 0, 1, cnt - 1 if cnt else 0, cnt, rng.randint(0, max(0, cnt - 1))])
        ri = rng.choice([-1, -1, 0, present.count(r) - 1 if r in present else 0])
        if i < -1:
            i = -1
        e = {"op": op, "p": p, "k": [n, i], "r": [r, ri], "s": rng.choice("UL"),
             "v": rng.choice(list(vals)), "idx": rng.randint(0, len(paras) + 1), "n": n}
        if op == "sortby":
            e["kt"] = random_key_table(rng, nnames, present)
        if op == "del":
            # never empty a paragraph (outside the property's domain)
            hit = cnt if i == -1 else (1 if 0 <= i < cnt else 0)
            if hit and hit >= len(present):
                continue
        if op in ("insert", "append") and len(paras) >= 5:
            continue
        if op in ("inserto", "appendo"):
            # refused calls: the paragraph already belongs to another file (0) or is paragraph w of this one
            e["w"] = rng.choice([0, 0, len(paras)] + list(range(1, len(paras) + 1)))
            if op == "inserto" and (rng.random() < 0.4 or not events):     # (a recorded history has at least one event)
                e["idx"] = len(paras) + rng.randrange(2)      # more of the calls that degenerate into append
        edge = {"op": op, "args": {"get": [p, [n, i]], "set": [p, [n, i], e["s"], e["v"]], "del": [p, [n, i]],
                                   "first": [p, [n, i]], "last": [p, [n, i]], "before": [p, [n, i], [r, ri]],
                                   "after": [p, [n, i], [r, ri]], "sort": [p], "sortby": [p, e.get("kt")],
                                   "insert": [e["idx"], n], "append": [n],
                                   "inserto": [e["idx"], e.get("w")], "appendo": [e.get("w")]}[op]}
        before = f.dump() if op in EXACT_WHEN_REFUSED else None
        real = apply_edge(f, edge, conc, rng)
        if isinstance(real, tuple):
            real = rb.get(real[1], "unknown-value:%r" % (real[1],))
        if op == "inserto" and real == "ok":
            break       # unspecified zone (ReproDoc.InsertOwned, anchored): accepted -> not recorded, the history ends
        if before is not None:
            # observation for the trace module: does dump() return exactly the text it returned before the call?
            e["same"] = same_text(f, before)
        e["res"] = real
        e["obs"] = project(f, conc, rank, nl)
        events.append(e)
    return {"init": init, "events": events, "start_text": conc.start_text(start), "conc": conc.to_json(),
            "start_model": start, "input": info}


def random_key_table(rng, nnames, present):
    """key table of a sort key function (kt[n - 1] = key of the name of rank n): mostly WITH ties"""
    mode = rng.randrange(7)
    m = rng.choice(present) if present else rng.randint(1, nnames)
    if mode == 0:
        return [0 if n == m else 1 for n in range(1, nnames + 1)]          # "m first, leave the rest alone"
    if mode == 1:
        return [1 if n == m else 0 for n in range(1, nnames + 1)]          # "m last"
    if mode == 2:
        return [nnames - n for n in range(1, nnames + 1)]                  # reversed names, no ties
    if mode == 3:
        return [n // 2 for n in range(1, nnames + 1)]                      # buckets in name order
    if mode == 4:
        return [7] * nnames                                                # everything ties
    levels = rng.choice([2, 2, 3, 4])
    return [rng.randrange(levels) for _ in range(nnames)]


def corrupt_trace(t, how):
    import copy
    t = copy.deepcopy(t)
    for e in t["events"]:
        paras = [x for x in e["obs"] if x["t"] == "p"]
        if how == "swap" and e["res"] == "ok" and e["op"] in ("first", "last", "before", "after", "sort", "set"):
            for p in paras:
                if len(p["fs"]) >= 2 and p["fs"][0] != p["fs"][1]:
                    p["fs"][0], p["fs"][1] = p["fs"][1], p["fs"][0]
                    return t
        if how == "tie" and e["op"] == "sortby" and e["res"] == "ok" and e["p"] <= len(paras):
            # two neighbours with EQUAL keys exchanged: still sorted, but not the stable sort
            fs, kt = paras[e["p"] - 1]["fs"], e["kt"]
            for j in range(len(fs) - 1):
                if fs[j] != fs[j + 1] and 1 <= fs[j]["n"] <= len(kt) and 1 <= fs[j + 1]["n"] <= len(kt) \
                        and kt[fs[j]["n"] - 1] == kt[fs[j + 1]["n"] - 1]:
                    fs[j], fs[j + 1] = fs[j + 1], fs[j]
                    return t
        if how == "res" and e["res"] == "KeyError":
            e["res"] = "ok"
            return t
        if how == "comment" and e["op"] == "set" and e["res"] == "ok":
            for p in paras:
                for x in p["fs"]:
                    if x["c"]:
                        x["c"] = 0
                        return t
        if how == "glue" and e["res"] == "ok" and e["op"] in ("set", "del"):
            # a field that is followed by another one loses its final newline (two fields on one line)
            for p in paras:
                if len(p["fs"]) >= 2 and p["fs"][0].get("nl"):
                    p["fs"][0]["nl"] = False
                    return t
        if how == "badset" and e["op"] == "set" and e["res"] == "ValueError":
            # a rejected assignment that detaches a comment all the same
            for p in paras:
                for x in p["fs"]:
                    if x["c"]:
                        x["c"] = 0
                        return t
        if how == "owned" and e["op"] in ("appendo", "inserto") and e["res"] == "ValueError" and e["obs"][-1]["t"] == "p":
            # a refused append that left its separating newline behind the last paragraph
            e["obs"].append({"t": "s", "dup": False, "fs": [], "id": NEWSEP})
            return t
        if how == "owned-nl" and e["op"] in ("appendo", "inserto") and e["res"] == "ValueError" and e.get("same"):
            # a refused call after which dump() differs (e.g. the last line was terminated), same fields
            e["same"] = False
            return t
        if how == "merge" and e["op"] in ("append", "insert") and e["res"] == "ok":
            obs = e["obs"]
            for j in range(len(obs) - 1):
                if obs[j]["t"] == "s" and obs[j]["id"] == NEWSEP:
                    del obs[j]
                    return t
    return None


def validate(ctx, traces, with_controls=True):
    import core
    controls = []
    if with_controls:
        for how in ("swap", "res", "comment", "merge", "tie", "glue", "badset", "owned", "owned-nl"):
            for t in traces:
                c = corrupt_trace(t, how)
                if c:
                    controls.append(c)
                    break
    slim = [{"init": t["init"], "events": t["events"]} for t in traces]
    cslim = [{"init": t["init"], "events": t["events"]} for t in controls]
    acc, _, _ = core.validate_traces(ctx, "TraceReproDoc", "TraceReproDoc.cfg", slim,
                                     extra_env={"TRACE_DIAG": "0"}, controls=cslim)
    rejected = [i for i in range(1, len(traces) + 1) if i not in acc]
    info = {}
    if rejected:
        sub = [slim[i - 1] for i in rejected[:10]]
        _, prog, _ = core.validate_traces(ctx, "TraceReproDoc", "TraceReproDoc.cfg", sub,
                                          extra_env={"TRACE_DIAG": "1"})
        for j, i in enumerate(rejected[:10]):
            info[i] = prog.get(j + 1, 0)
    return rejected, info


def trace_leg(ctx, ntraces, nops, ops, nl=False, vals=(NEWS, NEWM)):
    import core
    global WORKDIR
    WORKDIR = ctx.work
    traces = []
    nbig = max(2, ntraces // 60)          # size stress: a few big documents (30 names, 10+ duplicates, 10 paragraphs)
    for ti in range(ntraces + nbig):
        state = ctx.rng.getstate()
        try:
            traces.append(record_trace(ctx.rng, nops, ops, nnames=5 if ti < ntraces else 30, nl=nl, vals=vals))
        except Exception as ex:
            if not core.raised_by_code_under_test(ex):
                raise
            import traceback
            if len(ctx.violations) < 3:
                ctx.violation({"kind": "record-crash", "rng_state": repr(state)[:200], "nops": nops, "ops": ops},
                              "unexpected %s from the library while recording a history: %s"
                              % (type(ex).__name__, traceback.format_exc().strip().splitlines()[-3:]))
    if not traces:
        return
    for t in traces:
        note_input_form(ctx, t.get("input") or {})
    rejected, info = validate(ctx, traces)
    ctx.traces += len(traces)
    ctx.evaluations += len(traces)
    for i in range(len(traces)):
        ctx.distinct.add(("trace", i))
    t0 = traces[0]
    ctx.sample("recorded history on %r: %s" % (t0["start_text"], json.dumps(
        [{k: e[k] for k in ("op", "p", "k", "res")} for e in t0["events"][:5]], separators=(",", ":"))))
    for i in rejected[:3]:
        t = traces[i - 1]
        at = info.get(i, 0)
        ev = t["events"][at] if at < len(t["events"]) else None
        before = t["events"][at - 1]["obs"] if at > 0 else t["init"]
        ctx.violation({"kind": "trace", "trace": t, "first_unexplained_event": at + 1},
                      "recorded history not explained by ReproDoc: document %r, event %d %s -> outcome %r, "
                      "state before %s, state after %s"
                      % (t["start_text"], at + 1, json.dumps({k: ev[k] for k in ("op", "p", "k", "r", "s", "v", "idx", "n", "kt", "w", "same") if k in ev}) if ev else None,
                         ev and ev["res"], json.dumps(before, separators=(",", ":")), json.dumps(ev and ev["obs"], separators=(",", ":"))))
    ctx.extra["traces_recorded"] = ctx.extra.get("traces_recorded", 0) + len(traces)
    ctx.extra["traces_rejected"] = ctx.extra.get("traces_rejected", 0) + len(rejected)


def replay_trace_case(ctx, case):
    """re-execute the recorded calls on the current tree and validate the new history"""
    t = case["trace"]
    conc = Conc.from_json(t["conc"])
    rank = {b.lower(): n for n, b in conc.base.items()}
    f = parse(t["start_text"])
    nl = tracks_nl(t["init"])
    rb = {conc.readback(v): str(v) for v in list(conc.val) + list(conc.new)}
    import random
    rng = random.Random(0)
    events = []
    for e in t["events"]:
        p, (n, i), (r, ri) = e["p"], e["k"], e["r"]
        edge = {"op": e["op"], "args": {"get": [p, [n, i]], "set": [p, [n, i], e["s"], e["v"]], "del": [p, [n, i]],
                                        "first": [p, [n, i]], "last": [p, [n, i]], "before": [p, [n, i], [r, ri]],
                                        "after": [p, [n, i], [r, ri]], "sort": [p], "sortby": [p, e.get("kt")],
                                        "insert": [e["idx"], e["n"]], "append": [e["n"]],
                                        "inserto": [e["idx"], e.get("w")], "appendo": [e.get("w")]}[e["op"]]}
        before = f.dump() if "same" in e else None
        real = apply_edge(f, edge, conc, rng)
        if isinstance(real, tuple):
            real = rb.get(real[1], "unknown-value:%r" % (real[1],))
        if e["op"] == "inserto" and real == "ok":
            break
        events.append(dict(e, res=real, obs=project(f, conc, rank, nl)))
        if before is not None:
            events[-1]["same"] = same_text(f, before)
    new = {"init": project(parse(t["start_text"]), conc, rank, nl), "events": events}
    rejected, info = validate(ctx, [new], with_controls=False)
    if rejected:
        return "history still not explained by the specification at event %d" % (info.get(1, 0) + 1)
    return None


# ------------------------------------------------------------------ spec -> code leg

def _task(t):
    """one replay task, executed in a worker process"""
    import random
    init, path, names, seed, canonical, deep_every = t
    rng = random.Random(seed)
    conc = Conc(rng, init, names=names, canonical=canonical)
    drifts = []
    info = {"aligned": conc.aligned}
    try:
        msg = run_path(init, path, conc, rng, deep_every=deep_every, drifts=drifts, info=info)
    except Exception as ex:
        import core
        import traceback
        if not core.raised_by_code_under_test(ex):
            raise
        msg = "unexpected %s from the library while observing the document: %s" % (
            type(ex).__name__, traceback.format_exc().strip().splitlines()[-3:])
    return msg, drifts, (conc.to_json() if msg else None), info


def note_input_form(ctx, info):
    """evidence: which kinds of input object and which block alignments were exercised"""
    kinds = ctx.extra.setdefault("file_object_kinds", {})
    if info.get("form"):
        kinds[info["form"]] = kinds.get(info["form"], 0) + 1
    al = info.get("aligned")
    if al:
        cases = ctx.extra.setdefault("aligned_cases", {"total": 0, "offset": {}, "delta": {}, "unit": {}, "line_end": {},
                                                       "input": {}})
        cases["total"] += 1
        for dim, k in (("offset", al["offset"][:-2]), ("delta", al["offset"][-2:]), ("unit", al["unit"]),
                       ("line_end", al["line_end"]), ("input", info.get("form", "?"))):
            cases[dim][k] = cases[dim].get(k, 0) + 1


def _emit(ctx, cfg, fast):
    """TLC run of one closed configuration with EDGE emission.  fast: core's character-by-character
    reader of printed values dominates the quick tier (0.5 ms per EDGE line, serialized by the GIL over
    the parallel runs), so the EDGE lines are read from TLC's raw output here - same unescaping rules
    (backslash + n / t / any other character), by regular expression."""
    if not fast:
        return ctx.tlc_must_hold("MC_ReproDoc", cfg, workers=1, want_tags={"EDGE"})
    import os
    import re
    import shutil
    r = ctx.tlc_must_hold("MC_ReproDoc", cfg, workers=1, want_tags=set(), keep_raw=True)
    esc = re.compile(r"\\(.)")
    sub = lambda m: {"n": "\n", "t": "\t"}.get(m.group(1), m.group(1))
    edges = []
    head, tail = '<<"EDGE", "', '">>'
    with open(r.raw_path, errors="replace") as f:
        for line in f:
            if line.startswith(head):
                line = line.rstrip("\n")
                if line.endswith(tail):
                    edges.append(json.loads(esc.sub(sub, line[len(head):-len(tail)])))
    shutil.rmtree(os.path.dirname(r.raw_path), ignore_errors=True)
    r.printed["EDGE"] = edges
    return r


def lts_legs(ctx, legs, also=(), prefer=None, fast=False):
    """legs: list of (cfg, names, edge_budget, nwalks, wlen, nconc); also: callables (further TLC
    runs of the caller, e.g. design-level configurations) executed alongside the emission runs;
    prefer(edge, depth of its source state): edges replayed first when the budget does not allow all
    (default: all edges leaving states at depth <= 1); fast: see _emit.  Model-checks every closed
    configuration of ReproDoc (invariants must hold; the runs go in parallel), takes the complete
    LTS of each and replays edges (all, or a seeded sample within the budget) and random walks
    into the real parser (process pool)."""
    import core
    from concurrent.futures import ThreadPoolExecutor
    from multiprocessing import get_context
    from lts import LTS, skey, strip
    rng = ctx.rng
    with ThreadPoolExecutor(max_workers=len(legs) + len(also)) as ex:
        futs = [ex.submit(_emit, ctx, leg[0], fast) for leg in legs]
        extra = [ex.submit(fn) for fn in also]
        results = [f.result() for f in futs]
        for f in extra:
            f.result()
    stats = ctx.extra.setdefault("lts", {})
    per = ctx.extra.setdefault("edges_per_action", {})
    tasks = []
    meta = []
    for (cfg, names, edge_budget, nwalks, wlen, nconc), r in zip(legs, results):
        edges = r.printed["EDGE"]
        g0 = LTS(edges, edges[0]["from"]) if fast else None      # fast: state keys are computed once per edge
        if g0 is not None:
            tos = set(e["_t"] for e in g0.edges if e["_t"] != e["_f"])
        else:
            tos = set(skey(e["to"]) for e in edges if skey(e["to"]) != skey(e["from"]))
        inits, seen = [], set()
        for e in (edges if g0 is None else g0.edges):      # start documents = states without an incoming edge from another state
            k = skey(e["from"]) if g0 is None else e["_f"]
            if k not in tos and k not in seen:
                seen.add(k)
                inits.append(e["from"])
        if not inits:
            inits = [edges[0]["from"]]
        total_edges = 0
        for init in inits:
            g = g0 if g0 is not None and len(inits) == 1 and skey(init) == g0.init else LTS(edges, init)
            paths = g.paths()
            reach = [e for e in g.edges if e["_f"] in paths]
            total_edges += len(reach)
            chosen = reach
            budget = max(1, edge_budget // len(inits))
            if len(reach) > budget:
                pref = prefer or (lambda e, depth: depth <= 1)
                near = [e for e in reach if pref(e, len(paths[e["_f"]]))]
                rest = [e for e in reach if not pref(e, len(paths[e["_f"]]))]
                chosen = near[:budget] + rng.sample(rest, max(0, min(len(rest), budget - len(near))))
            for e in chosen:
                path = paths[e["_f"]] + [e]
                for c in range(nconc):
                    tasks.append((init, [strip(x) for x in path], names, rng.getrandbits(40),
                                  c == 0 and rng.random() < 0.5, 0 if len(path) > 1 else 1))
                    meta.append((("edge", cfg, e["_f"], e["op"], skey(e["args"])),
                                 e["from"] != e["to"] or e["res"] != "ok"))
            for w in range(max(1, nwalks // len(inits))):
                path = g.walk(rng, g.init, wlen, weight=lambda x: 4 if x["from"] != x["to"] else (0.3 if x["res"] == "ValueErrorOrAccepted" else 1))
                tasks.append((init, [strip(x) for x in path], names, rng.getrandbits(40), False, 5))
                meta.append((("walk", cfg, w, skey(init)), True))
            if g.edges:
                e = g.edges[len(g.edges) // 3]
                ctx.sample("%s edge: %s" % (cfg, json.dumps(strip(e), separators=(",", ":"))[:500]))
        stats[cfg] = {"states": r.distinct, "edges": total_edges, "start_docs": len(inits)}
        for e in edges:
            per[e["op"]] = per.get(e["op"], 0) + 1
    nproc = min(core.NCPU, 12)
    global WORKDIR
    WORKDIR = ctx.work          # inherited by the forked workers: real files of parse() live there
    with get_context("fork").Pool(nproc) as pool:
        out = pool.map(_task, tasks, chunksize=64)
    for t, (key, nontrivial), (msg, drifts, cj, info) in zip(tasks, meta, out):
        note_input_form(ctx, info)
        ctx.case_seen(key, nontrivial)
        for d in drifts:
            ctx.drift(d)
        if msg and len(ctx.violations) < 4:
            ctx.violation({"kind": "path", "start": t[0], "path": t[1], "conc": cj}, msg)
    ctx.traces += len(tasks)
    ctx.extra["behaviours_replayed"] = ctx.extra.get("behaviours_replayed", 0) + len(tasks)


def replay_path_case(case):
    import random
    conc = Conc.from_json(case["conc"])
    return run_path(case["start"], case["path"], conc, random.Random(0), deep_every=1)
