"""X17 helpers, formatter leg: concretization of the token streams of spec/StockFormat.tla, driving
debian._deb822_repro.formatter (format_field, one_value_per_line_trailing_separator, FormatterContentToken) and the
list views' reformat_when_finished(), lexing real output back into the pieces of the specification (traces).

Expected texts are built from the PIECES TLC printed (CASE lines) or are decided by TLC (TraceStockFormat)."""
import random

from comment_x17 import BOUNDARY, heavy_len, tail_char, lines_keepends, clip, from_repo

WORDS = ["foo", "libbar-dev", "amd64", "${misc:Depends}", "a", "x1", "(>=", "1.0)", "kfreebsd-any", "b|c", "[linux-any]", "<!nocheck>"]
ODDW = ["café", "café", "Å", "Å", "ﬁ", "Ａ", "straße", "İ", "﻿bom", "z‍w", "so­ft", "\U0001f600", "\U0010ffff",
        "co:lon", "ha#sh", "a=b", "x\x7fy", "​zw"]
NAME_CHARS = "abcdefghijklmnopqrstuvwxyzABCDEFGHIJKLMNOPQRSTUVWXYZ0123456789-_.+"


def word(rng, stress, comma_ok):
    if stress == 0:
        w = rng.choice(WORDS)
    elif stress == 1:
        w = rng.choice(ODDW) + (tail_char(rng) if rng.random() < 0.5 else "")
        if rng.random() < 0.3:
            w = tail_char(rng) + w
    else:
        n = heavy_len(rng)
        w = "w" + "".join(rng.choice("abcxyz-.~+:()") for _ in range(min(n, 300) - 1)) + ("y" * max(0, n - 300))
    if comma_ok and rng.random() < 0.2:
        w = w + "," + rng.choice(["", "z"])
    return w


def name_of_len(rng, n):
    return rng.choice("ABCDEFGHXabcx") + "".join(rng.choice(NAME_CHARS) for _ in range(n - 1))


class Stream(object):
    """real tokens for one abstract token stream.  tokens <<kind, flavour, id>>"""

    def __init__(self, inp, sep, rng, stress, nosplit=True):
        from debian._deb822_repro.formatter import FormatterContentToken as T
        self.inp, self.sep = inp, sep
        self.texts, self.toks = [], []
        comma_ok = sep in ("sp", "tab", "semi")
        for kind, fl, _ in inp:
            if kind == "V":
                w = word(rng, stress, comma_ok)
                if fl == "ww":
                    w = w.replace(",", "") + rng.choice([" ", "  ", " \t "] if stress else [" "]) + word(rng, stress, False)
                elif fl == "hw":
                    w = "#" + w
                elif fl == "lead":
                    w = rng.choice([" ", "\t", "\n", " "]) + w
                elif fl == "trail":
                    w = w + rng.choice([" ", "\t", "\n", "　"])
                if sep == "semi":
                    w = w.replace(";", "")
                self.texts.append(w)
                self.toks.append(T.value_token(w))
            elif kind == "C":
                body = " ".join(word(rng, stress, True) for _ in range(rng.choice([1, 2, 3])))
                if stress == 1 and not nosplit and rng.random() < 0.5:
                    body += rng.choice(["\x0b", "\x85", " ", "\r"]) + "tail"
                t = rng.choice(["# ", "#", "##", "#\t"]) + body + "\n"
                if fl == "nohash":
                    t = rng.choice(["x", " #", "\t#"]) + body + "\n"
                elif fl == "nonl":
                    t = "# " + body
                if stress == 2 and fl == "ok" and rng.random() < 0.3:
                    t = "#" + "c" * heavy_len(rng) + "\n"
                if fl == "ok" and rng.random() < 0.1:
                    t = "#\n"
                self.texts.append(t)
                self.toks.append(T.comment_token(t))
            else:
                t = rng.choice([" ", ",", "\n", "\t", "  ", ", ", ";"])
                self.texts.append(t)
                self.toks.append(T.separator_token(t))

    def sep_token(self, rng):
        from debian._deb822_repro import formatter as F
        T = F.FormatterContentToken
        if self.sep == "sp":
            return rng.choice([F.SPACE_SEPARATOR_FT, T.separator_token(" ")])
        if self.sep == "cm":
            return rng.choice([F.COMMA_SEPARATOR_FT, T.separator_token(",")])
        return T.separator_token("\t" if self.sep == "tab" else ";")

    def text_of(self, name, out, septext):
        """the exact text for the pieces `out` of the specification"""
        parts = [name, ":"]
        for y in out:
            if y[0] == "n":
                parts.append("\n")
            elif y[0] == "b":
                parts.append(" " * y[1])
            elif y[0] in ("V", "C"):
                parts.append(self.texts[y[1] - 1])
            else:
                parts.append(septext)
        return "".join(parts)


def call_format_field(name, sep_tok, toks, form, rng):
    """-> ("ok", text) | (exception class name, message)"""
    from debian._deb822_repro.formatter import format_field, one_value_per_line_trailing_separator as fmt
    arg = list(toks) if form == "list" else iter(list(toks)) if rng.random() < 0.5 else (t for t in list(toks))
    try:
        if rng.random() < 0.3:
            return "ok", format_field(formatter=fmt, field_name=name, separator_token=sep_tok, token_iter=arg)
        return "ok", format_field(fmt, name, sep_tok, arg)
    except Exception as ex:      # noqa: BLE001 -- an exception of the library is an observation
        if not from_repo(ex):
            raise
        return type(ex).__name__, str(ex)


def generator_text(name, sep_tok, toks):
    """the joined text of what the stock formatter itself yields (str pieces and tokens alike)"""
    from debian._deb822_repro.formatter import one_value_per_line_trailing_separator as fmt
    return "".join(str(y) for y in fmt(name, sep_tok, iter(list(toks))))


def lex_ws(s):
    out = []
    i = 0
    while i < len(s):
        if s[i] == "\n":
            out.append(["n"])
            i += 1
        elif s[i] == " ":
            j = i
            while j < len(s) and s[j] == " ":
                j += 1
            out.append(["b", j - i])
            i = j
        else:
            return [["?%r" % (s,)]]
    return out


def lex_output(text, name, septext, stream):
    """the returned text lexed back into pieces: the name and colon, then newlines, runs of spaces, the texts of the
    input tokens in their order (value and comment tokens each keep their own order), the separator text"""
    if not text.startswith(name + ":"):
        return [["?does not start with the field name"]]
    pos = len(name) + 1
    vq = [i for i, t in enumerate(stream.inp) if t[0] == "V"]
    cq = [i for i, t in enumerate(stream.inp) if t[0] == "C"]
    out = []
    n = len(text)
    while pos < n:
        ch = text[pos]
        at_line_start = text[pos - 1] == "\n"
        if cq and at_line_start and text.startswith(stream.texts[cq[0]], pos):
            out.append(["C", cq[0] + 1])
            pos += len(stream.texts[cq[0]])
            cq.pop(0)
        elif ch == "\n":
            out.append(["n"])
            pos += 1
        elif ch == " ":
            j = pos
            while j < n and text[j] == " ":
                j += 1
            out.append(["b", j - pos])
            pos = j
        elif vq and text.startswith(stream.texts[vq[0]], pos) and out and out[-1][0] == "b":
            out.append(["V", vq[0] + 1])
            pos += len(stream.texts[vq[0]])
            vq.pop(0)
        elif septext and text.startswith(septext, pos):
            out.append(["S"])
            pos += len(septext)
        else:
            return out + [["?cannot lex %r" % clip(text[pos:pos + 40], 60)]]
    return out


def classify_tokens(toks):
    """abstract a real token list (traces): <<kind, flavour, id>>"""
    out = []
    for i, t in enumerate(toks):
        s = t.text
        if t.is_value:
            fl = "lead" if s[:1].isspace() else "trail" if s[-1:].isspace() else "hw" if s.startswith("#") else \
                 "ww" if any(c.isspace() for c in s) else "w"
            out.append(["V", fl, i + 1])
        elif t.is_comment:
            out.append(["C", "nohash" if not s.startswith("#") else "nonl" if not s.endswith("\n") else "ok", i + 1])
        else:
            out.append(["S", "s", i + 1])
    return out


def reread(text, name, sep):
    """the formatted field read back by the REAL parser and list interpretation -> (values, comment lines)"""
    from debian._deb822_repro import parse_deb822_file, LIST_SPACE_SEPARATED_INTERPRETATION, LIST_COMMA_SEPARATED_INTERPRETATION
    f = parse_deb822_file(lines_keepends(text))
    paras = list(f)
    if len(paras) != 1 or list(paras[0].keys()) != [name]:
        return None, None
    kv = paras[0].get_kvpair_element(name)
    interp = LIST_SPACE_SEPARATED_INTERPRETATION if sep == "sp" else LIST_COMMA_SEPARATED_INTERPRETATION
    vals = list(kv.interpret_as(interp))
    comments = [ln for ln in lines_keepends(text)[1:] if ln.startswith("#")]
    if f.dump() != text:
        return None, None
    return vals, comments


def messy_field(name, stream, rng):
    """a syntactically valid field holding the value / comment tokens of the stream in order, in an arbitrary layout"""
    sep = stream.sep
    out = name + ":"
    first = True
    at_line_start = False
    pending_sep = False
    for (kind, _, _), txt in zip(stream.inp, stream.texts):
        if kind == "S":
            continue
        if kind == "C":
            if not at_line_start:
                if sep == "cm" and pending_sep and rng.random() < 0.7:
                    out += ","
                    pending_sep = False
                out += "\n"
            out += txt
            at_line_start = True
            continue
        lead = ""
        if sep == "cm" and pending_sep:
            lead = rng.choice([",", ", ", " ,"])
        if at_line_start:
            out += rng.choice([" ", "\t", "   "]) + lead.strip() + rng.choice(["", " "]) + txt
        elif first:
            out += rng.choice(["", " ", "  ", "\t"]) + txt
        else:
            r = rng.random()
            if r < 0.5:
                out += (lead if sep == "cm" else "") + rng.choice([" ", "  ", "\t"]) + txt
            else:
                out += (lead.strip() if sep == "cm" else "") + rng.choice(["", " "]) + "\n" + rng.choice([" ", "\t", "     "]) + txt
        first = False
        at_line_start = False
        pending_sep = True
    if sep == "cm" and rng.random() < 0.4:
        out += rng.choice([",", " ,", ", "])
    return out + rng.choice(["", " ", "\t"]) + "\n"


def through_view(name, stream, rng):
    """reformat through a list view -> the field's text afterwards, or (exception name, message)"""
    from debian._deb822_repro import parse_deb822_file, LIST_SPACE_SEPARATED_INTERPRETATION, LIST_COMMA_SEPARATED_INTERPRETATION
    from debian._deb822_repro.formatter import one_value_per_line_trailing_separator as fmt
    before = "Other: x\n"
    after = "Zlast: y\n"
    field = messy_field(name, stream, rng)
    f = parse_deb822_file(lines_keepends(before + field + after))
    para = next(iter(f))
    interp = LIST_SPACE_SEPARATED_INTERPRETATION if stream.sep == "sp" else LIST_COMMA_SEPARATED_INTERPRETATION
    how = rng.randrange(3)
    try:
        with para.as_interpreted_dict_view(interp)[name] as lst:
            if how == 0:
                lst.reformat_when_finished()
            elif how == 1:
                lst.value_formatter(fmt, force_reformat=True)
            else:
                lst.value_formatter(fmt, True)
    except Exception as ex:      # noqa: BLE001
        if not from_repo(ex):
            raise
        return (type(ex).__name__, str(ex)), field
    text = f.dump()
    if not (text.startswith(before) and text.endswith(after)):
        return ("outside", "the neighbours of the field changed: %r" % clip(text)), field
    return text[len(before):len(text) - len(after)], field


# ------------------------------------------------------------------ token constructors (TOK lines)

def token_case(how, tc, rng):
    """build the token the TOK line describes -> dict of observed properties, or {"e": exception name}"""
    from debian._deb822_repro import formatter as F
    from debian._deb822_repro import tokens as K
    from debian._deb822_repro.parsing import Deb822ParsedValueElement
    T = F.FormatterContentToken
    sep_txt = {"sp": " ", "cm": ",", "tab": "\t", "nl": "\n", "semi": ";"}
    try:
        if how == "value":
            txt = "foo" if tc == "w" else "#foo"
            t = T.value_token(txt)
        elif how == "comment":
            txt = "# c" + tail_char(rng) + "\n"
            t = T.comment_token(txt)
        elif how == "sep":
            txt = sep_txt[tc]
            t = T.separator_token(txt)
        else:
            if tc == "cmt":
                txt = "# from a token\n"
                src = K.Deb822CommentToken(txt)
            elif tc == "ws":
                txt = rng.choice([" ", "\n", "\t "])
                src = rng.choice([K.Deb822WhitespaceToken(txt), K.Deb822SpaceSeparatorToken(" ")]) if txt == " " else K.Deb822WhitespaceToken(txt)
            elif tc == "val":
                txt = rng.choice(["foo", "#foo", "a b"])
                src = K.Deb822ValueToken(txt)
            elif tc == "comma":
                txt = ","
                src = K.Deb822CommaToken()
            else:
                txt = "a"
                src = Deb822ParsedValueElement([K.Deb822ValueToken("a")])
            t = T.from_token_or_element(src)
    except Exception as ex:      # noqa: BLE001
        if not from_repo(ex):
            raise
        return {"e": type(ex).__name__}
    single = "SPACE" if t is F.SPACE_SEPARATOR_FT else "COMMA" if t is F.COMMA_SEPARATOR_FT else ""
    return {"e": "ok", "isv": t.is_value, "isc": t.is_comment, "iss": t.is_separator, "isw": t.is_whitespace, "single": single,
            "textok": t.text == txt and str(t) == txt and isinstance(repr(t), str)}


# ------------------------------------------------------------------ recorded calls (traces)

def record_fault(rng):
    """format_field with a token iterator that raises after k tokens, then the identical call with a sound iterator
    -> [(event, info), (event, info)]"""
    from comment_x17 import X17Fault
    from debian._deb822_repro.formatter import format_field, one_value_per_line_trailing_separator as fmt
    sep = rng.choice(["sp", "cm", "tab", "semi"])
    n = rng.choice([1, 2, 3, 5, 9])
    inp = [[k, "w" if k == "V" else "ok" if k == "C" else "s", i + 1] for i, k in enumerate(rng.choice("VVCS") for _ in range(n))]
    if inp[-1][0] != "V":
        inp.append(["V", "w", len(inp) + 1])
    stream = Stream(inp, sep, rng, rng.choice([0, 1]))
    name = name_of_len(rng, rng.choice([1, 4, 16, 73]))
    septok = stream.sep_token(rng)
    k = rng.randrange(len(stream.toks) + 1)

    def faulty():
        for i, t in enumerate(stream.toks):
            if i >= k:
                raise X17Fault("token %d cannot be read" % (i + 1))
            yield t
        raise X17Fault("the token iterator cannot be read to its end")
    try:
        text = format_field(fmt, name, septok, faulty())
        res = "ok"
    except X17Fault:
        res, text = "CallerError", ""
    except Exception as ex:      # noqa: BLE001
        if not from_repo(ex):
            raise
        res, text = type(ex).__name__, str(ex)
    inp2 = classify_tokens(stream.toks)
    first = ({"form": "fault", "sep": sep, "nl": len(name), "inp": inp2, "res": {"v": res, "out": []}}, dict(name=name, text=text, texts=stream.texts))
    res2, text2 = call_format_field(name, septok, stream.toks, "iter", rng)
    out = lex_output(text2, name, septok.text, stream) if res2 == "ok" else []
    second = ({"form": "iter", "sep": sep, "nl": len(name), "inp": inp2, "res": {"v": res2, "out": out}}, dict(name=name, text=text2, texts=stream.texts))
    return [first, second]


def record_call(rng, size):
    """one random call of format_field on the stock formatter -> trace event (+ description for messages)"""
    stress = rng.choice([0, 1, 1, 2])
    sep = rng.choice(["sp", "cm", "sp", "cm", "tab", "semi"])
    if size == "long":
        n = rng.choice([31, 32, 33, 99, 100, 101, 255, 256, 257] + ([1000] if rng.random() < 0.3 else []))
    else:
        n = rng.choice([1, 2, 3, 4, 5, 6, 9, 10, 11, 16, 17])
    kinds = []
    for i in range(n):
        r = rng.random()
        kinds.append("V" if r < 0.55 else "C" if r < 0.8 else "S")
    if rng.random() < 0.85 and "V" in kinds:           # mostly inside the domain: the last content token is a value
        while kinds and kinds[-1] == "C":
            kinds.pop()
        if not kinds:
            kinds = ["V"]
    inp = []
    for i, k in enumerate(kinds):
        if k == "V":
            fl = rng.choice(["w", "w", "w", "hw"] + (["ww"] if sep in ("cm", "semi") or rng.random() < 0.1 else []))
        elif k == "C":
            fl = "ok"
        else:
            fl = "s"
        inp.append([k, fl, i + 1])
    if rng.random() < 0.08 and inp:                    # invalid test data
        i = rng.randrange(len(inp))
        if inp[i][0] == "V":
            inp[i][1] = rng.choice(["lead", "trail"])
        elif inp[i][0] == "C":
            inp[i][1] = rng.choice(["nohash", "nonl"])
    stream = Stream(inp, sep, rng, stress if size != "long" else rng.choice([0, 1]), nosplit=False)
    nl = rng.choice([1, 2, 3, 7, 8, 9, 13, 15, 16, 17, 31, 32, 33])
    if rng.random() < 0.15:
        nl = rng.choice(BOUNDARY)
    name = name_of_len(rng, nl)
    septok = stream.sep_token(rng)
    form = rng.choice(["list", "iter"])
    inp2 = classify_tokens(stream.toks)
    res, text = call_format_field(name, septok, stream.toks, form, rng)
    if res == "ok":
        out = lex_output(text, name, septok.text, stream)
        again = call_format_field(name, septok, stream.toks, form, rng)
        if again != ("ok", text):
            out = [["?a second identical call answered differently"]]
        gen = generator_text(name, septok, stream.toks)
        if name + ":" + gen != text:
            out = [["?the formatter called directly yields another text: %s" % (clip(repr(gen), 200),)]]
    else:
        out = []
    ev = {"form": form, "sep": sep, "nl": nl, "inp": inp2, "res": {"v": res, "out": out}}
    return ev, dict(name=name, text=text, texts=stream.texts)
