"""X15: random histories on real debian._util objects, recorded for spec/TraceUtilCont.tla.

The recorder holds NO model: it chooses the next call from what it OBSERVES on the real objects (walks, links) so that
the call lies in the domain of the statement, performs it through util_x15.World.apply (all public variants), and
records the call, its result and the full observation.  TLC decides whether the history is one of the specification.
The only bookkeeping mirrors what a caller knows: which node an iteration yielded last (an iteration whose node was
taken out, or whose list was cleared, is never resumed).
"""
import random

import util_x15 as X

PROFILES = ["lists", "lists", "nodes", "iters", "sets", "sets2", "strs", "mixed", "copies"]


class TraceConc(X.ConcBase):
    """payloads of one history: value symbols v1.., items over a universe of texts with interned spellings"""

    def __init__(self, rng, stress, nvals=5):
        self.rng = rng
        self.stress = stress
        vals = X.value_pool(rng, stress, nvals)
        self.proto = {"v%d" % (i + 1): v for i, v in enumerate(vals)}
        self.keys = {X.vkey(v): s for s, v in self.proto.items()}
        self.itab, self.irev = {}, {}
        self.items_i, self.items_pl, self.items_p, self.items_u, self.items_obj = [], [], [], [], []
        texts = []
        for w in rng.sample(X.WORDS, rng.choice([2, 3, 4])):
            if stress == 2 and rng.random() < 0.5:
                w = X.stretch(rng, w)
            forms = {w, w.lower(), w.upper(), "".join(ch.upper() if i % 2 else ch.lower() for i, ch in enumerate(w)), w.title(), w.swapcase()}
            texts += rng.sample(sorted(forms), min(len(forms), rng.choice([2, 3, 4])))
        hz = rng.sample(X.HAZARD_GROUPS, rng.choice([1, 2, 3]))
        for g in hz:
            texts += g
        texts = sorted(set(texts) | {t.lower() for t in texts})       # lower() of every text is a text of the universe
        lowers = sorted({t.lower() for t in texts})
        rank = {lo: i + 1 for i, lo in enumerate(lowers)}
        spell = {}
        for t in texts:
            n = rank[t.lower()]
            s = "L" if t == t.lower() else spell.setdefault(t, "s%d" % (len(spell) + 1))
            self.add_item(n, s, "P", t)
            self.add_item(n, s, "I", X.U()._strI(t))
            self.items_i.append({"n": n, "s": s, "k": "I"})
            self.items_p.append({"n": n, "s": s, "k": "P"})
            if s == "L":
                self.items_pl.append({"n": n, "s": s, "k": "P"})
        self.hazard = [[{"n": rank[t.lower()], "s": "L" if t == t.lower() else spell[t], "k": k} for t in g for k in "IP"] for g in hz]
        others = [0, 1, -1, 2 ** 31, 2 ** 63, 10 ** 18, (1, 2), ("a",), (), b"", b"ab", "ab".encode("utf-16"), frozenset([1]), 1.5, None,
                  ("Foo", 1), b"Foo", frozenset(["Foo"])]
        for j, o in enumerate(rng.sample(others, rng.choice([3, 5, 8]))):
            self.add_item(1000 + j, "C", "P", o)
            self.items_obj.append({"n": 1000 + j, "s": "C", "k": "P"})
        for j, o in enumerate(rng.sample([[1, 2], {"a": 1}, {1, 2}, bytearray(b"ab"), [[]]], 2)):
            self.add_item(2000 + j, "C", "U", o)
            self.items_u.append({"n": 2000 + j, "s": "C", "k": "U"})
        for j, k in ((2, 1), (3, 2), (4, 2)):          # caller-supplied keys whose hash fails at the first / second call
            self.add_item(2000 + j, "B%d" % k, "U", X.FlakyKey(2000 + j, k))
            self.items_u.append({"n": 2000 + j, "s": "B%d" % k, "k": "U"})


EMPTY_OBS = {"lst": [], "bwd": [], "size": [], "head": [], "tail": [], "truth": [], "ch": [], "links": [], "val": [],
             "os": [], "orev": [], "olen": []}


def sane(obs):
    """no marker of a broken structure (unknown node, endless walk, unreachable node) and walks that agree: the
    recorder can go on choosing calls from this observation (TLC judges the observation itself in any case)"""
    ids = [x for s in obs["lst"] + obs["bwd"] + obs["ch"] for x in s] + obs["head"] + obs["tail"] + [x for t in obs["links"] for x in t]
    if any(x < 0 for x in ids):
        return False
    seen = [x for s in obs["lst"] + obs["ch"] for x in s]
    if len(seen) != len(set(seen)):
        return False
    for fwd, bwd, size, head, tail in zip(obs["lst"], obs["bwd"], obs["size"], obs["head"], obs["tail"]):
        if bwd != fwd[::-1] or size != len(fwd) or head != (fwd[0] if fwd else 0) or tail != (fwd[-1] if fwd else 0):
            return False
    return True


def _pick(rng, seq):
    return seq[rng.randrange(len(seq))]


class Recorder(object):
    def __init__(self, seed, profile):
        self.seed, self.profile = seed, profile
        rng = self.rng = random.Random("rec-%s-%s" % (seed, profile))
        self.stress = rng.choice([0, 1, 1, 2])
        self.conc = TraceConc(rng, self.stress)
        self.w = X.World(self.conc)
        self.events = []
        self.nval = 0             # highest node id in use so far
        self.cursor = {}          # iterator slot -> node id yielded last (bookkeeping of the caller)
        self.itkind = {}
        self.stopped = False
        self.state, self.shape = self.w.observe(0)
        self.sets_universe = "u1" if rng.random() < 0.6 else "u2"

    # ---- observation in the form of the trace module
    def obs(self):
        st, sh = self.w.observe(self.nval)
        self.state, self.shape = st, sh
        self.nval = max(self.nval, len(st["val"]))
        sets = self.w.observe_sets()
        return {"lst": st["lst"], "bwd": [x["bwd"] for x in sh["lists"]], "size": [x["size"] for x in sh["lists"]],
                "head": [x["head"] for x in sh["lists"]], "tail": [x["tail"] for x in sh["lists"]],
                "truth": [x["truth"] for x in sh["lists"]], "ch": st["ch"], "links": sh["links"], "val": st["val"],
                "os": [x["fwd"] for x in sets], "orev": [x["rev"] for x in sets], "olen": [x["len"] for x in sets]}

    def fresh_ids(self, n):
        return list(range(self.nval + 1, self.nval + 1 + n))

    def perform(self, c):
        before = self.state
        res = self.w.apply(c, self.rng)
        if res is None:               # a call outside the domain that was not performed
            return "skip"
        ev = dict(c)
        ev.pop("how", None)
        ev["res"] = res
        if c["op"] in ("lclear", "lsetstate") and res["t"] == "ok":
            # what becomes of the nodes a cleared list held is not specified: the caller forgets them
            keep = {x for j, s in enumerate(before["lst"]) if j != c["l"] - 1 for x in s} | {x for s in before["ch"] for x in s}
            try:
                keep |= set(self.w.walk(self.w.lists[c["l"] - 1].head_node, "next_node", len(self.w.nodes) + 2))
            except (IndexError, X.Endless):
                pass
            self.w.keep_only(keep)
        try:
            ev["obs"] = self.obs()
        except X.Endless:
            ev["obs"] = dict(self.events[-1]["obs"] if self.events else EMPTY_OBS, val=["observation does not end"])
            self.events.append(ev)
            self.stopped = True
            return res
        self.events.append(ev)
        if res["t"] == "?" or not sane(ev["obs"]):
            self.stopped = True       # the objects are broken: TLC judges the history up to here
            return res
        try:
            self._track_iterators(c, res, before)
        except (KeyError, IndexError, StopIteration):
            self.stopped = True
        return res

    def _track_iterators(self, c, res, before):
        op = c["op"]
        if op == "itopen":
            if res["t"] in ("node", "val"):
                k = {"ln": "fn", "lv": "fv", "lr": "bv", "nn": "fn", "nns": "fn", "np": "bn", "nps": "bn"}[c["k"]]
                if c["k"] in ("ln", "lv"):
                    cur = before["lst"][c["l"] - 1][0]
                elif c["k"] == "lr":
                    cur = before["lst"][c["l"] - 1][-1]
                elif c["k"] in ("nn", "np"):
                    cur = c["x"]
                else:
                    link = next(t for t in self._links(before) if t[0] == c["x"])
                    cur = link[2] if c["k"] == "nns" else link[1]
                self.cursor[c["i"]] = cur
                self.itkind[c["i"]] = k
            else:
                self.cursor.pop(c["i"], None)
        elif op == "itnext":
            if res["t"] in ("node", "val"):
                link = next(t for t in self._links(before) if t[0] == self.cursor[c["i"]])
                self.cursor[c["i"]] = link[2] if self.itkind[c["i"]] in ("fn", "fv") else link[1]
            else:
                self.cursor.pop(c["i"], None)
        gone = set()
        if res["t"] != "err":
            if op in ("lremove", "nremove"):
                gone = {c["x"]}
            elif op == "lpop":
                gone = {before["lst"][c["l"] - 1][-1]}
            elif op in ("lclear", "lsetstate"):
                gone = set(before["lst"][c["l"] - 1])
        for i in [i for i, cur in self.cursor.items() if cur in gone]:
            self.cursor.pop(i)
            self.w.its[i - 1] = None

    def _links(self, state):
        out = []
        for seq in state["lst"] + state["ch"]:
            for j, x in enumerate(seq):
                out.append((x, seq[j - 1] if j else 0, seq[j + 1] if j + 1 < len(seq) else 0))
        return out

    # ---- call generation from the observed objects
    def vsym(self):
        return _pick(self.rng, sorted(self.conc.proto))

    def vsyms(self, n):
        return [self.vsym() for _ in range(n)]

    def count(self):
        r = self.rng.random()
        return self.rng.choice([0, 1, 2, 3]) if r < 0.8 else self.rng.choice([9, 10, 11, 16, 17])

    def step(self):
        rng = self.rng
        st = self.state
        nl = len(st["lst"])
        live_l = [x for seq in st["lst"] for x in seq]
        free = [x for seq in st["ch"] for x in seq]
        detached = [seq[0] for seq in st["ch"] if len(seq) == 1]
        prof = self.profile
        menu = []
        if prof in ("lists", "nodes", "iters", "mixed", "copies"):
            menu += ["lnew"] * (3 if nl < 2 else 1 if nl < 6 else 0)
            if nl:
                menu += ["lappend", "lappend", "lathead", "linsbefore", "linsafter", "lremove", "lremove", "lpop", "lextend", "lextend",
                         "lclear", "lquery", "lquery", "linsnode", "linsnode", "node", "lsetstate", "lcopy", "nquery", "drop"]
            if prof in ("nodes", "mixed"):
                menu += ["node", "node", "nremove", "nlink", "nlink", "nins", "nins", "nins", "nquery", "nsetvalue", "drop", "refused"]
            if prof in ("iters", "mixed") and (live_l or free):
                menu += ["itopen"] * 3 + ["itnext"] * (6 if self.cursor else 0)
            if prof == "copies" and nl:
                menu += ["lcopy"] * 4 + ["lgetstate", "lsetstate"]
        if prof in ("sets", "sets2", "mixed"):
            ns = len(st["os"])
            menu += ["onew"] * (3 if ns < 2 else 1 if ns < 4 else 0)
            if ns:
                menu += ["oadd"] * 4 + ["oremove", "oremove", "oextend", "ohas", "ohas", "oquery", "ofirst", "olast", "obefore", "obefore",
                                        "oafter", "oafter", "ocopy", "osetstate", "ounhash", "ounhash"]
        if prof in ("strs", "mixed"):
            menu += ["spair"] * 6 + ["sunary"] * 3 + ["sorted", "spickle"]
        for _ in range(30):
            kind = _pick(rng, menu)
            try:
                c = self.gen(kind, st, live_l, free, detached)
            except (KeyError, IndexError, StopIteration):
                return None           # the observation does not make sense any more: stop here
            if c is not None:
                return self.perform(c)
        return None

    def gen(self, kind, st, live_l, free, detached):
        rng = self.rng
        C = X.call
        nl = len(st["lst"])
        l = rng.randrange(nl) + 1 if nl else 0
        seq = st["lst"][l - 1] if l else []
        if kind == "lnew":
            n = self.count()
            return C("lnew", l=nl + 1, vs=self.vsyms(n), f=self.fresh_ids(n), k="boom" if rng.random() < 0.1 else "")
        if kind == "node":
            return C("node", v=self.vsym(), f=self.fresh_ids(1))
        if kind == "drop":
            busy = set(self.cursor.values())
            cand = [x for x in detached if x not in busy]
            return C("drop", x=_pick(rng, cand)) if cand else None
        if kind in ("lappend", "lathead"):
            return C(kind, l=l, v=self.vsym(), f=self.fresh_ids(1))
        if kind in ("linsbefore", "linsafter"):
            if not seq:
                anyn = live_l + free
                return C(kind, l=l, v=self.vsym(), x=_pick(rng, anyn), f=self.fresh_ids(1)) if anyn else None
            return C(kind, l=l, v=self.vsym(), x=_pick(rng, seq), f=self.fresh_ids(1))
        if kind == "lremove":
            if not seq:
                anyn = live_l + free
                return C("lremove", l=l, x=_pick(rng, anyn)) if anyn and rng.random() < 0.3 else None
            return C("lremove", l=l, x=_pick(rng, seq))
        if kind == "lpop":
            return C("lpop", l=l)
        if kind == "lclear":
            return C("lclear", l=l) if rng.random() < 0.4 else None
        if kind == "lextend":
            n = self.count()
            return C("lextend", l=l, vs=self.vsyms(n), f=self.fresh_ids(n), k="boom" if rng.random() < 0.25 else "")
        if kind == "lsetstate":
            n = self.count()
            return C("lsetstate", l=l, vs=self.vsyms(n), f=self.fresh_ids(n))
        if kind == "lgetstate":
            return C("lgetstate", l=l)
        if kind == "lquery":
            return C(_pick(rng, ["lbool", "llen", "lhead", "ltailnode", "ltail", "lnodes", "lvalues", "lrev", "lgetstate"]), l=l)
        if kind == "lcopy":
            how = rng.choice(X.COPY_SAFE + X.COPY_LOW)
            k = how if how in X.COPY_LOW else "copy"
            return dict(C("lcopy", l=l, m=nl + 1, k=k, f=self.fresh_ids(len(seq))), how=how)
        if kind == "linsnode":
            op = _pick(rng, ["linsnodebefore", "linsnodeafter"])
            alln = live_l + free
            if not alln:
                return None
            if not seq:
                return C(op, l=l, y=_pick(rng, alln), x=_pick(rng, alln))
            x = _pick(rng, seq)
            r = rng.random()
            if r < 0.55 and detached:
                y = _pick(rng, detached)                   # the ordinary case
            elif r < 0.75:
                y = _pick(rng, alln)                       # usually a linked node: refused
            elif r < 0.9:
                soles = [s[0] for i, s in enumerate(st["lst"]) if len(s) == 1 and i != l - 1]
                if not soles:
                    return None
                y = _pick(rng, soles)                      # the only node of another list
                self.stopped = True                        # whatever happens, this world is not used any further
            else:
                y = x
                if len(seq) != 1:
                    return None
            return C(op, l=l, y=y, x=x)
        if kind == "nquery":
            alln = live_l + free
            if not alln:
                return None
            x = _pick(rng, alln)
            op = _pick(rng, ["nvalue", "nprev", "nnext", "nwalk", "nwalk"])
            return C(op, x=x, k=_pick(rng, ["n", "ns", "p", "ps"]) if op == "nwalk" else "")
        if kind == "nsetvalue":
            alln = live_l + free
            return C("nsetvalue", x=_pick(rng, alln), v=self.vsym()) if alln else None
        if kind == "nremove":
            return C("nremove", x=_pick(rng, free)) if free else None
        if kind == "nlink":
            chains = st["ch"]
            r = rng.random()
            if r < 0.7 and len(chains) >= 2:
                a, b = rng.sample(chains, 2)
                return C("nlink", x=a[-1], y=b[0])
            if r < 0.85 and chains:
                return C("nlink", x=_pick(rng, chains)[-1], y=0)
            if chains:
                return C("nlink", x=0, y=_pick(rng, chains)[0])
            return C("nlink")
        if kind == "nins":
            if not free or not detached:
                return None
            x = _pick(rng, free)
            cand = [y for y in detached if y != x]
            if not cand:
                return None
            return C(_pick(rng, ["ninsbefore", "ninsafter"]), x=x, y=_pick(rng, cand))
        if kind == "refused":
            if not free:
                return None
            x = _pick(rng, free)
            link = next(t for t in self._links(st) if t[0] == x)
            r = rng.random()
            if r < 0.4:
                return C(_pick(rng, ["ninsbefore", "ninsafter"]), x=x, y=x)
            if r < 0.7 and link[1]:
                return C("ninsbefore", x=x, y=link[1])
            if link[2]:
                return C("ninsafter", x=x, y=link[2])
            return None
        if kind == "itopen":
            i = rng.choice(list(range(1, len(self.w.its) + 2))[-3:])
            k = _pick(rng, ["ln", "lv", "lr", "nn", "nns", "np", "nps"])
            if k in ("ln", "lv", "lr"):
                return C("itopen", i=i, k=k, l=l) if l else None
            alln = live_l + free
            return C("itopen", i=i, k=k, x=_pick(rng, alln)) if alln else None
        if kind == "itnext":
            if not self.cursor:
                return None
            return C("itnext", i=_pick(rng, sorted(self.cursor)))
        # ---- sets
        ns = len(st["os"])
        s_ = rng.randrange(ns) + 1 if ns else 0
        conc = self.conc
        pool = (conc.items_i + conc.items_i + conc.items_pl) if self.sets_universe == "u1" else (conc.items_p + conc.items_obj)
        present = st["os"][s_ - 1] if s_ else []

        def item(bias_present=0.5):
            if present and rng.random() < bias_present:
                it = _pick(rng, present)
                if self.sets_universe == "u1" and rng.random() < 0.6:        # another spelling / kind of the same key
                    alts = [p for p in pool if p["n"] == it["n"]]
                    if alts:
                        return _pick(rng, alts)
                return it
            return _pick(rng, pool)
        if kind == "onew":
            n = self.count()
            items = [item(0) for _ in range(n)]
            if rng.random() < 0.1:
                items.insert(rng.randrange(len(items) + 1), _pick(rng, conc.items_u))
            return C("onew", l=ns + 1, k="boom" if rng.random() < 0.1 else "", **{"as": items})
        if kind == "oadd":
            return C(_pick(rng, ["oadd", "oappend"]), l=s_, a=item(0.3))
        if kind == "oremove":
            return C("oremove", l=s_, a=item(0.8))
        if kind == "oextend":
            n = self.count()
            items = [item(0.3) for _ in range(n)]
            if rng.random() < 0.15:
                items.insert(rng.randrange(len(items) + 1), _pick(rng, conc.items_u))
            return C("oextend", l=s_, k="boom" if rng.random() < 0.2 else "", **{"as": items})
        if kind == "ohas":
            return C("ohas", l=s_, a=item(0.6))
        if kind == "oquery":
            return C(_pick(rng, ["olen", "oiter", "orev", "ogetstate"]), l=s_)
        if kind in ("ofirst", "olast"):
            return C(kind, l=s_, a=item(0.85))
        if kind in ("obefore", "oafter"):
            a, b = item(0.85), item(0.85)
            if a["n"] == b["n"] and not any(p["n"] == a["n"] for p in present):
                return None           # an absent item relative to itself: not specified
            return C(kind, l=s_, a=a, b=b)
        if kind == "ounhash":
            op = _pick(rng, ["oadd", "oremove", "ohas", "ofirst", "olast", "obefore", "oafter"])
            u = _pick(rng, conc.items_u)
            if op in ("obefore", "oafter"):
                if rng.random() < 0.2:
                    return None       # (a == b and absent is not specified: unhashable items are never present)
                return C(op, l=s_, a=u, b=item(0.9)) if rng.random() < 0.5 else C(op, l=s_, a=item(0.9), b=u)
            return C(op, l=s_, a=u)
        if kind == "ocopy":
            how = rng.choice(X.COPY_SAFE + X.COPY_LOW)
            return dict(C("ocopy", l=s_, k=how if how in X.COPY_LOW else "copy"), how=how)
        if kind == "osetstate":
            return C("osetstate", l=s_, **{"as": [item(0.3) for _ in range(self.count())]})
        # ---- strings
        allit = conc.items_i + conc.items_p
        if kind == "spair":
            r = rng.random()
            if r < 0.3:              # two texts of one case-mapping hazard group: equal only when their lower() agree
                a, b = rng.choices(_pick(rng, conc.hazard), k=2)
            else:
                a = _pick(rng, allit)
                b = _pick(rng, [p for p in allit if p["n"] == a["n"]]) if r < 0.7 else _pick(rng, allit + conc.items_obj)
            op = _pick(rng, ["seq", "sne", "shash", "dget", "dkeep"])
            if op in ("dget", "dkeep") and "I" in (a["k"], b["k"]) and any(p["k"] == "P" and p["s"] != "L" and p["n"] < 1000 for p in (a, b)):
                op = "seq"           # plain str that are not lower-case are not mixed with _strI as keys (domain)
            if a["k"] != "I" and b["k"] != "I" and op in ("seq", "sne") and rng.random() < 0.7:
                b, a = a, _pick(rng, conc.items_i)
            return C(op, a=a, b=b)
        if kind == "sunary":
            return C(_pick(rng, ["slower", "skey", "sstr"]), a=_pick(rng, _pick(rng, conc.hazard)) if rng.random() < 0.3 else _pick(rng, allit))
        if kind == "sorted":
            n = rng.choice([0, 1, 2, 3, 5, 8, 17, 33])
            return C("sorted", **{"as": [_pick(rng, allit) for _ in range(n)]})
        if kind == "spickle":
            how = rng.choice(["copy", "deepcopy", "pickle2", "pickle3", "pickle4", "pickle5", "pickledefault"])
            return dict(C("spickle", a=_pick(rng, conc.items_i), k=how), how=how)
        return None


def record(seed, profile, nevents):
    """-> (events, recorder)"""
    rec = Recorder(seed, profile)
    for _ in range(nevents):
        if rec.step() is None or rec.stopped:
            break
    return rec.events, rec


def record_big(seed, kind, size=None):
    """size stress: one or many large lists / sets, few events"""
    rec = Recorder(seed, "lists")
    rng = rec.rng
    C = X.call
    if kind == "biglist":
        n = size or rng.choice([99, 100, 101, 255, 256, 257] + ([1000] if rng.random() < 0.3 else []))
        rec.perform(C("lnew", l=1, vs=rec.vsyms(n), f=rec.fresh_ids(n)))
        for _ in range(rng.choice([6, 10])):
            seq = rec.state["lst"][0]
            op = rng.choice(["lpop", "lremove", "linsbefore", "linsafter", "lathead", "lappend", "lrev", "llen", "lextend", "lcopy", "nwalk", "lvalues"])
            if op in ("lremove", "linsbefore", "linsafter", "nwalk") and not seq:
                continue
            x = rng.choice([seq[0], seq[-1], seq[len(seq) // 2], rng.choice(seq)]) if seq else 0
            if op == "lremove":
                rec.perform(C(op, l=1, x=x))
            elif op in ("linsbefore", "linsafter"):
                rec.perform(C(op, l=1, v=rec.vsym(), x=x, f=rec.fresh_ids(1)))
            elif op in ("lathead", "lappend"):
                rec.perform(C(op, l=1, v=rec.vsym(), f=rec.fresh_ids(1)))
            elif op == "lextend":
                k = rng.choice([1, 16, 17, 33, 100])
                rec.perform(C(op, l=1, vs=rec.vsyms(k), f=rec.fresh_ids(k), k="boom" if rng.random() < 0.3 else ""))
            elif op == "lcopy":
                if len(rec.state["lst"]) >= 3:
                    continue
                how = rng.choice(X.COPY_SAFE)
                rec.perform(dict(C(op, l=1, m=len(rec.state["lst"]) + 1, k="copy", f=rec.fresh_ids(len(seq))), how=how))
            elif op == "nwalk":
                rec.perform(C(op, x=x, k=rng.choice(["n", "ns", "p", "ps"])))
            else:
                rec.perform(C(op, l=1))
    elif kind == "manylists":
        k = size or rng.choice([9, 10, 11, 16, 17, 31, 32, 33, 40])
        for i in range(k):
            n = rng.choice([0, 1, 2, 3])
            rec.perform(C("lnew", l=i + 1, vs=rec.vsyms(n), f=rec.fresh_ids(n)))
        rec.profile = "mixed" if rng.random() < 0.5 else "lists"
        for _ in range(40):
            if rec.step() is None or rec.stopped:
                break
    elif kind == "bigset":
        rec.profile = "sets"
        conc = rec.conc
        n = size or rng.choice([99, 100, 101, 255, 256, 257] + ([1000] if rng.random() < 0.3 else []))
        items = []
        for j in range(n):
            t = "key-%04d%s" % (j, "-" + "z" * rng.choice([1, 15, 16, 17, 63, 64, 65, 255, 256, 257]) if j % 40 == 0 else "")
            conc.add_item(3000 + j, "L", "P", t)
            conc.add_item(3000 + j, "L", "I", X.U()._strI(t))
            conc.add_item(3000 + j, "sU", "I", X.U()._strI(t.upper()))
            items.append({"n": 3000 + j, "s": "L", "k": rng.choice(["P", "I"])})
        rng.shuffle(items)
        rec.sets_universe = "u1"
        rec.perform(C("onew", l=1, **{"as": items}))
        for _ in range(rng.choice([6, 10])):
            it = dict(rng.choice(items), s="sU", k="I") if rng.random() < 0.6 else rng.choice(items)
            op = rng.choice(["oremove", "ofirst", "olast", "obefore", "oafter", "ohas", "orev", "olen", "oadd", "ocopy"])
            if op in ("obefore", "oafter"):
                rec.perform(C(op, l=1, a=it, b=rng.choice(items)))
            elif op in ("orev", "olen"):
                rec.perform(C(op, l=1))
            elif op == "ocopy":
                rec.perform(dict(C(op, l=1, k="copy"), how=rng.choice(X.COPY_SAFE)))
            else:
                rec.perform(C(op, l=1, a=it))
    return rec.events, rec
