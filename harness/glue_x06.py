"""X06 (b), (c): driving len_check_iterator and combine_into_replacement of
debian._deb822_repro._util and projecting what they do into the vocabulary of spec/StreamGlue.tla.
No expected value is computed here (TLC: CASE lines and TraceStreamGlue)."""
import json
import random


class Counting:
    """iterator that counts how often it is asked (the end included)"""

    def __init__(self, it):
        self.it = iter(it)
        self.polls = 0

    def __iter__(self):
        return self

    def __next__(self):
        self.polls += 1
        return next(self.it)


def R(t, v=()):
    return {"t": t, "v": list(v)}


CHARS = ["a", "\U0001f600", "́", "é", " ", "﻿", "Å", "\U0010ffff", "п", "Z"]


def text_of(rng, n):
    """a text of n code points (non-BMP, combining marks, BOM ...: len() counts code points)"""
    if n > 64:
        return (rng.choice(CHARS) * n)
    return "".join(rng.choice(CHARS) for _ in range(n))


class Tok:
    def __init__(self, text):
        self.text = text


class PropTok:
    """text is a property, as in the real tokens"""

    def __init__(self, text):
        self._t = text

    @property
    def text(self):
        return self._t


class Elem:
    def __init__(self, toks):
        self.toks = toks

    def iter_tokens(self):
        return iter(self.toks)


class ElemGen(Elem):
    def iter_tokens(self):
        yield from self.toks


def len_object(rng, entry, real):
    from debian._deb822_repro import tokens as T, parsing as P
    ls = entry["ls"]
    if entry["k"] == "t":
        txt = text_of(rng, ls[0])
        if real and ls[0] > 0:
            return T.Deb822ValueToken(txt)
        return rng.choice((Tok, PropTok))(txt)
    if real and ls:
        return P.Deb822ErrorElement([T.Deb822ErrorToken(text_of(rng, n)) for n in ls])
    return rng.choice((Elem, ElemGen))([rng.choice((Tok, PropTok))(text_of(rng, n)) for n in ls])


def classify_exc(ex):
    if isinstance(ex, ValueError):
        m = str(ex)
        if "did not fully cover" in m:
            return R("short")
        if "more text than was present" in m:
            return R("long")
    return dict(R("exc"), x="%s: %s" % (type(ex).__name__, str(ex)[:80]))


def drive(gen, project, polls, handed, extra=1):
    """next() on the generator until it stops (plus `extra` more calls); -> events"""
    events = []
    stops = 0
    while stops <= extra and len(events) < 100000:
        try:
            r = project(next(gen))
        except StopIteration:
            r = R("stop")
            stops += 1
        except Exception as ex:
            r = classify_exc(ex)
        events.append({"res": r, "polls": polls(), "handed": handed()})
        if r["t"] == "exc":
            break
    return events


def run_len(rng, inp, clen, real=False, variant=None):
    """-> trace of one len_check_iterator run"""
    from debian._deb822_repro._util import len_check_iterator
    objs = [len_object(rng, e, real) for e in inp]
    idx = {id(o): k + 1 for k, o in enumerate(objs)}
    src = Counting(objs if rng.random() < 0.5 else (o for o in objs))
    variant = rng.randrange(4) if variant is None else variant
    if variant == 0:
        g = len_check_iterator(text_of(rng, clen), src)
    elif variant == 1:
        g = len_check_iterator(text_of(rng, clen), src, None)
    elif variant == 2:
        g = len_check_iterator("something else", src, clen)
    else:
        g = len_check_iterator(content="x", stream=src, content_len=clen)

    def project(o):
        k = idx.get(id(o))
        return R("pass", [k]) if k and objs[k - 1] is o else R("pass", [-7])
    events = drive(iter(g), project, lambda: src.polls, lambda: [])
    return {"mode": "len", "input": inp, "clen": clen, "events": events}


class S:
    pass


class T(S):
    pass


class O:
    pass


class Rep:
    """replacement class: keeps the very list it was given"""

    def __init__(self, members):
        self.members = members


def run_comb(rng, inputs, real=False, shared=None):
    """one combiner function, len(inputs) streams consumed interleaved; -> list of traces"""
    from debian._deb822_repro._util import combine_into_replacement
    from debian._deb822_repro import tokens as TK, parsing as P
    if real:
        class MyErr(TK.Deb822ErrorToken):
            pass
        mk = {"S": lambda: TK.Deb822ErrorToken("e\n"), "T": lambda: MyErr("sub\n"),
              "O": lambda: rng.choice((TK.Deb822CommentToken("# c\n"), TK.Deb822WhitespaceToken(" "), 0, None, "", TK.Deb822ValueToken("v")))}
        comb = shared or (P._combine_error_tokens_into_elements if rng.random() < 0.5 else
                          combine_into_replacement(TK.Deb822ErrorToken, P.Deb822ErrorElement))
        members = lambda r: r._parts
        is_rep = lambda o: isinstance(o, P.Deb822ErrorElement)
    else:
        mk = {"S": S, "T": T, "O": lambda: rng.choice((O(), 0, None, "", (), O))}
        v = rng.randrange(3)
        if shared:
            comb = shared
        elif v == 0:
            comb = combine_into_replacement(S, Rep)
        elif v == 1:
            comb = combine_into_replacement(S, Rep, constructor=None)
        else:
            comb = combine_into_replacement(S, object, constructor=lambda lst: Rep(lst))
        members = lambda r: r.members
        is_rep = lambda o: isinstance(o, Rep)
    runs = []
    for inp in inputs:
        objs = [mk[c]() for c in inp]
        # the same small int / None / "" may sit at several places: project by position order
        src = Counting(objs if rng.random() < 0.5 else (o for o in objs))
        st = {"objs": objs, "src": src, "gen": iter(comb(src)), "reps": [], "events": [], "stops": 0, "inp": inp, "cursor": 0}
        runs.append(st)

    def index_of(st, o, lo):
        for k in range(lo, len(st["objs"])):
            if st["objs"][k] is o:
                return k + 1
        return -7

    def project(st, o):
        if is_rep(o):
            st["reps"].append(o)
            ms = []
            for m in members(o):
                k = index_of(st, m, st["cursor"])
                ms.append(k)
                if k > 0:
                    st["cursor"] = k
            return R("run", ms)
        k = index_of(st, o, st["cursor"])
        if k > 0:
            st["cursor"] = k
        return R("pass", [k])

    def handed(st):
        out = []
        for r in st["reps"]:
            out.append([index_of(st, m, 0) for m in members(r)])
        return out

    live = list(runs)
    while live:
        st = rng.choice(live)
        try:
            r = project(st, next(st["gen"]))
        except StopIteration:
            r = R("stop")
            st["stops"] += 1
        except Exception as ex:
            r = dict(R("exc"), x="%s: %s" % (type(ex).__name__, str(ex)[:80]))
            st["stops"] = 9
        st["events"].append({"res": r, "polls": st["src"].polls, "handed": None})
        for s2 in runs:       # the lists handed out so far, of EVERY stream, as they are now
            if s2["events"]:
                s2["events"][-1]["handed"] = handed(s2)
        if st["stops"] >= 2 or len(st["events"]) > 100000:
            live.remove(st)
    out = []
    for st in runs:
        for e in st["events"]:
            if e["handed"] is None:
                e["handed"] = handed(st)
        out.append({"mode": "comb", "input": list(st["inp"]), "clen": 0, "events": st["events"]})
    return out


def expected_events(case):
    """the event results TLC's CASE line prescribes (without the laziness column)"""
    ev = []
    if case["mode"] == "len":
        n = case["expect"][0]["v"][0]
        ev = [R("pass", [k + 1]) for k in range(n)]
        ev.append(R(case["expect"][0]["t"]) if case["expect"][0]["t"] != "end" else R("stop"))
        return ev, [k + 1 for k in range(n)] + [n + 1]
    ev = [R(o["t"], o["v"]) for o in case["expect"]]
    at = [o["at"] for o in case["expect"]]
    ev.append(R("stop"))
    at.append(len(case["input"]) + 1)
    return ev, at


def check_case(rng, case, real=False):
    """replay one CASE line; -> message or None"""
    if case["mode"] == "len":
        t = run_len(rng, case["input"], case["clen"], real=real)
    else:
        t = run_comb(rng, [case["input"]], real=real)[0]
    want, at = expected_events(case)
    got = [e["res"] for e in t["events"]]
    # after the generator has finished every further next() is StopIteration
    while len(got) > len(want) and got[-1] == R("stop"):
        got.pop()
    if got[:len(want)] != want or len(got) != len(want):
        return "%s over %s (content_len %s): got %s, specification says %s" % (
            "len_check_iterator" if case["mode"] == "len" else "combine_into_replacement",
            json.dumps(case["input"], separators=(",", ":")), case["clen"], json.dumps(got)[:600], json.dumps(want)[:600])
    polls = [e["polls"] for e in t["events"]][:len(at)]
    if polls != at:
        return "%s over %s: the input had been read %s times when the outputs were handed out, specification says %s" % (
            case["mode"], json.dumps(case["input"], separators=(",", ":")), polls, at)
    if case["mode"] == "comb":
        runs = [o["v"] for o in case["expect"] if o["t"] == "run"]
        if t["events"] and t["events"][-1]["handed"] != runs:
            return "combine_into_replacement over %s: the lists given to the constructor are now %s, handed over as %s" % (
                case["input"], t["events"][-1]["handed"], runs)
    return None


BOUNDARY = [0, 1, 2, 3, 9, 10, 11, 16, 17, 31, 32, 33, 99, 100, 101, 255, 256, 257]


def random_traces(seed, big=False):
    """recorded runs for trace validation; -> list of traces"""
    rng = random.Random(seed)
    out = []
    if rng.random() < 0.5:
        n = rng.choice((255, 256, 257, 1000)) if big else rng.choice(BOUNDARY[:9])
        pal = [{"k": "t", "ls": [0]}, {"k": "t", "ls": [1]}, {"k": "t", "ls": [2]}, {"k": "t", "ls": [rng.choice((7, 64, 255, 4097))]},
               {"k": "e", "ls": []}, {"k": "e", "ls": [1]}, {"k": "e", "ls": [1, 2]}, {"k": "e", "ls": [3] * rng.choice((2, 17, 100))}]
        inp = [rng.choice(pal) for _ in range(n)]
        covered = sum(sum(e["ls"]) for e in inp)
        clen = max(0, covered + rng.choice((0, 0, 0, 1, -1, 2, -covered, 1000)))
        out.append(run_len(rng, inp, clen, real=rng.random() < 0.3))
    else:
        k = rng.choice((1, 2, 2, 3))
        inputs = []
        for _ in range(k):
            n = rng.choice((255, 256, 257)) if big else rng.choice(BOUNDARY[:9])
            w = rng.choice(([5, 1, 2], [1, 1, 5], [1, 0, 1], [10, 2, 1])) if not big else rng.choice(([10, 2, 1], [40, 2, 1]))
            inputs.append(rng.choices("STO", weights=w, k=n))
        out += run_comb(rng, inputs, real=rng.random() < 0.3)
    return out


def corrupt(t, how):
    t = json.loads(json.dumps(t))
    for e in t["events"]:
        r = e["res"]
        if how == "polls":
            e["polls"] += 1
            return t
        if how == "late" and r["t"] == "run" and e["polls"] <= len(t["input"]):
            e["polls"] += 1
            return t
        if how == "split" and r["t"] == "run" and len(r["v"]) >= 2:
            r["v"].pop()
            return t
        if how == "outcome" and r["t"] in ("short", "long"):
            r["t"] = "stop"
            return t
        if how == "outcome2" and t["mode"] == "len" and r["t"] == "stop":
            r["t"] = "long"
            return t
        if how == "handed" and e["handed"] and e["handed"][0]:
            e["handed"][0] = []
            return t
    return None
