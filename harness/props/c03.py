"""C03 -- version comparison agrees with dpkg and is a consistent total preorder.

spec:      spec/DpkgVersion.tla    pure operators over code points: dpkg reference (Parse, Verrevcmp,
                                   DpkgCmp), implementation layer transcribed from NativeVersion
                                   (ISplit, Runs, IOrder, ICmpString, ICmpPart, ICompare, IHashKey)
                                   and Canon, the design of a hash key
           spec/DpkgVersionMC.tla  bounded-exhaustive enumeration of pairs / triples of version strings;
                                   invariants Agree SplitAgree Antisym Trichotomy Reflexive Trans
                                   HashConsistent HashImpl; prints CASE lines (pair, expected sign,
                                   expected hash-key equality) and the OPS table
           spec/TraceDpkgVersion.tla  trace validation on concrete code points
binding:   (a) spec -> code: the CASE lines (a checksum-selected sample of the big configurations,
               different for every seed, plus ALL pairs of the triples configuration) are replayed into
               Version(a) < <= == != >= > Version(b), version_compare(a, b) and hash(); each abstract case
               is concretized by order-isomorphic code points (other letters / digits)
           (b) code -> spec: random and near-equal pairs / triples over the full valid alphabet are run
               through the real code and every recorded comparison is validated by TLC
           (c) `dpkg --compare-versions` as a second, external oracle on a sample of the recorded pairs
               (thorough: ~5000, quick: a handful); skipped with a note when dpkg is absent
spec-level negative controls (re-run in every check, TLC must report the violation):
           HashOnString = TRUE  -> HashConsistent violated;  TildeOrderZero = TRUE -> Agree violated
domain:    DESIGN.md D2: only valid version strings, nothing from the unspecified zone (empty revision,
           ':' after the last hyphen, nothing before the last hyphen).  The trace module re-checks it
           (TDomain); a generator bug is a machinery failure, not a finding.
verdict observables: sign of every operator / version_compare, a == b => hash(a) == hash(b).
diagnostic only: hash collisions of unequal versions, comparison with a plain string operand.
"""
import copy
import os
import re
import shutil
import subprocess

import core

MANIFEST = dict(
    technique="TLA+ spec over code points (dpkg reference Verrevcmp/DpkgCmp + implementation layer transcribed from NativeVersion + Canon hash-key design) model-checked by TLC on all pairs/triples up to a bound; TLC-emitted cases replayed into Version/version_compare/hash; recorded comparisons over the full alphabet validated by TLC (TraceDpkgVersion); dpkg --compare-versions as external oracle",
    text="TLC enumerates every pair of single-component versions up to 3 (thorough 4) characters over 0 1 9 A a . ~, every pair of complete versions (4 epochs x 4-6 revisions x upstream <= 2 with ':' and '-' where allowed) and every triple of a smaller universe, and checks that the transcription of NativeVersion's algorithm agrees with dpkg's, that the order is antisymmetric, total and transitive, and that the canonical hash key is exactly the kernel of the order (and that the implementation's key induces the same partition). A seed-dependent sample of the enumerated pairs plus all pairs of the small universe is replayed, with order-isomorphic concrete characters, into the six rich comparisons, version_compare and hash(); thousands of random and near-equal pairs/triples (length up to ~40, leading zeros, '~' chains, epoch 0 vs absent, revision 0 vs absent, epochs beyond 2^32) are executed on the real code and each recorded comparison is validated by TLC on the concrete code points.",
    note="Small-scope for the exhaustive part (alphabet of 7-8 code points, bounded length); payload beyond it is sampled. Numbers are compared as digit strings in the reference (TLC integers are 32 bit); the implementation layer's int() is only model-checked on short runs. Trusted: TLC, the order-isomorphic concretizer, the observation wrapper, dpkg where present. Hash collisions of unequal versions are not a violation. Spec-level negative controls and corrupted control traces are required to fail in every run.",
    design="5 (C03)")

WORKERS = min(8, core.NCPU)
JAVA = ["-Xmn256m"]          # bounded young generation: the interpreter allocates a lot of short-lived values
OPKEYS = ("cmp", "lt", "le", "eq", "ne", "ge", "gt")
EXC = 99                     # logged instead of a sign when the code under test raised

LETTERS = [chr(c) for c in range(65, 91)] + [chr(c) for c in range(97, 123)]     # sorted by code point
DIGITS19 = "123456789"
PLAIN = "".join(LETTERS) + "0123456789" + ".+~"


def cps(s):
    return [ord(c) for c in s]


def text(cp):
    return "".join(chr(c) for c in cp)


# ------------------------------------------------------------------ observing the real code

def observe(sa, sb):
    """every verdict observable of one comparison; exceptions are observations"""
    from debian.debian_support import Version, version_compare
    obs = {}
    exc = None

    def guard(f):
        nonlocal exc
        try:
            return f()
        except Exception as e:                      # noqa: broad on purpose
            exc = exc or "%s: %s" % (type(e).__name__, e)
            return None

    c = guard(lambda: version_compare(sa, sb))
    obs["cmp"] = (c > 0) - (c < 0) if isinstance(c, int) else c        # only its sign is promised
    obs["lt"] = guard(lambda: Version(sa) < Version(sb))
    obs["le"] = guard(lambda: Version(sa) <= Version(sb))
    obs["eq"] = guard(lambda: Version(sa) == Version(sb))
    obs["ne"] = guard(lambda: Version(sa) != Version(sb))
    obs["ge"] = guard(lambda: Version(sa) >= Version(sb))
    obs["gt"] = guard(lambda: Version(sa) > Version(sb))
    obs["heq"] = guard(lambda: hash(Version(sa)) == hash(Version(sb)))
    if exc:
        obs["exc"] = exc
    return obs


def judge(obs, exp_ops, exp_heq):
    """compare an observation with what TLC printed for the pair: exp_ops = OPS row of the expected
    sign, exp_heq = the canonical keys are equal.  Returns None or a message."""
    if "exc" in obs:
        return "the code raised %s" % obs["exc"]
    bad = [k for k in OPKEYS if obs[k] != exp_ops[k]]
    if bad:
        return "specification (dpkg order) says sign %d, i.e. %s; observed %s" % (
            exp_ops["cmp"], {k: exp_ops[k] for k in bad}, {k: obs[k] for k in bad})
    if exp_heq and obs["heq"] is not True:
        return "versions compare equal (canonical keys equal) but their hashes differ"
    return None


def string_operand_drift(ctx, sa, sb, exp_ops):
    """diagnostic: Version(a) <op> 'b' (plain string operand) follows the same order"""
    from debian.debian_support import Version
    try:
        got = (Version(sa) < sb, Version(sa) == sb, Version(sa) > sb)
    except Exception as e:
        ctx.drift("Version(%r) <op> %r (str operand) raised %s" % (sa, sb, type(e).__name__))
        return
    if got != (exp_ops["lt"], exp_ops["eq"], exp_ops["gt"]):
        ctx.drift("Version(%r) <,==,> %r (str operand) = %r, expected sign %d" % (sa, sb, got, exp_ops["cmp"]))


# ------------------------------------------------------------------ concretization

def concretize(rng, a, b, canonical):
    """substitute the code points of an abstract pair by order-isomorphic ones: '0' stays '0', the
    other digits map increasingly into 1..9, letters increasingly into A..Za..z (upper case sorts
    before lower case, as in the model), '+' '-' '.' ':' '~' stay.  Class and relative order of all
    characters are kept, hence dpkg's sign and the canonical-key equality are unchanged."""
    if canonical:
        return text(a), text(b)
    used = sorted(set(a) | set(b))
    dig = [c for c in used if 49 <= c <= 57]
    let = [c for c in used if chr(c).isalpha()]
    m = {}
    for c, d in zip(dig, sorted(rng.sample(DIGITS19, len(dig)))):
        m[c] = d
    for c, d in zip(let, sorted(rng.sample(LETTERS, len(let)))):
        m[c] = d
    return "".join(m.get(c, chr(c)) for c in a), "".join(m.get(c, chr(c)) for c in b)


# ------------------------------------------------------------------ TLC design runs

def cfg_text(name, **subst):
    txt = open(os.path.join(core.SPEC, name)).read()
    for k, v in subst.items():
        txt, n = re.subn(r"(?m)^(\s*%s\s*=\s*)\S+\s*$" % re.escape(k), lambda m: m.group(1) + str(v), txt)
        if n != 1:
            raise core.MachineryError("cannot set %s in %s" % (k, name))
    return txt


def design_run(ctx, name, stride, offset):
    r = ctx.tlc_must_hold("DpkgVersionMC", cfg_text(name, EmitStride=stride, EmitOffset=offset),
                          workers=WORKERS, java_opts=JAVA, want_tags={"CASE", "OPS"})
    cases = [tuple(map(_freeze, c)) for c in r.printed.get("CASE", [])]
    cases = sorted(set(cases))                       # the workers print in no fixed order
    ops = {row["cmp"]: row for row in r.printed.get("OPS", [])}
    return r, cases, ops


def _freeze(x):
    return tuple(x) if isinstance(x, list) else x


def negative_controls(ctx):
    out = {}
    for switch, inv in (("HashOnString", "HashConsistent"), ("TildeOrderZero", "Agree")):
        r = ctx.tlc("DpkgVersionMC", cfg_text("MC_DpkgVersion_control.cfg", **{switch: "TRUE"}),
                    count=False, workers=2, java_opts=JAVA, want_tags=set())
        if r.violated != inv:
            raise core.MachineryError("spec-level negative control %s=TRUE: expected %s to be violated, TLC says %r"
                                      % (switch, inv, r.violated))
        out[switch] = "%s violated after %d states" % (inv, r.generated)
    ctx.extra["spec_negative_controls"] = out


# ------------------------------------------------------------------ replay of TLC's cases (spec -> code)

def replay_cases(ctx, cases, ops, nconc, label):
    rng = ctx.rng
    per_sign = {-1: 0, 0: 0, 1: 0}
    n = 0
    for idx, (a, b, s, h) in enumerate(cases):
        if len(ctx.violations) >= ctx.max_violation_files:
            break
        per_sign[s] += 1
        ctx.case_seen((a, b), a != b)
        for c in range(nconc):
            sa, sb = concretize(rng, a, b, canonical=(c == 0))
            obs = observe(sa, sb)
            n += 1
            msg = judge(obs, ops[s], h)
            if msg:
                ctx.violation({"kind": "case", "abstract": [text(a), text(b)], "a": sa, "b": sb,
                               "expected_ops": ops[s], "expected_hash_equal": h, "observed": obs, "config": label},
                              "Version(%r) vs Version(%r): %s" % (sa, sb, msg))
                break
            if not h and obs.get("heq") is True:
                ctx.drift("hash collision of unequal versions %r %r" % (sa, sb))
            if idx % 97 == 0 and c == 0:
                string_operand_drift(ctx, sa, sb, ops[s])
        if idx in (len(cases) // 3, len(cases) // 2) and s == 0 and a != b:
            ctx.sample("%s case %r == %r (hash equal)" % (label, text(a), text(b)))
    mid = cases[len(cases) // 2] if cases else None
    if mid:
        ctx.sample("%s case: %r vs %r -> sign %d, canonical keys equal: %s" % (label, text(mid[0]), text(mid[1]), mid[2], mid[3]))
    return n, per_sign


# ------------------------------------------------------------------ random versions (code -> spec)

def gen_part(rng, extra, lo, hi):
    """a non-empty run-structured string over [A-Za-z0-9.+~] + extra"""
    target = rng.randint(lo, hi)
    out = ""
    while len(out) < target:
        k = rng.random()
        if k < 0.38:
            out += rng.choice(["0", "00", "1", "9", "10", "09", "010", "2", "123", "0123", "99", "100", "4294967296",
                               "%d" % rng.randrange(10 ** rng.randint(1, 6)),
                               "0" * rng.randint(1, 3) + "%d" % rng.randrange(1000),
                               "".join(rng.choice("0123456789") for _ in range(rng.randint(10, 14)))])
        elif k < 0.55:
            out += rng.choice([".", ".", ".", "+", "+", "..", ".+", "+.", "++"])
        elif k < 0.68:
            out += "~" * rng.choice([1, 1, 1, 2, 3])
        elif k < 0.92:
            out += rng.choice(["a", "b", "z", "A", "Z", "rc", "RC", "alpha", "beta", "pre", "dfsg", "git", "ubuntu", "deb", "u", "nmu",
                               "".join(rng.choice(LETTERS) for _ in range(rng.randint(1, 3)))])
        elif extra:
            out += rng.choice(extra)
        else:
            out += rng.choice(PLAIN)
    return out[:hi] if len(out) > hi else out


def gen_version(rng):
    """[epoch, upstream, revision] (None = absent), valid per D2 and outside its unspecified zone"""
    k = rng.random()
    if k < 0.5:
        ep = None
    elif k < 0.95:
        ep = rng.choice(["0", "0", "00", "1", "01", "2", "10", "9", "%d" % rng.randrange(1000)])
    else:
        ep = rng.choice(["2147483647", "2147483648", "4294967296", "4294967297", "99999999999999", "00000000000001"])
    k = rng.random()
    if k < 0.4:
        rev = None
    elif k < 0.65:
        rev = rng.choice(["0", "00", "1", "01", "~", "0~", "a", "+", "."])
    else:
        rev = gen_part(rng, "", 1, 8)
    extra = ("-" if rev is not None else "") + (":" if ep is not None else "")
    up = gen_part(rng, extra, 1, rng.choice([2, 4, 8, 14, 22]))
    if rng.random() < 0.75 and not up[0].isdigit():
        up = rng.choice("0123456789") + up
    return [ep, up, rev]


def join(v):
    ep, up, rev = v
    return (ep + ":" if ep is not None else "") + up + ("-" + rev if rev is not None else "")


def normalize(v):
    """keep a component list inside the domain after an edit"""
    ep, up, rev = v
    if rev is None:
        up = up.replace("-", ".")
    if ep is None:
        up = up.replace(":", ".")
    if not up:
        up = "0"
    if rev is not None and not rev:
        rev = "0"
    return [ep, up, rev]


def near(rng, v):
    """a version close to v: the interesting pairs are the almost-equal ones"""
    v = list(v)
    for _ in range(rng.choice([1, 1, 1, 2, 2, 3])):
        k = rng.randrange(12)
        which = 1 if (v[2] is None or rng.random() < 0.7) else 2
        part = v[which]
        if k == 0:                                   # epoch: absent <-> 0 <-> 00, or another number
            v[0] = rng.choice([None, "0", "00", "000", "1", "01"])
        elif k == 1:                                 # revision: absent <-> 0 <-> 00 ...
            v[2] = rng.choice([None, "0", "00", "0~", "~", "1", "0+", "0."])
        elif k == 2:                                 # add a leading zero to a digit run
            runs = [m.start() for m in re.finditer(r"[0-9]+", part)]
            if runs:
                i = rng.choice(runs)
                part = part[:i] + "0" * rng.randint(1, 2) + part[i:]
            else:
                part = part + "0"
        elif k == 3:                                 # strip the leading zeros of a digit run
            runs = [m for m in re.finditer(r"0+(?=[0-9])", part)]
            if runs:
                m = rng.choice(runs)
                part = part[:m.start()] + part[m.end():]
        elif k == 4:                                 # append something small
            part = part + rng.choice(["0", "00", ".0", ".", "~", "~~", "a", "+", "1", "~0", ".00", "A"])
        elif k == 5 and len(part) > 1:               # drop the last character
            part = part[:-1]
        elif k == 6:                                 # replace one character
            i = rng.randrange(len(part))
            part = part[:i] + rng.choice(PLAIN) + part[i + 1:]
        elif k == 7:                                 # insert a character
            i = rng.randint(0, len(part))
            part = part[:i] + rng.choice("~~0.+aZ19") + part[i:]
        elif k == 8:                                 # swap the case of a letter
            idx = [i for i, c in enumerate(part) if c.isalpha()]
            if idx:
                i = rng.choice(idx)
                part = part[:i] + part[i].swapcase() + part[i + 1:]
        elif k == 9:                                 # change a digit
            idx = [i for i, c in enumerate(part) if c.isdigit()]
            if idx:
                i = rng.choice(idx)
                part = part[:i] + rng.choice("0123456789") + part[i + 1:]
        elif k == 10 and len(part) > 1:              # delete a character
            i = rng.randrange(len(part))
            part = part[:i] + part[i + 1:]
        # k == 11: no edit of the part (identical spelling / only epoch-revision edits)
        if k >= 2 and v[which] is not None:
            v[which] = part
        v = normalize(v)
    return v


def record_trace(strs):
    """run every ordered pair of distinct positions (and one reflexive pair) through the real code"""
    n = len(strs)
    pairs = [(i, j) for i in range(n) for j in range(n) if i != j] + [(0, 0)]
    events = []
    for i, j in pairs:
        obs = observe(strs[i], strs[j])
        e = {"i": i + 1, "j": j + 1}
        if "exc" in obs:
            e.update({k: False for k in OPKEYS[1:]}, cmp=EXC, heq=False, exc=obs["exc"])
        else:
            ok = isinstance(obs["cmp"], int) and all(isinstance(obs[k], (bool, int)) for k in OPKEYS[1:] + ("heq",))
            if ok:
                e.update({k: bool(obs[k]) for k in OPKEYS[1:]}, cmp=int(obs["cmp"]), heq=bool(obs["heq"]))
            else:
                e.update({k: False for k in OPKEYS[1:]}, cmp=EXC, heq=False, exc="non-boolean result %r" % (obs,))
        events.append(e)
    return {"vs": [cps(s) for s in strs], "strs": list(strs), "events": events}


def make_traces(rng, n):
    traces = []
    for t in range(n):
        a = gen_version(rng)
        k = rng.random()
        if k < 0.55:
            vs = [a, near(rng, a)]
        elif k < 0.70:
            vs = [a, gen_version(rng)]
        elif k < 0.92:
            b = near(rng, a)
            vs = [a, b, near(rng, rng.choice([a, b]))]
        else:
            vs = [a, near(rng, a), gen_version(rng)]
        rng.shuffle(vs)
        traces.append(record_trace([join(v) for v in vs]))
    return traces


def corrupt(t, how):
    """negative controls: comparisons the specification must NOT accept"""
    t = copy.deepcopy(t)
    for e in t["events"]:
        if e["cmp"] == EXC or e["i"] == e["j"]:
            continue
        if how == "sign" and e["cmp"] != 0:
            e["cmp"] = -e["cmp"]
            return t
        if how == "op" and e["cmp"] != 0:
            e["le"] = not e["le"]
            return t
        if how == "equal" and e["cmp"] != 0:
            e.update(cmp=0, lt=False, le=True, eq=True, ne=False, ge=True, gt=False, heq=True)
            return t
        if how == "hash" and e["cmp"] == 0 and e["heq"]:
            e["heq"] = False
            return t
    return None


def validate(ctx, traces, with_controls=True):
    """returns [(trace index, index of first unexplained event)]"""
    slim = [{"vs": t["vs"], "events": [{k: v for k, v in e.items() if k != "exc"} for e in t["events"]]} for t in traces]
    controls = []
    if with_controls:
        for how in ("sign", "op", "equal", "hash"):
            for t in slim:
                c = corrupt(t, how)
                if c:
                    controls.append(c)
                    break
        if len(controls) < 4:
            raise core.MachineryError("could not build the corrupted control traces")
    acc, _, _ = core.validate_traces(ctx, "TraceDpkgVersion", "TraceDpkgVersion.cfg", slim,
                                     extra_env={"TRACE_DIAG": "0"}, controls=controls, java_opts=JAVA,
                                     workers=min(4, WORKERS))     # sets of ACCEPTED lines: order is irrelevant
    rejected = [i for i in range(len(slim)) if (i + 1) not in acc]
    out = []
    if rejected:
        sub = [slim[i] for i in rejected[:20]]
        _, prog, _ = core.validate_traces(ctx, "TraceDpkgVersion", "TraceDpkgVersion.cfg", sub,
                                          extra_env={"TRACE_DIAG": "1"}, java_opts=JAVA)
        for j, i in enumerate(rejected[:20]):
            out.append((i, prog.get(j + 1, 0)))
    return out, len(rejected)


# ------------------------------------------------------------------ dpkg as an external oracle

def dpkg_sign(sa, sb):
    """sign according to `dpkg --compare-versions`, None if dpkg rejects one of the strings"""
    def rel(op):
        p = subprocess.run(["dpkg", "--compare-versions", "--", sa, op, sb], capture_output=True, text=True,
                           env=dict(os.environ, LC_ALL="C"))
        if p.returncode not in (0, 1) or "error" in p.stderr:
            return None
        return p.returncode == 0
    lt = rel("lt")
    if lt is None:
        return None
    if lt:
        return -1
    eq = rel("eq")
    if eq is None:
        return None
    return 0 if eq else 1


def dpkg_crosscheck(ctx, traces, rejected_idx, want):
    if not shutil.which("dpkg"):
        ctx.extra["dpkg"] = "absent: external oracle skipped"
        return
    from concurrent.futures import ThreadPoolExecutor
    pairs = []
    seen = set()
    for ti, t in enumerate(traces):
        if ti in rejected_idx:
            continue
        for e in t["events"]:
            sa, sb = t["strs"][e["i"] - 1], t["strs"][e["j"] - 1]
            if e["i"] >= e["j"] or (sa, sb) in seen:
                continue
            big = [x for x in (sa, sb) if ":" in x and int(x.split(":")[0]) > 2147483647]
            if big:
                continue                 # dpkg stores the epoch in an int; the statement has no such limit
            seen.add((sa, sb))
            pairs.append((sa, sb, e["cmp"]))
        if len(pairs) >= want:
            break
    with ThreadPoolExecutor(max_workers=WORKERS) as ex:
        signs = list(ex.map(lambda p: dpkg_sign(p[0], p[1]), pairs))
    skipped = 0
    agree = 0
    for (sa, sb, got), s in zip(pairs, signs):
        if s is None:
            skipped += 1
            continue
        if s == got:
            agree += 1
            continue
        if len(ctx.violations) < ctx.max_violation_files:
            ctx.violation({"kind": "dpkg", "a": sa, "b": sb, "dpkg_sign": s, "observed_sign": got},
                          "dpkg --compare-versions orders %r %r with sign %d; version_compare (and the TLA+ reference, "
                          "which accepted the recorded comparison) says %d" % (sa, sb, s, got))
    ctx.extra["dpkg"] = {"pairs_checked": len(pairs) - skipped, "agree": agree, "rejected_by_dpkg": skipped}
    if pairs and skipped > len(pairs) // 2:
        raise core.MachineryError("dpkg rejected %d of %d generated versions: the external oracle is vacuous" % (skipped, len(pairs)))


# ------------------------------------------------------------------ the check

def run(ctx):
    quick = ctx.tier == "quick"
    rng = ctx.rng
    ctx.import_repo()
    ctx.assumptions += [
        "exhaustive part is small-scope: 7-8 code points (0 1 9 A a . ~ / 0 1 a ~ + : -), bounded lengths; CASE sample chosen by a seed-dependent checksum class",
        "inputs are valid version strings per DESIGN D2 and outside its unspecified zone (re-checked by TLC: TDomain)",
        "concretization substitutes order-isomorphic code points (class and relative order kept, '0' fixed)",
        "hash collisions between unequal versions are allowed; only a == b => hash(a) == hash(b) is a verdict",
        "trusted: TLC, the concretizer, the observation wrapper, dpkg --compare-versions where present",
    ]
    from debian import debian_support
    ctx.extra["Version_is"] = debian_support.Version.__mro__[1].__name__

    # 1. spec-level negative controls: the invariants are not vacuous
    negative_controls(ctx)

    # 2. design: bounded-exhaustive configurations; the same runs emit the cases to replay
    plan = ([("MC_DpkgVersion_parts.cfg", 16), ("MC_DpkgVersion_full.cfg", 32), ("MC_DpkgVersion_triples.cfg", 1)]
            if quick else
            [("MC_DpkgVersion_parts_thorough.cfg", 200), ("MC_DpkgVersion_full_thorough.cfg", 100),
             ("MC_DpkgVersion_triples_thorough.cfg", 1)])
    nconc = 2 if quick else 4
    ops = None
    replayed = 0
    ctx.extra["configs"] = {}
    for name, stride in plan:
        offset = rng.randrange(stride)
        r, cases, o = design_run(ctx, name, stride, offset)
        if sorted(o) != [-1, 0, 1]:
            raise core.MachineryError("TLC did not print the OPS table (%r)" % (o,))
        ops = o
        if not cases:
            raise core.MachineryError("%s emitted no CASE line" % name)
        n, per_sign = replay_cases(ctx, cases, ops, nconc, name[len("MC_DpkgVersion_"):-len(".cfg")])
        replayed += n
        consts = dict(re.findall(r"(?m)^\s*(Epochs|Revs|UpChars|MaxUp|Seps|Triples)\s*(?:=|<-)\s*(.+?)\s*$", cfg_text(name)))
        nv = next(k for k in range(1, 100000) if k + k * k + (k ** 3 if r.depth == 3 else 0) >= r.distinct)
        ctx.extra["configs"][name] = {"constants": consts, "versions": nv,
                                      "per_action": {"Compare": nv * nv, "Third": nv ** 3 if r.depth == 3 else 0},
                                      "states": r.distinct, "wall_s": round(r.wall, 1), "emit_stride": stride,
                                      "emit_offset": offset, "cases": len(cases),
                                      "cases_per_sign": {str(k): v for k, v in per_sign.items()}, "replays": n}
    ctx.extra["ops_table_from_tlc"] = {str(k): v for k, v in ops.items()}
    ctx.extra["behaviours_replayed"] = replayed

    # 3. code -> spec: recorded comparisons validated by TLC on the concrete code points
    ntr = 2000 if quick else 12000
    traces = make_traces(rng, ntr)
    nev = sum(len(t["events"]) for t in traces)
    bad, nrej = validate(ctx, traces)
    ctx.traces += replayed + len(traces)
    ctx.evaluations += nev
    for t in traces:
        ctx.distinct.add(("trace",) + tuple(t["strs"]))
    eqpairs = sum(1 for t in traces for e in t["events"] if e["cmp"] == 0 and e["i"] < e["j"]
                  and t["strs"][e["i"] - 1] != t["strs"][e["j"] - 1])
    ctx.extra["traces"] = {"recorded": len(traces), "comparisons": nev, "rejected": nrej,
                           "equal_pairs_with_different_spelling": eqpairs,
                           "max_len": max(len(s) for t in traces for s in t["strs"])}
    for t in traces:
        e = t["events"][0]
        if e["cmp"] == 0 and t["strs"][e["i"] - 1] != t["strs"][e["j"] - 1]:
            ctx.sample("recorded: %r == %r, hashes equal: %s" % (t["strs"][e["i"] - 1], t["strs"][e["j"] - 1], e["heq"]))
            break
    ctx.sample("recorded: %r vs %r -> %d" % (traces[0]["strs"][0], traces[0]["strs"][1], traces[0]["events"][0]["cmp"]))
    for i, at in bad[:5]:
        t = traces[i]
        e = t["events"][at] if at < len(t["events"]) else None
        where = "?" if e is None else "%r vs %r" % (t["strs"][e["i"] - 1], t["strs"][e["j"] - 1])
        ctx.violation({"kind": "trace", "strs": t["strs"], "first_unexplained_event": at + 1, "event": e},
                      "recorded comparison not explained by the dpkg reference (DpkgVersion.tla): %s observed %r"
                      % (where, e))

    # 4. dpkg itself as a second oracle (also validates the transcription of the reference)
    dpkg_crosscheck(ctx, traces, {i for i, _ in bad}, 150 if quick else 5000)


def replay(ctx, case):
    ctx.import_repo()
    kind = case.get("kind")
    if kind == "case":
        obs = observe(case["a"], case["b"])
        return judge(obs, case["expected_ops"], case["expected_hash_equal"])
    if kind == "trace":
        t = record_trace(case["strs"])
        bad, nrej = validate(ctx, [t], with_controls=False)
        if nrej:
            at = bad[0][1]
            return "comparison %d of %r still not explained by the specification: %r" % (at + 1, case["strs"], t["events"][at] if at < len(t["events"]) else None)
        return None
    if kind == "dpkg":
        obs = observe(case["a"], case["b"])
        s = dpkg_sign(case["a"], case["b"]) if shutil.which("dpkg") else case["dpkg_sign"]
        if "exc" in obs or obs["cmp"] != s:
            return "dpkg says %r, version_compare says %r" % (s, obs.get("exc") or obs["cmp"])
        return None
    return "unknown case kind"
